package main

// Zone (difference-bound) facts: x - y <= c between "roots" (terms that are
// not themselves an addition/subtraction of a constant), learned from
// comparison literals of the path condition.  They let the simplifier decide
// index arithmetic such as  marker+2 <= committed  from  committed >= last,
// last = marker+2  without a solver call.  All reasoning is over mathematical
// integers and is only applied to terms whose 64-bit evaluation provably does
// not wrap (intervals below 2^62); VERIF_AUDIT=1 re-checks every decision.

const zInf = int64(1) << 62

type zone struct {
	idx map[*Term]int
	d   [][]int64 // d[i][j] = least known c with  root_i - root_j <= c ; index 0 is the constant zero
}

func newZone() *zone {
	z := &zone{idx: map[*Term]int{}}
	z.d = [][]int64{{0}}
	return z
}

func (z *zone) clone() *zone {
	n := &zone{idx: make(map[*Term]int, len(z.idx)), d: make([][]int64, len(z.d))}
	for k, v := range z.idx {
		n.idx[k] = v
	}
	for i := range z.d {
		n.d[i] = append([]int64(nil), z.d[i]...)
	}
	return n
}

func (z *zone) node(t *Term) int {
	if t == nil {
		return 0
	}
	if i, ok := z.idx[t]; ok {
		return i
	}
	i := len(z.d)
	z.idx[t] = i
	for k := range z.d {
		z.d[k] = append(z.d[k], zInf)
	}
	row := make([]int64, i+1)
	for k := range row {
		row[k] = zInf
	}
	row[i] = 0
	z.d = append(z.d, row)
	return i
}

func zadd(a, b int64) int64 {
	if a >= zInf || b >= zInf {
		return zInf
	}
	s := a + b
	if s >= zInf {
		return zInf
	}
	if s <= -zInf {
		return -zInf + 1
	}
	return s
}

// add records  x - y <= c  and restores closure.
func (z *zone) add(x, y int, c int64) {
	if c >= z.d[x][y] {
		return
	}
	n := len(z.d)
	for i := 0; i < n; i++ {
		dix := z.d[i][x]
		if dix >= zInf {
			continue
		}
		for j := 0; j < n; j++ {
			v := zadd(zadd(dix, c), z.d[y][j])
			if v < z.d[i][j] {
				z.d[i][j] = v
			}
		}
	}
}

type lin struct {
	root *Term // nil = constant
	off  int64
	ok   bool
}

// linOf writes t as root+off over the integers when no step can wrap.
func (c *absCtx) linOf(t *Term) lin {
	if t.W != 64 {
		return lin{}
	}
	if t.Op == "const" {
		if t.C < uint64(zInf) {
			return lin{nil, int64(t.C), true}
		}
		return lin{}
	}
	if t.Op == "bvadd" && t.Args[1].IsConst() {
		a, k := t.Args[0], t.Args[1].C
		av := c.val(a)
		if k < 1<<32 {
			if av.hi < uint64(zInf) {
				if l := c.linOf(a); l.ok {
					return lin{l.root, l.off + int64(k), true}
				}
			}
		} else if nk := -k; nk < 1<<32 {
			// a + (2^64 - nk) = a - nk when a >= nk
			if av.lo >= nk && av.hi < uint64(zInf) {
				if l := c.linOf(a); l.ok {
					return lin{l.root, l.off - int64(nk), true}
				}
			}
		}
	}
	if v := c.val(t); v.hi < uint64(zInf) {
		return lin{t, 0, true}
	}
	return lin{}
}

// zoneLearn records a comparison literal  A op B  (op in ule, ult, eq) known to hold.
func (c *absCtx) zoneLearn(op string, A, B *Term) {
	la, lb := c.linOf(A), c.linOf(B)
	if !la.ok || !lb.ok {
		return
	}
	z := c.st.zone
	x, y := z.node(la.root), z.node(lb.root)
	switch op {
	case "ule": // x+a <= y+b
		z.add(x, y, lb.off-la.off)
	case "ult":
		z.add(x, y, lb.off-la.off-1)
	case "eq":
		z.add(x, y, lb.off-la.off)
		z.add(y, x, la.off-lb.off)
	case "ne":
		// x - y != D: tighten a bound that sits exactly on D
		D := lb.off - la.off
		if x == y {
			return
		}
		if z.d[x][y] == D {
			z.add(x, y, D-1)
		}
		if z.d[y][x] == -D {
			z.add(y, x, -D-1)
		}
	}
}

// zoneCmp decides A <= B (strict=false) or A < B (strict=true) when possible.
func (c *absCtx) zoneCmp(A, B *Term, strict bool) int8 {
	z := c.st.zone
	if z == nil {
		return triUnknown
	}
	la, lb := c.linOf(A), c.linOf(B)
	if !la.ok || !lb.ok {
		return triUnknown
	}
	xi, okx := 0, true
	if la.root != nil {
		xi, okx = z.idx[la.root]
	}
	yi, oky := 0, true
	if lb.root != nil {
		yi, oky = z.idx[lb.root]
	}
	if !okx || !oky {
		if la.root == lb.root && la.root != nil {
			// same root never seen in a fact: compare offsets
			d := lb.off - la.off
			if strict {
				if d > 0 {
					return triTrue
				}
				return triFalse
			}
			if d >= 0 {
				return triTrue
			}
			return triFalse
		}
		return triUnknown
	}
	// A <= B  iff  x - y <= b - a
	bound := lb.off - la.off
	if strict {
		bound--
	}
	if xi == yi {
		if 0 <= bound {
			return triTrue
		}
		return triFalse
	}
	if z.d[xi][yi] <= bound {
		return triTrue
	}
	// A > B (resp. A >= B) iff  y - x <= a - b - 1 (resp. a - b)
	nb := la.off - lb.off - 1
	if strict {
		nb = la.off - lb.off
	}
	if z.d[yi][xi] <= nb {
		return triFalse
	}
	return triUnknown
}
