package main

import (
	"encoding/binary"
	"math/bits"
)

// xxh64 is XXH64 with seed 0 (what github.com/cespare/xxhash/v2.Sum64 computes).
func xxh64(b []byte) uint64 {
	const (
		p1 = 11400714785074694791
		p2 = 14029467366897019727
		p3 = 1609587929392839161
		p4 = 9650029242287828579
		p5 = 2870177450012600261
	)
	round := func(acc, input uint64) uint64 {
		acc += input * p2
		acc = bits.RotateLeft64(acc, 31)
		acc *= p1
		return acc
	}
	mergeRound := func(acc, val uint64) uint64 {
		val = round(0, val)
		acc ^= val
		acc = acc*p1 + p4
		return acc
	}
	n := len(b)
	var h uint64
	if n >= 32 {
		var pa1, pa2 uint64 = p1, p2
		v1 := pa1 + pa2
		v2 := uint64(p2)
		v3 := uint64(0)
		v4 := -pa1
		for len(b) >= 32 {
			v1 = round(v1, binary.LittleEndian.Uint64(b[0:8]))
			v2 = round(v2, binary.LittleEndian.Uint64(b[8:16]))
			v3 = round(v3, binary.LittleEndian.Uint64(b[16:24]))
			v4 = round(v4, binary.LittleEndian.Uint64(b[24:32]))
			b = b[32:]
		}
		h = bits.RotateLeft64(v1, 1) + bits.RotateLeft64(v2, 7) + bits.RotateLeft64(v3, 12) + bits.RotateLeft64(v4, 18)
		h = mergeRound(h, v1)
		h = mergeRound(h, v2)
		h = mergeRound(h, v3)
		h = mergeRound(h, v4)
	} else {
		h = p5
	}
	h += uint64(n)
	for len(b) >= 8 {
		k1 := round(0, binary.LittleEndian.Uint64(b[:8]))
		h ^= k1
		h = bits.RotateLeft64(h, 27)*p1 + p4
		b = b[8:]
	}
	if len(b) >= 4 {
		h ^= uint64(binary.LittleEndian.Uint32(b[:4])) * p1
		h = bits.RotateLeft64(h, 23)*p2 + p3
		b = b[4:]
	}
	for _, c := range b {
		h ^= uint64(c) * p5
		h = bits.RotateLeft64(h, 11) * p1
	}
	h ^= h >> 33
	h *= p2
	h ^= h >> 29
	h *= p3
	h ^= h >> 32
	return h
}
