package main

// A small abstract interpreter over terms (unsigned interval + known bits),
// refined by facts learned from the path condition.  It is used ONLY to skip
// solver calls for branch conditions whose truth value is already implied by
// the path condition (typically decoder branches over bytes the encoder just
// produced, loop bounds over vChoose-n, ...).  Assertions (vAssert) always go
// to the solver.  With VERIF_AUDIT=1 every decision taken here is re-checked
// with the solver and a disagreement aborts the run.

import (
	"math/bits"
)

type aval struct {
	lo, hi uint64 // unsigned interval
	kz, ko uint64 // bits known to be zero / one
	bad    bool   // contradictory (never used to decide anything)
}

func topVal(w int) aval { return aval{lo: 0, hi: mask(w)} }

func exact(w int, v uint64) aval {
	v &= mask(w)
	return aval{lo: v, hi: v, kz: ^v & mask(w), ko: v}
}

func (a aval) norm(w int) aval {
	m := mask(w)
	a.kz &= m
	a.ko &= m
	if a.kz&a.ko != 0 {
		a.bad = true
		return a
	}
	if mx := ^a.kz & m; a.hi > mx {
		a.hi = mx
	}
	if a.lo < a.ko {
		a.lo = a.ko
	}
	if a.lo > a.hi {
		a.bad = true
		return a
	}
	// leading bits above the highest bit of hi are zero
	if a.hi < m {
		n := bits.Len64(a.hi)
		a.kz |= m &^ mask(n)
	}
	// common leading prefix of lo and hi is known
	if x := a.lo ^ a.hi; true {
		n := bits.Len64(x) // bits below n may differ
		common := m &^ mask(n)
		a.ko |= a.lo & common
		a.kz |= ^a.lo & common
	}
	if a.kz&a.ko != 0 {
		a.bad = true
	}
	return a
}

func meet(a, b aval, w int) aval {
	r := aval{lo: a.lo, hi: a.hi, kz: a.kz | b.kz, ko: a.ko | b.ko, bad: a.bad || b.bad}
	if b.lo > r.lo {
		r.lo = b.lo
	}
	if b.hi < r.hi {
		r.hi = b.hi
	}
	if r.lo > r.hi {
		r.bad = true
		return r
	}
	return r.norm(w)
}

func join(a, b aval, w int) aval {
	r := aval{lo: a.lo, hi: a.hi, kz: a.kz & b.kz, ko: a.ko & b.ko}
	if b.lo < r.lo {
		r.lo = b.lo
	}
	if b.hi > r.hi {
		r.hi = b.hi
	}
	return r.norm(w)
}

type absCtx struct {
	st     *State
	memo   map[*Term]aval
	bm     map[*Term]int8
	refine func(*Term, aval)
}

const (
	triUnknown int8 = 0
	triTrue    int8 = 1
	triFalse   int8 = 2
)

func triNot(t int8) int8 {
	switch t {
	case triTrue:
		return triFalse
	case triFalse:
		return triTrue
	}
	return triUnknown
}

func (c *absCtx) val(t *Term) aval {
	if t.Op == "const" {
		return exact(t.W, t.C)
	}
	if v, ok := c.memo[t]; ok {
		return v
	}
	w := t.W
	m := mask(w)
	r := topVal(w)
	switch t.Op {
	case "bvand":
		a, b := c.val(t.Args[0]), c.val(t.Args[1])
		r = aval{lo: 0, hi: a.hi, kz: a.kz | b.kz, ko: a.ko & b.ko}
		if b.hi < r.hi {
			r.hi = b.hi
		}
	case "bvor":
		a, b := c.val(t.Args[0]), c.val(t.Args[1])
		r = aval{lo: a.lo, hi: m, kz: a.kz & b.kz, ko: a.ko | b.ko}
		if b.lo > r.lo {
			r.lo = b.lo
		}
		mx := a.hi
		if b.hi > mx {
			mx = b.hi
		}
		r.hi = mask(bits.Len64(mx)) & m
	case "bvxor":
		a, b := c.val(t.Args[0]), c.val(t.Args[1])
		r = aval{lo: 0, hi: m, kz: (a.kz & b.kz) | (a.ko & b.ko), ko: (a.kz & b.ko) | (a.ko & b.kz)}
		mx := a.hi
		if b.hi > mx {
			mx = b.hi
		}
		r.hi = mask(bits.Len64(mx)) & m
	case "bvnot":
		a := c.val(t.Args[0])
		r = aval{lo: m - a.hi, hi: m - a.lo, kz: a.ko, ko: a.kz}
	case "bvshl":
		a, b := c.val(t.Args[0]), c.val(t.Args[1])
		if b.lo == b.hi {
			s := b.lo
			if s >= uint64(w) {
				r = exact(w, 0)
			} else {
				r = aval{lo: 0, hi: m, kz: ((a.kz << s) | mask(int(s))) & m, ko: (a.ko << s) & m}
				if a.hi <= m>>s {
					r.lo, r.hi = a.lo<<s, a.hi<<s
				}
			}
		}
	case "bvlshr":
		a, b := c.val(t.Args[0]), c.val(t.Args[1])
		if b.lo == b.hi {
			s := b.lo
			if s >= uint64(w) {
				r = exact(w, 0)
			} else {
				r = aval{lo: a.lo >> s, hi: a.hi >> s, kz: (a.kz >> s) | (m &^ (m >> s)), ko: a.ko >> s}
			}
		} else {
			r = aval{lo: 0, hi: a.hi}
		}
	case "bvashr":
		a, b := c.val(t.Args[0]), c.val(t.Args[1])
		if w > 0 && a.hi < uint64(1)<<uint(w-1) { // non-negative: logical shift
			if b.lo == b.hi && b.lo < uint64(w) {
				s := b.lo
				r = aval{lo: a.lo >> s, hi: a.hi >> s, kz: (a.kz >> s) | (m &^ (m >> s)), ko: a.ko >> s}
			} else {
				r = aval{lo: 0, hi: a.hi}
			}
		}
	case "bvadd":
		a, b := c.val(t.Args[0]), c.val(t.Args[1])
		if a.hi <= m-b.hi {
			r = aval{lo: a.lo + b.lo, hi: a.hi + b.hi}
		} else if b.lo == b.hi && w == 64 && b.lo >= 1<<63 {
			// x + (2^64 - k) is x - k when x >= k
			if k := -b.lo; a.lo >= k {
				r = aval{lo: a.lo - k, hi: a.hi - k}
			}
		}
	case "bvsub":
		a, b := c.val(t.Args[0]), c.val(t.Args[1])
		if a.lo >= b.hi {
			r = aval{lo: a.lo - b.hi, hi: a.hi - b.lo}
		}
	case "bvmul":
		a, b := c.val(t.Args[0]), c.val(t.Args[1])
		h, l := bits.Mul64(a.hi, b.hi)
		if h == 0 && l <= m {
			r = aval{lo: a.lo * b.lo, hi: l}
		}
	case "bvudiv":
		a, b := c.val(t.Args[0]), c.val(t.Args[1])
		if b.lo > 0 {
			r = aval{lo: a.lo / b.hi, hi: a.hi / b.lo}
		}
	case "bvurem":
		a, b := c.val(t.Args[0]), c.val(t.Args[1])
		r = aval{lo: 0, hi: a.hi}
		if b.lo > 0 && b.hi-1 < r.hi {
			r.hi = b.hi - 1
		}
	case "extract":
		a := c.val(t.Args[0])
		l := uint(t.P2)
		r = aval{lo: 0, hi: m, kz: (a.kz >> l) & m, ko: (a.ko >> l) & m}
		if a.hi>>l <= m {
			r.lo, r.hi = a.lo>>l, a.hi>>l
		}
	case "zext":
		a := c.val(t.Args[0])
		aw := t.Args[0].W
		r = aval{lo: a.lo, hi: a.hi, kz: a.kz | (m &^ mask(aw)), ko: a.ko}
	case "sext":
		a := c.val(t.Args[0])
		aw := t.Args[0].W
		if a.hi < uint64(1)<<uint(aw-1) {
			r = aval{lo: a.lo, hi: a.hi, kz: a.kz | (m &^ mask(aw)), ko: a.ko}
		}
	case "ite":
		switch c.tri(t.Args[0]) {
		case triTrue:
			r = c.val(t.Args[1])
		case triFalse:
			r = c.val(t.Args[2])
		default:
			r = join(c.val(t.Args[1]), c.val(t.Args[2]), w)
		}
	}
	r = r.norm(w)
	if r.bad {
		r = topVal(w)
	}
	if f, ok := c.st.ivFacts[t]; ok {
		x := meet(r, f, w)
		if !x.bad {
			r = x
		}
	}
	c.memo[t] = r
	return r
}

// signedRange maps an unsigned interval to a signed one when it does not
// straddle the sign boundary.
func signedRange(a aval, w int) (int64, int64, bool) {
	if w <= 0 || w > 64 {
		return 0, 0, false
	}
	half := uint64(1) << uint(w-1)
	switch {
	case a.hi < half:
		return int64(a.lo), int64(a.hi), true
	case a.lo >= half:
		return sext64(a.lo, w), sext64(a.hi, w), true
	}
	return 0, 0, false
}

func (c *absCtx) tri(t *Term) int8 {
	if t.Op == "const" {
		if t.C == 1 {
			return triTrue
		}
		return triFalse
	}
	if v, ok := c.bm[t]; ok {
		return v
	}
	r := triUnknown
	if f, ok := c.st.boolFacts[t]; ok {
		if f {
			r = triTrue
		} else {
			r = triFalse
		}
		c.bm[t] = r
		return r
	}
	switch t.Op {
	case "not":
		r = triNot(c.tri(t.Args[0]))
	case "and":
		a, b := c.tri(t.Args[0]), c.tri(t.Args[1])
		if a == triFalse || b == triFalse {
			r = triFalse
		} else if a == triTrue && b == triTrue {
			r = triTrue
		}
	case "or":
		a, b := c.tri(t.Args[0]), c.tri(t.Args[1])
		if a == triTrue || b == triTrue {
			r = triTrue
		} else if a == triFalse && b == triFalse {
			r = triFalse
		}
	case "ite":
		switch c.tri(t.Args[0]) {
		case triTrue:
			r = c.tri(t.Args[1])
		case triFalse:
			r = c.tri(t.Args[2])
		default:
			a, b := c.tri(t.Args[1]), c.tri(t.Args[2])
			if a == b {
				r = a
			}
		}
	case "=":
		x, y := t.Args[0], t.Args[1]
		if x.W == 0 {
			a, b := c.tri(x), c.tri(y)
			if a != triUnknown && b != triUnknown {
				if a == b {
					r = triTrue
				} else {
					r = triFalse
				}
			}
		} else {
			a, b := c.val(x), c.val(y)
			switch {
			case a.lo == a.hi && b.lo == b.hi && a.lo == b.lo:
				r = triTrue
			case a.hi < b.lo || b.hi < a.lo:
				r = triFalse
			case (a.ko&b.kz)|(a.kz&b.ko) != 0:
				r = triFalse
			}
			if r == triUnknown {
				le, ge := c.zoneCmp(x, y, false), c.zoneCmp(y, x, false)
				if le == triFalse || ge == triFalse {
					r = triFalse
				} else if le == triTrue && ge == triTrue {
					r = triTrue
				}
			}
		}
	case "bvult", "bvule", "bvugt", "bvuge":
		a, b := c.val(t.Args[0]), c.val(t.Args[1])
		op := t.Op
		if op == "bvugt" || op == "bvuge" {
			a, b = b, a
			if op == "bvugt" {
				op = "bvult"
			} else {
				op = "bvule"
			}
		}
		if op == "bvult" {
			if a.hi < b.lo {
				r = triTrue
			} else if a.lo >= b.hi {
				r = triFalse
			}
		} else {
			if a.hi <= b.lo {
				r = triTrue
			} else if a.lo > b.hi {
				r = triFalse
			}
		}
		if r == triUnknown {
			X, Y := t.Args[0], t.Args[1]
			if t.Op == "bvugt" || t.Op == "bvuge" {
				X, Y = Y, X
			}
			r = c.zoneCmp(X, Y, op == "bvult")
		}
	case "bvslt", "bvsle", "bvsgt", "bvsge":
		a, b := c.val(t.Args[0]), c.val(t.Args[1])
		op := t.Op
		if op == "bvsgt" || op == "bvsge" {
			a, b = b, a
			if op == "bvsgt" {
				op = "bvslt"
			} else {
				op = "bvsle"
			}
		}
		if t.Args[0].W == 64 && a.hi < uint64(zInf) && b.hi < uint64(zInf) {
			X, Y := t.Args[0], t.Args[1]
			if t.Op == "bvsgt" || t.Op == "bvsge" {
				X, Y = Y, X
			}
			if zr := c.zoneCmp(X, Y, op == "bvslt"); zr != triUnknown {
				c.bm[t] = zr
				return zr
			}
		}
		alo, ahi, ok1 := signedRange(a, t.Args[0].W)
		blo, bhi, ok2 := signedRange(b, t.Args[0].W)
		if ok1 && ok2 {
			if op == "bvslt" {
				if ahi < blo {
					r = triTrue
				} else if alo >= bhi {
					r = triFalse
				}
			} else {
				if ahi <= blo {
					r = triTrue
				} else if alo > bhi {
					r = triFalse
				}
			}
		}
	}
	c.bm[t] = r
	return r
}

// learn records what an asserted literal (lit == val) says about its operands.
func (c *absCtx) learn(lit *Term, val bool) {
	st := c.st
	switch lit.Op {
	case "const":
		return
	case "not":
		c.learn(lit.Args[0], !val)
		return
	case "and":
		if val {
			c.learn(lit.Args[0], true)
			c.learn(lit.Args[1], true)
		}
	case "or":
		if !val {
			c.learn(lit.Args[0], false)
			c.learn(lit.Args[1], false)
		}
	}
	st.boolFacts[lit] = val
	refine := func(t *Term, f aval) {
		if t.Op == "const" {
			return
		}
		w := t.W
		cur, ok := st.ivFacts[t]
		if !ok {
			cur = topVal(w)
		}
		n := meet(cur, f.norm(w), w)
		if n.bad {
			return
		}
		st.ivFacts[t] = n
		delete(c.memo, t)
		// backward propagation through a few shapes
		switch t.Op {
		case "zext":
			in := t.Args[0]
			if n.hi <= mask(in.W) {
				c.refineTerm(in, aval{lo: n.lo, hi: n.hi})
			}
		case "bvlshr":
			if s := t.Args[1]; s.IsConst() && s.C < uint64(w) {
				a := t.Args[0]
				m := mask(w)
				f2 := aval{lo: 0, hi: m}
				if n.lo <= m>>s.C {
					f2.lo = n.lo << s.C
				}
				if n.hi < m>>s.C {
					f2.hi = ((n.hi + 1) << s.C) - 1
				}
				c.refineTerm(a, f2)
			}
		case "bvadd":
			// (a + k) in [lo,hi] with no wrap possible when lo >= k  =>  a in [lo-k, hi-k]
			for i := 0; i < 2; i++ {
				k, a := t.Args[i], t.Args[1-i]
				if k.IsConst() && w == 64 && k.C >= 1<<63 {
					// t = a - nk (a >= nk known): a = t + nk
					nk := -k.C
					av := c.val(a)
					if av.lo >= nk && n.hi <= mask(w)-nk {
						c.refineTerm(a, aval{lo: n.lo + nk, hi: n.hi + nk})
					}
				} else if k.IsConst() {
					av := c.val(a)
					if av.hi <= mask(w)-k.C && n.lo >= k.C { // a+k does not wrap
						c.refineTerm(a, aval{lo: n.lo - k.C, hi: n.hi - k.C})
					} else if av.hi <= mask(w)-k.C && n.hi >= k.C {
						c.refineTerm(a, aval{lo: 0, hi: n.hi - k.C})
					}
				}
			}
		}
	}
	c.refine = refine
	if len(lit.Args) != 2 || lit.Args[0].W == 0 {
		return
	}
	x, y := lit.Args[0], lit.Args[1]
	w := x.W
	m := mask(w)
	op := lit.Op
	// normalise to one of: x < y, x <= y (unsigned or signed), x = y, x != y
	switch op {
	case "bvugt":
		x, y, op = y, x, "bvult"
	case "bvuge":
		x, y, op = y, x, "bvule"
	case "bvsgt":
		x, y, op = y, x, "bvslt"
	case "bvsge":
		x, y, op = y, x, "bvsle"
	}
	if !val {
		switch op {
		case "bvult": // !(x<y) == y<=x
			x, y, op = y, x, "bvule"
		case "bvule":
			x, y, op = y, x, "bvult"
		case "bvslt":
			x, y, op = y, x, "bvsle"
		case "bvsle":
			x, y, op = y, x, "bvslt"
		case "=":
			op = "!="
		default:
			return
		}
	}
	a, b := c.val(x), c.val(y)
	switch op {
	case "=":
		mt := meet(a, b, w)
		if !mt.bad {
			refine(x, mt)
			refine(y, mt)
		}
	case "!=":
		if b.lo == b.hi {
			if a.lo == b.lo && a.lo < a.hi {
				refine(x, aval{lo: a.lo + 1, hi: a.hi})
			} else if a.hi == b.lo && a.lo < a.hi {
				refine(x, aval{lo: a.lo, hi: a.hi - 1})
			}
		}
		if a.lo == a.hi {
			if b.lo == a.lo && b.lo < b.hi {
				refine(y, aval{lo: b.lo + 1, hi: b.hi})
			} else if b.hi == a.lo && b.lo < b.hi {
				refine(y, aval{lo: b.lo, hi: b.hi - 1})
			}
		}
	case "bvult":
		if b.hi > 0 {
			refine(x, aval{lo: 0, hi: b.hi - 1})
		}
		if a.lo < m {
			refine(y, aval{lo: a.lo + 1, hi: m})
		}
	case "bvule":
		refine(x, aval{lo: 0, hi: b.hi})
		refine(y, aval{lo: a.lo, hi: m})
	case "bvslt", "bvsle":
		half := uint64(1) << uint(w-1)
		// x <s y with y known non-negative and x known non-negative: as unsigned
		if a.hi < half && b.hi < half {
			if op == "bvslt" {
				if b.hi > 0 {
					refine(x, aval{lo: 0, hi: b.hi - 1})
				}
				refine(y, aval{lo: a.lo + 1, hi: half - 1})
			} else {
				refine(x, aval{lo: 0, hi: b.hi})
				refine(y, aval{lo: a.lo, hi: half - 1})
			}
		} else if a.hi < half && a.lo <= a.hi {
			// lower bound x is non-negative: y >=s x >= 0, so y is non-negative too
			lo := a.lo
			if op == "bvslt" {
				lo++
			}
			if lo < half {
				refine(y, aval{lo: lo, hi: half - 1})
			}
		}
	}
	if w == 64 {
		zop := ""
		switch op {
		case "=":
			zop = "eq"
		case "bvult", "bvslt":
			zop = "ult"
		case "bvule", "bvsle":
			zop = "ule"
		case "!=":
			zop = "ne"
		}
		if zop != "" {
			signed := op == "bvslt" || op == "bvsle"
			c.st.zonePend = append(c.st.zonePend, zonePending{zop, x, y, signed})
		}
	}
}

type zonePending struct {
	op     string
	x, y   *Term
	signed bool
}

// zoneRetry turns pending comparison literals into zone edges once both sides
// have a known non-wrapping range.
func (c *absCtx) zoneRetry() {
	st := c.st
	keep := st.zonePend[:0:0]
	for _, p := range st.zonePend {
		a, b := c.val(p.x), c.val(p.y)
		if a.hi < uint64(zInf) && b.hi < uint64(zInf) && c.linOf(p.x).ok && c.linOf(p.y).ok {
			c.zoneLearn(p.op, p.x, p.y)
			if p.op == "ne" {
				keep = append(keep, p) // a later bound may land on the excluded value
			}
			continue
		}
		if p.signed {
			continue // signed literal over a possibly negative operand: never usable
		}
		keep = append(keep, p)
	}
	st.zonePend = keep
}

func (c *absCtx) refineTerm(t *Term, f aval) {
	if c.refine != nil {
		c.refine(t, f)
	}
}

// absorb folds path-condition entries not seen yet into the state's facts.
func (st *State) absorb() *absCtx {
	c := &absCtx{st: st, memo: map[*Term]aval{}, bm: map[*Term]int8{}}
	if st.ivFacts == nil {
		st.ivFacts = map[*Term]aval{}
		st.boolFacts = map[*Term]bool{}
		st.zone = newZone()
	}
	for st.factsN < len(st.pc) {
		c.learn(st.pc[st.factsN], true)
		c.zoneRetry()
		st.factsN++
		c.memo = map[*Term]aval{}
		c.bm = map[*Term]int8{}
	}
	return c
}

// implied reports whether the path condition implies cond (triTrue), its
// negation (triFalse) or neither as far as the abstract domain can tell.
func (st *State) implied(cond *Term) int8 {
	c := st.absorb()
	return c.tri(cond)
}
