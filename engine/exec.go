package main

import (
	"fmt"
	"go/token"
	"go/types"
	"os"
	"sort"
	"strings"
	"sync"

	"golang.org/x/tools/go/ssa"
)

type deferred struct {
	fn   Value // *Func or *Builtin-ish
	args []Value
	call *ssa.CallCommon
}

type Frame struct {
	fn        *ssa.Function
	block     *ssa.BasicBlock
	prev      *ssa.BasicBlock
	ip        int
	env       map[ssa.Value]Value
	defers    []deferred
	callInstr ssa.Value // instruction in caller receiving the result (nil => discard)
	unwinding bool
	fromDefer bool // frame runs a deferred call of the frame below
}

type State struct {
	reachSeq                                         []string // vReach labels in the order this path witnessed them
	nested                                           bool     // inside callNested (no forks allowed)
	lastResults                                      []Value  // results of the outermost frame's return
	heap                                             map[int]Value
	frames                                           []*Frame
	pc                                               []*Term
	globals                                          map[*ssa.Global]int
	vars                                             []*Term
	varSeq                                           int
	panicking                                        bool
	panicVal                                         Value
	recovered                                        bool
	forced                                           []bool
	taken                                            []bool
	steps                                            int
	outcome                                          string
	trace                                            []string
	nextObj                                          int
	hvars                                            []int // indexes into vars of harness-visible variables (v* calls), in call order
	events                                           []Event
	hashBuf                                          map[int][]Value
	lockv                                            map[string]int
	pools                                            map[int][]Value
	ivSeq, ivLen, ivHLen, ivEvLen, ivPcLen, ivCrcLen int
	ivNoYield                                        bool
	// thread mode
	threadMode bool
	stacks     [][]*Frame
	cur        int
	tdone      []bool
	tblock     []string
	switches   int
	noYield    bool
	switched   bool   // set when the current instruction gave up the CPU without completing
	postYield  bool   // the current thread just released a lock: offer a switch before its next instruction
	postSusp   []bool // thread was suspended at such a point (nothing pending: its next sync op yields normally)
	spawned    []Value
	crcApps    [][]*Term
	pendA      []pendAssert
	ivFacts    map[*Term]aval
	boolFacts  map[*Term]bool
	zone       *zone
	zonePend   []zonePending
	model      Model // a model of pc, or nil when none is known
	modelN     int   // number of pc conjuncts the model is known to satisfy
	factsN     int
}

func (st *State) clone() *State {
	n := &State{
		heap:      make(map[int]Value, len(st.heap)),
		frames:    make([]*Frame, len(st.frames)),
		pc:        append([]*Term(nil), st.pc...),
		globals:   make(map[*ssa.Global]int, len(st.globals)),
		vars:      append([]*Term(nil), st.vars...),
		varSeq:    st.varSeq,
		panicking: st.panicking, panicVal: st.panicVal, recovered: st.recovered,
		steps:    st.steps,
		trace:    append([]string(nil), st.trace...),
		nextObj:  st.nextObj,
		hvars:    append([]int(nil), st.hvars...),
		events:   append([]Event(nil), st.events...),
		hashBuf:  map[int][]Value{},
		lockv:    map[string]int{},
		pools:    map[int][]Value{},
		crcApps:  append([][]*Term(nil), st.crcApps...),
		pendA:    append([]pendAssert(nil), st.pendA...),
		reachSeq: append([]string(nil), st.reachSeq...),
		model:    st.model,
		modelN:   st.modelN,
	}
	if st.ivFacts != nil {
		n.ivFacts = make(map[*Term]aval, len(st.ivFacts))
		for k, v := range st.ivFacts {
			n.ivFacts[k] = v
		}
		n.boolFacts = make(map[*Term]bool, len(st.boolFacts))
		for k, v := range st.boolFacts {
			n.boolFacts[k] = v
		}
		n.factsN = st.factsN
		n.zone = st.zone.clone()
		n.zonePend = append([]zonePending(nil), st.zonePend...)
	}
	for k, v := range st.hashBuf {
		n.hashBuf[k] = v
	}
	for k, v := range st.lockv {
		n.lockv[k] = v
	}
	for k, v := range st.pools {
		n.pools[k] = v
	}
	for k, v := range st.heap {
		n.heap[k] = v
	}
	for k, v := range st.globals {
		n.globals[k] = v
	}
	n.threadMode, n.cur, n.switches, n.noYield = st.threadMode, st.cur, st.switches, st.noYield
	n.postYield = st.postYield
	n.postSusp = append([]bool(nil), st.postSusp...)
	n.tdone = append([]bool(nil), st.tdone...)
	n.tblock = append([]string(nil), st.tblock...)
	n.spawned = append([]Value(nil), st.spawned...)
	n.stacks = make([][]*Frame, len(st.stacks))
	for ti, stk := range st.stacks {
		if ti == st.cur {
			continue
		}
		n.stacks[ti] = cloneFrames(stk)
	}
	for i, f := range st.frames {
		nf := *f
		nf.env = make(map[ssa.Value]Value, len(f.env))
		for k, v := range f.env {
			nf.env[k] = v
		}
		nf.defers = append([]deferred(nil), f.defers...)
		n.frames[i] = &nf
	}
	return n
}

func cloneFrames(fs []*Frame) []*Frame {
	out := make([]*Frame, len(fs))
	for i, f := range fs {
		nf := *f
		nf.env = make(map[ssa.Value]Value, len(f.env))
		for k, v := range f.env {
			nf.env[k] = v
		}
		nf.defers = append([]deferred(nil), f.defers...)
		out[i] = &nf
	}
	return out
}

func (st *State) alloc(v Value) int {
	st.nextObj++
	id := st.nextObj
	st.heap[id] = v
	return id
}

func (st *State) load(p *Ptr) Value {
	if p == nil {
		panic(goPanic{"runtime error: nil pointer dereference"})
	}
	root, ok := st.heap[p.Obj]
	if !ok {
		panic(fmt.Sprintf("dangling object %d", p.Obj))
	}
	return getPath(root, p.Path)
}

func (st *State) store(p *Ptr, v Value) {
	if p == nil {
		panic(goPanic{"runtime error: nil pointer dereference"})
	}
	st.heap[p.Obj] = setPath(st.heap[p.Obj], p.Path, v)
}

type goPanic struct{ msg string }

// Event is an observable harness event (vEvent) with possibly symbolic arguments.
type Event struct {
	Kind string
	Args []*Term
}

// Violation is a counterexample candidate: a failed vAssert or a forbidden outcome.
type Violation struct {
	Harness string            `json:"harness"`
	Kind    string            `json:"kind"` // assert | panic | deadlock
	ID      string            `json:"id"`
	Values  []uint64          `json:"values"` // harness variables in v*-call order
	Names   []string          `json:"names"`
	AllVars map[string]uint64 `json:"all_vars"`
	Events  []string          `json:"events"`
	PC      int               `json:"pc_len"`
}

type Engine struct {
	prog            *ssa.Program
	solver          *Solver
	sh              *Shared
	work            []*State
	paths           int
	nontriv         int
	outcomes        map[string]int
	viol            []Violation
	reach           map[string]int
	asserts         map[string]int
	assertQ         int
	maxSteps        int
	forks           int
	funcsSeen       map[*ssa.Function]bool
	verbose         bool
	harness         string
	tier            int
	pin             map[int]uint64
	samples         []string
	agree           []AgreeSample
	agreeMax        int
	maxSwitch       int
	noAbs           bool
	audit           bool
	absHits         int
	noSlice         bool
	useModel        bool
	harnessPkg      *ssa.Package
	assertsToSolver bool
	absAsserts      int
	varMemo         map[*Term]varset
	varIdx          map[*Term]int
}

func (e *Engine) top(st *State) *Frame { return st.frames[len(st.frames)-1] }

func (e *Engine) eval(st *State, f *Frame, v ssa.Value) Value {
	switch x := v.(type) {
	case *ssa.Const:
		return constValue(x)
	case *ssa.Global:
		id, ok := st.globals[x]
		if !ok {
			id = st.alloc(zero(x.Type().(*types.Pointer).Elem()))
			st.globals[x] = id
			if uninitAudit && x.Pkg != nil && !pkgInited(x.Pkg.Pkg.Path()) {
				uninitReads.Store(x.Pkg.Pkg.Path()+"."+x.Name(), true)
			}
		}
		return &Ptr{Obj: id}
	case *ssa.Function:
		return &Func{Fn: x}
	case *ssa.Builtin:
		return x
	}
	r, ok := f.env[v]
	if !ok {
		panic(fmt.Sprintf("no value for %s (%T) in %s", v.Name(), v, f.fn))
	}
	return r
}

// forkClone copies st as it was when the current instruction started (the
// clone re-executes that instruction with a forced-decision prefix): variables,
// events, path condition and the facts derived from it are rolled back.
func (e *Engine) forkClone(st *State, lastDecision bool) *State {
	if st.nested {
		panic(unsupported("fork inside a String() method called from a format intrinsic"))
	}
	if forkProf != nil && len(st.frames) > 0 {
		f := st.frames[len(st.frames)-1]
		key := f.fn.String()
		if f.ip < len(f.block.Instrs) {
			key += " @ " + e.prog.Fset.Position(f.block.Instrs[f.ip].Pos()).String()
		}
		forkProfMu.Lock()
		forkProf[key]++
		forkProfMu.Unlock()
	}
	cl := st.clone()
	cl.varSeq = st.ivSeq
	cl.noYield = st.ivNoYield
	cl.vars = cl.vars[:st.ivLen]
	cl.hvars = cl.hvars[:st.ivHLen]
	cl.events = cl.events[:st.ivEvLen]
	cl.pc = cl.pc[:st.ivPcLen]
	cl.crcApps = cl.crcApps[:st.ivCrcLen]
	cl.ivFacts, cl.boolFacts, cl.factsN, cl.zone, cl.zonePend = nil, nil, 0, nil, nil
	cl.forced = append(append([]bool(nil), st.taken...), lastDecision)
	cl.model, cl.modelN = nil, 0
	return cl
}

// branch decides a symbolic condition, forking when both outcomes are feasible.
func (e *Engine) branch(st *State, c *Term) bool {
	if c.IsTrue() {
		return true
	}
	if c.IsFalse() {
		return false
	}
	if !e.noAbs {
		if r := st.implied(c); r != triUnknown {
			e.absHits++
			if e.audit {
				neg := c
				if r == triTrue {
					neg = Not(c)
				}
				if a := e.solver.Check(st.pc, neg); a == "sat" {
					panic(fmt.Sprintf("ABSINT UNSOUND: decided %v for %s under pc of %d conjuncts, solver disagrees", r == triTrue, c, len(st.pc)))
				} else if a == "unsat" {
					e.solver.Unsat-- // audit queries are not counted as work
					e.solver.Queries--
				}
			}
			return r == triTrue
		}
	}
	if len(st.forced) > 0 {
		d := st.forced[0]
		st.forced = st.forced[1:]
		if d {
			st.pc = append(st.pc, c)
		} else {
			st.pc = append(st.pc, Not(c))
		}
		st.taken = append(st.taken, d)
		if len(st.forced) == 0 && st.modelN == -1 {
			st.modelN = len(st.pc) // the clone's model was taken for exactly this prefix
		}
		return d
	}
	// model-guided: the side the current model satisfies is feasible for free
	knownT, knownF := false, false
	if e.useModel && st.modelValid() {
		if v, ok := st.holds(c); ok {
			knownT, knownF = v, !v
		}
	}
	var mT, mF Model
	rt := "sat"
	if !knownT {
		rt = e.feasible(st, c)
		if rt == "unknown" {
			panic(unsupported("solver unknown"))
		}
		if rt == "sat" && e.useModel {
			mT = e.fetchModel(st)
		}
	} else {
		mT = st.model
	}
	if rt == "unsat" {
		st.pc = append(st.pc, Not(c))
		st.taken = append(st.taken, false)
		st.modelN = len(st.pc) // pc implies not c: the model still fits
		return false
	}
	rf := "sat"
	if !knownF {
		rf = e.feasible(st, Not(c))
		if rf == "unknown" {
			panic(unsupported("solver unknown"))
		}
		if rf == "sat" && e.useModel {
			mF = e.fetchModel(st)
		}
	} else {
		mF = st.model
	}
	if rf == "sat" {
		cl := e.forkClone(st, false)
		cl.model, cl.modelN = mF, -1 // valid once the forced prefix has been replayed
		e.pushFork(cl)
		e.forks++
	}
	st.pc = append(st.pc, c)
	st.taken = append(st.taken, true)
	st.model, st.modelN = mT, len(st.pc)
	return true
}

// modelValid: the model is known to satisfy the whole current pc.
func (st *State) modelValid() bool {
	return st.model != nil && st.modelN == len(st.pc)
}

// concretize returns a concrete value of term t in [0,hi) forking over feasible ones; ok=false if out of range (panic path)
func (e *Engine) concretize(st *State, t *Term, hi int) (int, bool) {
	if t.IsConst() {
		v := int(sext64(t.C, t.W))
		return v, v >= 0 && v < hi
	}
	for k := 0; k < hi; k++ {
		if e.branch(st, Cmp("=", t, Const(t.W, uint64(k)))) {
			return k, true
		}
	}
	return 0, false
}

// chooseFresh forks over [0,n) for a variable that was created by the current
// instruction and is therefore unconstrained: every value is feasible, so the
// solver is not consulted.
func (e *Engine) chooseFresh(st *State, v *Term, n int) (int, bool) {
	if v.IsConst() { // pinned
		k := int(v.C)
		return k, k >= 0 && k < n
	}
	if n <= 0 {
		return 0, false
	}
	for k := 0; k < n; k++ {
		c := Cmp("=", v, Const(v.W, uint64(k)))
		if len(st.forced) > 0 {
			d := st.forced[0]
			st.forced = st.forced[1:]
			st.taken = append(st.taken, d)
			if d {
				st.pc = append(st.pc, c)
				return k, true
			}
			continue
		}
		if k < n-1 {
			cl := e.forkClone(st, false)
			e.pushFork(cl)
			e.forks++
		}
		valid := st.modelValid()
		st.pc = append(st.pc, c)
		st.taken = append(st.taken, true)
		if valid {
			// v is fresh: the model extends with v = k
			nm := make(Model, len(st.model)+1)
			for kk, vv := range st.model {
				nm[kk] = vv
			}
			nm[v] = uint64(k)
			st.model, st.modelN = nm, len(st.pc)
		}
		return k, true
	}
	return 0, false
}

func (e *Engine) newVar(st *State, name string, w int) *Term {
	st.varSeq++
	if pv, ok := e.pin[st.varSeq]; ok {
		c := Const(w, pv)
		if w == 0 {
			c = Bool(pv != 0)
		}
		st.vars = append(st.vars, c)
		return c
	}
	v := Var(fmt.Sprintf("%s!%d", sanitize(name), st.varSeq), w)
	st.vars = append(st.vars, v)
	return v
}

// newHVar creates a harness-visible variable (the k-th v* call of the native run).
func (e *Engine) newHVar(st *State, name string, w int) *Term {
	v := e.newVar(st, name, w)
	st.hvars = append(st.hvars, len(st.vars)-1)
	return v
}

func sanitize(s string) string {
	var b strings.Builder
	for _, r := range s {
		if r >= 'a' && r <= 'z' || r >= 'A' && r <= 'Z' || r >= '0' && r <= '9' || r == '_' {
			b.WriteRune(r)
		} else {
			b.WriteRune('_')
		}
	}
	return b.String()
}

func (e *Engine) pushCall(st *State, fn *ssa.Function, args []Value, bind []Value, callInstr ssa.Value) {
	if fn.Blocks == nil {
		panic(unsupported("no body: " + fn.String()))
	}
	e.funcsSeen[fn] = true
	if traceSub != "" && strings.Contains(fn.String(), traceSub) {
		fmt.Fprintf(os.Stderr, "TRACE %s%s\n", strings.Repeat(" ", len(st.frames)), fn.String())
	}
	if len(st.frames) > 200 {
		panic(unsupported("call depth"))
	}
	nf := &Frame{fn: fn, block: fn.Blocks[0], env: make(map[ssa.Value]Value, 16), callInstr: callInstr}
	for i, p := range fn.Params {
		nf.env[p] = args[i]
	}
	for i, fv := range fn.FreeVars {
		nf.env[fv] = bind[i]
	}
	st.frames = append(st.frames, nf)
}

func (e *Engine) ret(st *State, results []Value) {
	f := e.top(st)
	if len(st.frames) == 1 && st.threadMode && st.cur != 0 {
		next, ok := e.pickNext(st)
		if !ok {
			return
		}
		st.frames = st.frames[:0]
		st.tdone[st.cur] = true
		e.applyNext(st, next)
		return
	}
	st.frames = st.frames[:len(st.frames)-1]
	if len(st.frames) == 0 {
		st.outcome = "return"
		st.lastResults = results
		return
	}
	caller := e.top(st)
	if f.fromDefer {
		return // caller continues (RunDefers loop or unwinding)
	}
	if f.callInstr != nil {
		var r Value
		switch len(results) {
		case 0:
			r = nil
		case 1:
			r = results[0]
		default:
			r = &Tuple{V: results}
		}
		caller.env[f.callInstr] = r
	}
	caller.ip++
}

// run executes a state until its path ends.
func (e *Engine) run(st *State) {
	defer func() {
		if r := recover(); r != nil {
			switch x := r.(type) {
			case unsupportedErr:
				st.outcome = "UNSUPPORTED: " + x.msg
				if os.Getenv("STACK") != "" {
					for _, fr := range st.frames {
						fmt.Fprintln(os.Stderr, "   at", fr.fn)
					}
				}
			default:
				if os.Getenv("STACK") != "" {
					fmt.Fprintln(os.Stderr, "ENGINE PANIC", r)
					for _, fr := range st.frames {
						fmt.Fprintln(os.Stderr, "   at", fr.fn, "block", fr.block.Index, "ip", fr.ip)
					}
					if len(st.frames) > 0 {
						fr := st.frames[len(st.frames)-1]
						fmt.Fprintln(os.Stderr, "   instr:", fr.block.Instrs[fr.ip])
					}
				}
				panic(r)
			}
		}
	}()
	for st.outcome == "" {
		st.steps++
		if st.steps > e.maxSteps {
			st.outcome = "UNWIND: step budget"
			if os.Getenv("STACK") != "" {
				for _, fr := range st.frames {
					fmt.Fprintln(os.Stderr, "   at", fr.fn, fr.block.Index)
				}
			}
			return
		}
		if st.postYield {
			// pseudo-instruction after Unlock/RUnlock: the scheduler may switch
			// before the releasing thread runs its next (possibly unsynchronised)
			// instruction.  A fork re-executes this pseudo-instruction (the clone
			// still has postYield set).
			st.taken = st.taken[:0]
			st.ivSeq, st.ivLen, st.ivNoYield = st.varSeq, len(st.vars), st.noYield
			st.ivHLen, st.ivEvLen = len(st.hvars), len(st.events)
			st.ivPcLen, st.ivCrcLen = len(st.pc), len(st.crcApps)
			e.yieldAfter(st)
			st.postYield = false
			continue
		}
		f := e.top(st)
		if f.unwinding {
			e.unwind(st, f)
			continue
		}
		in := f.block.Instrs[f.ip]
		st.taken = st.taken[:0]
		st.ivSeq, st.ivLen, st.ivNoYield = st.varSeq, len(st.vars), st.noYield
		st.ivHLen, st.ivEvLen = len(st.hvars), len(st.events)
		st.ivPcLen, st.ivCrcLen = len(st.pc), len(st.crcApps)
		e.execSafe(st, f, in)
	}
}

// callNested runs fn(args) to completion inside the current instruction (used
// for String() methods of values handed to a format intrinsic).  The callee
// must not fork.
func (e *Engine) callNested(st *State, fn *ssa.Function, args []Value) Value {
	saved := st.frames
	taken := append([]bool(nil), st.taken...)
	ivSeq, ivLen, ivNoYield, ivHLen, ivEvLen, ivPcLen, ivCrcLen := st.ivSeq, st.ivLen, st.ivNoYield, st.ivHLen, st.ivEvLen, st.ivPcLen, st.ivCrcLen
	wasNested := st.nested
	st.nested = true
	st.frames = nil
	e.pushCall(st, fn, args, nil, nil)
	for st.outcome == "" {
		st.steps++
		if st.steps > e.maxSteps {
			panic(unsupported("step budget inside nested call"))
		}
		f := e.top(st)
		if f.unwinding {
			e.unwind(st, f)
			continue
		}
		e.execSafe(st, f, f.block.Instrs[f.ip])
	}
	if st.outcome != "return" {
		panic(unsupported("nested call of " + fn.String() + " ended with " + st.outcome))
	}
	st.outcome = ""
	st.frames = saved
	st.nested = wasNested
	st.taken = taken
	st.ivSeq, st.ivLen, st.ivNoYield, st.ivHLen, st.ivEvLen, st.ivPcLen, st.ivCrcLen = ivSeq, ivLen, ivNoYield, ivHLen, ivEvLen, ivPcLen, ivCrcLen
	if len(st.lastResults) == 1 {
		return st.lastResults[0]
	}
	return nil
}

func (e *Engine) execSafe(st *State, f *Frame, in ssa.Instruction) {
	defer func() {
		if r := recover(); r != nil {
			if gp, ok := r.(goPanic); ok {
				if os.Getenv("STACK") != "" {
					fmt.Fprintln(os.Stderr, "GOPANIC", gp.msg, "at instr", in)
					for _, fr := range st.frames {
						fmt.Fprintln(os.Stderr, "   at", fr.fn)
					}
				}
				e.startPanic(st, gp.msg)
				return
			}
			panic(r)
		}
	}()
	e.exec(st, f, in)
}

func (e *Engine) startPanic(st *State, v Value) {
	st.panicking = true
	st.panicVal = v
	e.top(st).unwinding = true
}

func (e *Engine) unwind(st *State, f *Frame) {
	// f is top frame, unwinding (panic in flight or recovered)
	if len(f.defers) > 0 {
		d := f.defers[len(f.defers)-1]
		f.unwinding = true
		st.switched = false
		e.invoke(st, d.fn, d.args, nil, true)
		if !st.switched {
			f.defers = f.defers[:len(f.defers)-1]
		}
		return
	}
	if !st.panicking {
		// recovered: resume at recover block or return zero values
		f.unwinding = false
		if f.fn.Recover != nil {
			f.prev = f.block
			f.block = f.fn.Recover
			f.ip = 0
			return
		}
		res := f.fn.Signature.Results()
		var rs []Value
		for i := 0; i < res.Len(); i++ {
			rs = append(rs, zero(res.At(i).Type()))
		}
		e.ret(st, rs)
		return
	}
	// propagate
	st.frames = st.frames[:len(st.frames)-1]
	if len(st.frames) == 0 {
		st.outcome = fmt.Sprintf("PANIC: %v", describe(st.panicVal))
		return
	}
	nf := e.top(st)
	if f.fromDefer {
		// panic inside a deferred call: continue unwinding the owner
		nf.unwinding = true
		return
	}
	nf.unwinding = true
}

func describe(v Value) string {
	switch x := v.(type) {
	case string:
		return x
	case *Iface:
		if x == nil {
			return "nil"
		}
		return describe(x.V)
	case *ErrObj:
		return "error(" + x.Msg + ")"
	case *Term:
		return x.String()
	}
	return fmt.Sprintf("%T", v)
}

// invoke calls a function value. fromDefer marks frames for deferred calls.
func (e *Engine) invoke(st *State, fv Value, args []Value, callInstr ssa.Value, fromDefer bool) {
	switch fn := fv.(type) {
	case *Func:
		if fn == nil {
			panic(goPanic{"runtime error: call of nil func"})
		}
		if e.intrinsic(st, fn.Fn, args, callInstr, fromDefer) {
			return
		}
		// a method value taken from the (nil) package logger, e.g. er := plog.Panicf
		if strings.HasSuffix(fn.Fn.Name(), "$bound") && len(fn.Fn.FreeVars) == 1 && isLoggerIface(fn.Fn.FreeVars[0].Type()) {
			if strings.TrimSuffix(fn.Fn.Name(), "$bound") == "Panicf" {
				msg := "Panicf"
				if s, ok := args[0].(string); ok {
					msg = "Panicf: " + s
				}
				e.startPanic(st, msg)
				return
			}
			if !fromDefer {
				f := e.top(st)
				if callInstr != nil {
					f.env[callInstr] = nil
				}
				f.ip++
			}
			return
		}
		e.pushCall(st, fn.Fn, args, fn.Bind, callInstr)
		e.top(st).fromDefer = fromDefer
	case *ssa.Builtin:
		r := e.builtin(st, fn, args, nil)
		if !fromDefer {
			f := e.top(st)
			if callInstr != nil {
				f.env[callInstr] = r
			}
			f.ip++
		}
	default:
		panic(fmt.Sprintf("invoke %T", fv))
	}
}

func (e *Engine) exec(st *State, f *Frame, in ssa.Instruction) {
	switch x := in.(type) {
	case *ssa.DebugRef:
		f.ip++
	case *ssa.Alloc:
		t := x.Type().(*types.Pointer).Elem()
		id := st.alloc(zero(t))
		f.env[x] = &Ptr{Obj: id}
		f.ip++
	case *ssa.BinOp:
		a, b := e.eval(st, f, x.X), e.eval(st, f, x.Y)
		if (x.Op == token.QUO || x.Op == token.REM) && isInt(x.X.Type()) {
			bt := b.(*Term)
			if e.branch(st, Cmp("=", bt, Const(bt.W, 0))) {
				panic(goPanic{"runtime error: integer divide by zero"})
			}
		}
		if x.Op == token.REM {
			// rand % c for a fresh random value: "any value below c" (an exact
			// 64-bit remainder by a constant stalls bit-blasting solvers)
			if at, ok := a.(*Term); ok && at.Op == "var" && strings.HasPrefix(at.Name, "rand!") {
				if bt := b.(*Term); bt.IsConst() && bt.C > 0 {
					y := e.newVar(st, "randmod", at.W)
					st.pc = append(st.pc, Cmp("bvult", y, bt))
					f.env[x] = y
					f.ip++
					return
				}
			}
		}
		f.env[x] = binop(x.Op, x.X.Type(), a, b)
		f.ip++
	case *ssa.UnOp:
		v := e.eval(st, f, x.X)
		switch x.Op {
		case token.MUL:
			f.env[x] = st.load(v.(*Ptr))
		case token.SUB:
			switch t := v.(type) {
			case *Term:
				f.env[x] = BvNeg(t)
			case float64:
				f.env[x] = -t
			}
		case token.NOT:
			f.env[x] = Not(v.(*Term))
		case token.XOR:
			f.env[x] = BvNot(v.(*Term))
		case token.ARROW:
			if !e.yield(st) {
				return
			}
			f.env[x] = e.chanRecv(st, v.(*ChanRef), x.CommaOk, x.Type())
		default:
			panic("unop " + x.Op.String())
		}
		f.ip++
	case *ssa.Convert:
		v := e.eval(st, f, x.X)
		f.env[x] = e.convertInstr(st, v, x.X.Type(), x.Type())
		f.ip++
	case *ssa.ChangeType:
		f.env[x] = e.eval(st, f, x.X)
		f.ip++
	case *ssa.Phi:
		// handled on block entry
		f.ip++
	case *ssa.Jump:
		e.jump(st, f, f.block.Succs[0])
	case *ssa.If:
		c := e.eval(st, f, x.Cond).(*Term)
		if e.branch(st, c) {
			e.jump(st, f, f.block.Succs[0])
		} else {
			e.jump(st, f, f.block.Succs[1])
		}
	case *ssa.Return:
		var rs []Value
		for _, r := range x.Results {
			rs = append(rs, e.eval(st, f, r))
		}
		e.ret(st, rs)
	case *ssa.Store:
		p := e.eval(st, f, x.Addr).(*Ptr)
		st.store(p, e.eval(st, f, x.Val))
		f.ip++
	case *ssa.FieldAddr:
		p := e.eval(st, f, x.X).(*Ptr)
		if p == nil {
			panic(goPanic{"runtime error: nil pointer dereference"})
		}
		f.env[x] = &Ptr{Obj: p.Obj, Path: appendPath(p.Path, x.Field)}
		f.ip++
	case *ssa.Field:
		s := e.eval(st, f, x.X).(*Struct)
		f.env[x] = s.F[x.Field]
		f.ip++
	case *ssa.IndexAddr:
		base := e.eval(st, f, x.X)
		idx := e.eval(st, f, x.Index).(*Term)
		switch b := base.(type) {
		case *Slice:
			i, ok := e.concretize(st, idx, b.Len)
			if !ok {
				panic(goPanic{"runtime error: index out of range"})
			}
			f.env[x] = &Ptr{Obj: b.Obj, Path: appendPath(b.Path, b.Off+i)}
		case *Ptr: // pointer to array
			n := int(x.X.Type().Underlying().(*types.Pointer).Elem().Underlying().(*types.Array).Len())
			i, ok := e.concretize(st, idx, n)
			if !ok {
				panic(goPanic{"runtime error: index out of range"})
			}
			f.env[x] = &Ptr{Obj: b.Obj, Path: appendPath(b.Path, i)}
		default:
			panic(fmt.Sprintf("IndexAddr on %T", base))
		}
		f.ip++
	case *ssa.Index:
		base := e.eval(st, f, x.X)
		idx := e.eval(st, f, x.Index).(*Term)
		switch b := base.(type) {
		case *Array:
			i, ok := e.concretize(st, idx, len(b.E))
			if !ok {
				panic(goPanic{"runtime error: index out of range"})
			}
			f.env[x] = b.E[i]
		case string:
			i, ok := e.concretize(st, idx, len(b))
			if !ok {
				panic(goPanic{"runtime error: index out of range"})
			}
			f.env[x] = Const(8, uint64(b[i]))
		default:
			panic(fmt.Sprintf("Index on %T", base))
		}
		f.ip++
	case *ssa.Slice:
		e.execSlice(st, f, x)
		f.ip++
	case *ssa.MakeSlice:
		n, ok1 := concreteInt(e.eval(st, f, x.Len))
		c, ok2 := concreteInt(e.eval(st, f, x.Cap))
		if !ok1 || !ok2 {
			lt := e.eval(st, f, x.Len).(*Term)
			k, ok := e.concretize(st, lt, 64)
			if !ok {
				panic(unsupported("symbolic make len > 64"))
			}
			n = k
			if !ok2 {
				c = n
			}
		}
		if n < 0 || c < n {
			panic(goPanic{"runtime error: makeslice: len out of range"})
		}
		et := x.Type().Underlying().(*types.Slice).Elem()
		arr := &Array{E: make([]Value, c)}
		z := zero(et)
		for i := range arr.E {
			arr.E[i] = z
		}
		id := st.alloc(arr)
		f.env[x] = &Slice{Obj: id, Len: n, Cap: c}
		f.ip++
	case *ssa.MakeMap:
		id := st.alloc(&MapVal{})
		f.env[x] = &MapRef{Obj: id}
		f.ip++
	case *ssa.MapUpdate:
		m := e.eval(st, f, x.Map).(*MapRef)
		if m.Obj == 0 {
			panic(goPanic{"runtime error: assignment to entry in nil map"})
		}
		k := e.eval(st, f, x.Key)
		v := e.eval(st, f, x.Value)
		mv := st.heap[m.Obj].(*MapVal)
		i := e.mapFind(st, mv, k)
		nm := &MapVal{K: append([]Value(nil), mv.K...), V: append([]Value(nil), mv.V...)}
		if i >= 0 {
			nm.V[i] = v
		} else {
			nm.K = append(nm.K, k)
			nm.V = append(nm.V, v)
		}
		st.heap[m.Obj] = nm
		f.ip++
	case *ssa.Lookup:
		base := e.eval(st, f, x.X)
		switch b := base.(type) {
		case *MapRef:
			k := e.eval(st, f, x.Index)
			et := x.X.Type().Underlying().(*types.Map).Elem()
			var val Value
			found := false
			if b.Obj != 0 {
				mv := st.heap[b.Obj].(*MapVal)
				if i := e.mapFind(st, mv, k); i >= 0 {
					val, found = mv.V[i], true
				}
			}
			if !found {
				val = zero(et)
			}
			if x.CommaOk {
				f.env[x] = &Tuple{V: []Value{val, Bool(found)}}
			} else {
				f.env[x] = val
			}
		case string:
			idx := e.eval(st, f, x.Index).(*Term)
			i, ok := e.concretize(st, idx, len(b))
			if !ok {
				panic(goPanic{"runtime error: index out of range"})
			}
			f.env[x] = Const(8, uint64(b[i]))
		default:
			panic(fmt.Sprintf("Lookup on %T", base))
		}
		f.ip++
	case *ssa.Range:
		base := e.eval(st, f, x.X)
		switch b := base.(type) {
		case *MapRef:
			it := &Iter{}
			if b.Obj != 0 {
				mv := st.heap[b.Obj].(*MapVal)
				it.Keys = mv.K
				it.Vals = mv.V
			}
			f.env[x] = &Ptr{Obj: st.alloc(it)}
		case string:
			f.env[x] = &Ptr{Obj: st.alloc(&Iter{IsStr: true, Str: b})}
		default:
			panic("range over " + fmt.Sprintf("%T", base))
		}
		f.ip++
	case *ssa.Next:
		ip := e.eval(st, f, x.Iter).(*Ptr)
		it := st.heap[ip.Obj].(*Iter)
		tt := x.Type().(*types.Tuple)
		if it.IsStr {
			if it.Pos >= len(it.Str) {
				f.env[x] = &Tuple{V: []Value{Bool(false), Const(64, 0), Const(32, 0)}}
			} else {
				rs := []rune(it.Str[it.Pos:])
				r := rs[0]
				sz := len(string(r))
				f.env[x] = &Tuple{V: []Value{Bool(true), Const(64, uint64(it.Pos)), Const(32, uint64(r))}}
				st.heap[ip.Obj] = &Iter{IsStr: true, Str: it.Str, Pos: it.Pos + sz}
			}
		} else {
			if it.Pos >= len(it.Keys) {
				f.env[x] = &Tuple{V: []Value{Bool(false), zeroOrNil(tt.At(1).Type()), zeroOrNil(tt.At(2).Type())}}
			} else {
				f.env[x] = &Tuple{V: []Value{Bool(true), it.Keys[it.Pos], it.Vals[it.Pos]}}
				st.heap[ip.Obj] = &Iter{Keys: it.Keys, Vals: it.Vals, Pos: it.Pos + 1}
			}
		}
		f.ip++
	case *ssa.Extract:
		f.env[x] = e.eval(st, f, x.Tuple).(*Tuple).V[x.Index]
		f.ip++
	case *ssa.MakeInterface:
		f.env[x] = &Iface{T: x.X.Type(), V: e.eval(st, f, x.X)}
		f.ip++
	case *ssa.ChangeInterface:
		f.env[x] = e.eval(st, f, x.X)
		f.ip++
	case *ssa.TypeAssert:
		v, _ := e.eval(st, f, x.X).(*Iface)
		ok := false
		var res Value
		if v != nil {
			if it, isI := x.AssertedType.Underlying().(*types.Interface); isI {
				ok = types.Implements(v.T, it)
				res = v
			} else {
				ok = types.Identical(v.T, x.AssertedType)
				res = v.V
			}
		}
		if !ok && !x.CommaOk && v == nil && isLoggerIface(x.AssertedType) {
			// the nil check go/ssa puts in front of a method value taken from the
			// package logger (modelled as a nil interface whose calls are intercepted)
			f.env[x] = (*Iface)(nil)
			f.ip++
			return
		}
		if !ok {
			if x.CommaOk {
				f.env[x] = &Tuple{V: []Value{zero(x.AssertedType), Bool(false)}}
			} else {
				panic(goPanic{"runtime error: interface conversion failed"})
			}
		} else if x.CommaOk {
			f.env[x] = &Tuple{V: []Value{res, Bool(true)}}
		} else {
			f.env[x] = res
		}
		f.ip++
	case *ssa.MakeClosure:
		var bind []Value
		for _, b := range x.Bindings {
			bind = append(bind, e.eval(st, f, b))
		}
		f.env[x] = &Func{Fn: x.Fn.(*ssa.Function), Bind: bind}
		f.ip++
	case *ssa.Call:
		e.execCall(st, f, &x.Call, x)
	case *ssa.Defer:
		fv, args := e.resolveCall(st, f, &x.Call)
		f.defers = append(f.defers, deferred{fn: fv, args: args})
		f.ip++
	case *ssa.RunDefers:
		if len(f.defers) > 0 {
			// The defer is popped only after the call went through: an inline
			// intrinsic (mutex op) may fork or switch threads first, and the
			// re-executed instruction must find it again.
			d := f.defers[len(f.defers)-1]
			st.switched = false
			e.invoke(st, d.fn, d.args, nil, true)
			if !st.switched {
				f.defers = f.defers[:len(f.defers)-1]
			}
			return // re-execute RunDefers when the deferred call returns
		}
		f.ip++
	case *ssa.Panic:
		e.startPanic(st, e.eval(st, f, x.X))
	case *ssa.MakeChan:
		n, _ := concreteInt(e.eval(st, f, x.Size))
		f.env[x] = &ChanRef{Obj: st.alloc(&ChanVal{Cap: n})}
		f.ip++
	case *ssa.Send:
		if !e.yield(st) {
			return
		}
		ch := e.eval(st, f, x.Chan).(*ChanRef)
		cv := st.heap[ch.Obj].(*ChanVal)
		if len(cv.Buf) >= cv.Cap {
			st.outcome = "DEADLOCK: send on full channel"
			return
		}
		st.heap[ch.Obj] = &ChanVal{Buf: append(append([]Value(nil), cv.Buf...), e.eval(st, f, x.X)), Cap: cv.Cap, Closed: cv.Closed}
		f.ip++
	case *ssa.Select:
		if !e.yield(st) {
			return
		}
		e.execSelect(st, f, x)
		f.ip++
	case *ssa.Go:
		// outside thread mode a goroutine started by the code under test runs to
		// completion at the go statement (one legal schedule; the code waits for
		// it through a WaitGroup)
		fv, args := e.resolveCall(st, f, &x.Call)
		f.ip++
		switch fn := fv.(type) {
		case *Func:
			if !e.intrinsic(st, fn.Fn, args, nil, true) {
				e.pushCall(st, fn.Fn, args, fn.Bind, nil)
				e.top(st).fromDefer = true // the caller simply continues afterwards
			}
		default:
			panic(unsupported("go statement on a non-function value"))
		}
	default:
		panic(unsupported(fmt.Sprintf("instruction %T", in)))
	}
}

func zeroOrNil(t types.Type) Value {
	if b, ok := t.(*types.Basic); ok && b.Kind() == types.Invalid {
		return nil
	}
	return zero(t)
}

func (e *Engine) jump(st *State, f *Frame, to *ssa.BasicBlock) {
	from := f.block
	// evaluate phis simultaneously
	var vals []Value
	var phis []*ssa.Phi
	idx := -1
	for i, p := range to.Preds {
		if p == from {
			idx = i
			break
		}
	}
	for _, in := range to.Instrs {
		p, ok := in.(*ssa.Phi)
		if !ok {
			break
		}
		phis = append(phis, p)
		vals = append(vals, e.eval(st, f, p.Edges[idx]))
	}
	for i, p := range phis {
		f.env[p] = vals[i]
	}
	f.prev = from
	f.block = to
	f.ip = len(phis)
}

func (e *Engine) mapFind(st *State, mv *MapVal, k Value) int {
	for i, kk := range mv.K {
		if e.branch(st, eqValues(kk, k)) {
			return i
		}
	}
	return -1
}

func (e *Engine) execSlice(st *State, f *Frame, x *ssa.Slice) {
	base := e.eval(st, f, x.X)
	var lo, hi, max = 0, -1, -1
	get := func(v ssa.Value, lim int) int {
		t := e.eval(st, f, v).(*Term)
		k, ok := e.concretize(st, t, lim+1)
		if !ok {
			panic(goPanic{"runtime error: slice bounds out of range"})
		}
		return k
	}
	switch b := base.(type) {
	case *Slice:
		if x.Low != nil {
			lo = get(x.Low, b.Cap)
		}
		hi = b.Len
		if x.High != nil {
			hi = get(x.High, b.Cap)
		}
		max = b.Cap
		if x.Max != nil {
			max = get(x.Max, b.Cap)
		}
		if lo > hi || hi > max {
			panic(goPanic{"runtime error: slice bounds out of range"})
		}
		if b.Nil && x.Low == nil && x.High == nil {
			f.env[x] = b
			return
		}
		f.env[x] = &Slice{Obj: b.Obj, Path: b.Path, Off: b.Off + lo, Len: hi - lo, Cap: max - lo, Nil: b.Nil && hi-lo == 0 && max-lo == 0}
	case string:
		if x.Low != nil {
			lo = get(x.Low, len(b))
		}
		hi = len(b)
		if x.High != nil {
			hi = get(x.High, len(b))
		}
		if lo > hi {
			panic(goPanic{"runtime error: slice bounds out of range"})
		}
		f.env[x] = b[lo:hi]
	case *Ptr: // *array
		n := int(x.X.Type().Underlying().(*types.Pointer).Elem().Underlying().(*types.Array).Len())
		if x.Low != nil {
			lo = get(x.Low, n)
		}
		hi = n
		if x.High != nil {
			hi = get(x.High, n)
		}
		max = n
		if x.Max != nil {
			max = get(x.Max, n)
		}
		if lo > hi || hi > max {
			panic(goPanic{"runtime error: slice bounds out of range"})
		}
		f.env[x] = &Slice{Obj: b.Obj, Path: b.Path, Off: lo, Len: hi - lo, Cap: max - lo}
	default:
		panic(fmt.Sprintf("Slice on %T", base))
	}
}

func (e *Engine) sliceElems(st *State, s *Slice) []Value {
	if s.Len == 0 {
		return nil
	}
	arr := getPath(st.heap[s.Obj], s.Path).(*Array)
	return arr.E[s.Off : s.Off+s.Len]
}

func (e *Engine) setSliceElem(st *State, s *Slice, i int, v Value) {
	st.heap[s.Obj] = setPath(st.heap[s.Obj], appendPath(s.Path, s.Off+i), v)
}

func (e *Engine) convertInstr(st *State, v Value, from, to types.Type) Value {
	// string <-> []byte
	if sl, ok := to.Underlying().(*types.Slice); ok {
		if s, ok := v.(string); ok {
			if b, ok := sl.Elem().Underlying().(*types.Basic); ok && b.Kind() == types.Uint8 {
				arr := &Array{E: make([]Value, len(s))}
				for i := 0; i < len(s); i++ {
					arr.E[i] = Const(8, uint64(s[i]))
				}
				return &Slice{Obj: st.alloc(arr), Len: len(s), Cap: len(s)}
			}
		}
		if s, ok := v.(*Slice); ok {
			return s
		}
	}
	if isString(to) {
		if s, ok := v.(*Slice); ok {
			bs := make([]byte, s.Len)
			for i, ev := range e.sliceElems(st, s) {
				t := ev.(*Term)
				if !t.IsConst() {
					panic(unsupported("symbolic []byte -> string"))
				}
				bs[i] = byte(t.C)
			}
			return string(bs)
		}
	}
	return convert(v, from, to)
}

func (e *Engine) resolveCall(st *State, f *Frame, c *ssa.CallCommon) (Value, []Value) {
	var args []Value
	if c.IsInvoke() {
		recv, _ := e.eval(st, f, c.Value).(*Iface)
		for _, a := range c.Args {
			args = append(args, e.eval(st, f, a))
		}
		// logger interception before nil check
		if isLoggerIface(c.Value.Type()) {
			return &loggerCall{name: c.Method.Name()}, args
		}
		if recv == nil {
			panic(goPanic{"runtime error: nil pointer dereference (invoke on nil interface " + c.Method.Name() + ")"})
		}
		if eo, ok := recv.V.(*ErrObj); ok && c.Method.Name() == "Error" {
			return &constCall{v: eo.Msg}, args
		}
		ms := e.prog.MethodSets.MethodSet(recv.T)
		sel := ms.Lookup(c.Method.Pkg(), c.Method.Name())
		if sel == nil {
			panic(fmt.Sprintf("method %s not found on %s", c.Method.Name(), recv.T))
		}
		fn := e.prog.MethodValue(sel)
		return &Func{Fn: fn}, append([]Value{recv.V}, args...)
	}
	fv := e.eval(st, f, c.Value)
	for _, a := range c.Args {
		args = append(args, e.eval(st, f, a))
	}
	return fv, args
}

var traceSub = os.Getenv("VERIF_TRACE")
var uninitAudit = os.Getenv("VERIF_UNINIT") != ""
var initedPkgs = map[string]bool{}
var initedMu sync.Mutex

func pkgInited(p string) bool {
	initedMu.Lock()
	defer initedMu.Unlock()
	return initedPkgs[p]
}

var uninitReads sync.Map
var forkProf map[string]int
var forkProfMu sync.Mutex

func init() {
	if os.Getenv("VERIF_FORKPROF") != "" {
		forkProf = map[string]int{}
	}
}

func dumpForkProf() {
	if uninitAudit {
		uninitReads.Range(func(k, v any) bool {
			fmt.Fprintln(os.Stderr, "UNINIT-GLOBAL", k)
			return true
		})
	}
	if forkProf == nil {
		return
	}
	type kv struct {
		k string
		n int
	}
	var l []kv
	for k, n := range forkProf {
		l = append(l, kv{k, n})
	}
	sort.Slice(l, func(i, j int) bool { return l[i].n > l[j].n })
	for i, x := range l {
		if i >= 25 {
			break
		}
		fmt.Fprintf(os.Stderr, "FORKS %7d %s\n", x.n, x.k)
	}
}

type loggerCall struct{ name string }
type constCall struct{ v Value }

func isLoggerIface(t types.Type) bool {
	n, ok := t.(*types.Named)
	return ok && n.Obj().Name() == "ILogger" && n.Obj().Pkg() != nil && strings.HasSuffix(n.Obj().Pkg().Path(), "/logger")
}

func (e *Engine) execCall(st *State, f *Frame, c *ssa.CallCommon, instr ssa.Value) {
	fv, args := e.resolveCall(st, f, c)
	switch fn := fv.(type) {
	case *loggerCall:
		if fn.name == "Panicf" {
			msg := "Panicf"
			if s, ok := args[0].(string); ok {
				msg = "Panicf: " + s
			}
			e.startPanic(st, msg)
			return
		}
		f.env[instr] = nil
		f.ip++
	case *constCall:
		f.env[instr] = fn.v
		f.ip++
	case *ssa.Builtin:
		f.env[instr] = e.builtin(st, fn, args, c)
		if st.outcome == "" && !st.panicking {
			f.ip++
		}
	default:
		e.invoke(st, fv, args, instr, false)
	}
}

func (e *Engine) builtin(st *State, b *ssa.Builtin, args []Value, c *ssa.CallCommon) Value {
	switch b.Name() {
	case "len":
		switch x := args[0].(type) {
		case *Slice:
			return Const(64, uint64(x.Len))
		case string:
			return Const(64, uint64(len(x)))
		case *MapRef:
			if x.Obj == 0 {
				return Const(64, 0)
			}
			return Const(64, uint64(len(st.heap[x.Obj].(*MapVal).K)))
		case *ChanRef:
			if x.Obj == 0 {
				return Const(64, 0)
			}
			return Const(64, uint64(len(st.heap[x.Obj].(*ChanVal).Buf)))
		case *Array:
			return Const(64, uint64(len(x.E)))
		case *Ptr:
			return Const(64, uint64(len(st.load(x).(*Array).E)))
		}
	case "cap":
		switch x := args[0].(type) {
		case *Slice:
			return Const(64, uint64(x.Cap))
		case *ChanRef:
			if x.Obj == 0 {
				return Const(64, 0)
			}
			return Const(64, uint64(st.heap[x.Obj].(*ChanVal).Cap))
		}
	case "append":
		s := args[0].(*Slice)
		var add []Value
		switch y := args[1].(type) {
		case *Slice:
			add = append(add, e.sliceElems(st, y)...)
		case string:
			for i := 0; i < len(y); i++ {
				add = append(add, Const(8, uint64(y[i])))
			}
		}
		if len(add) == 0 {
			return s
		}
		if s.Len+len(add) <= s.Cap {
			for i, v := range add {
				st.heap[s.Obj] = setPath(st.heap[s.Obj], appendPath(s.Path, s.Off+s.Len+i), v)
			}
			return &Slice{Obj: s.Obj, Path: s.Path, Off: s.Off, Len: s.Len + len(add), Cap: s.Cap}
		}
		n := s.Len + len(add)
		nc := n
		if s.Cap*2 > nc {
			nc = s.Cap * 2
		}
		arr := &Array{E: make([]Value, nc)}
		copy(arr.E, e.sliceElems(st, s))
		copy(arr.E[s.Len:], add)
		var z Value
		if len(add) > 0 {
			z = zeroLike(add[0])
		}
		for i := n; i < nc; i++ {
			arr.E[i] = z
		}
		return &Slice{Obj: st.alloc(arr), Len: n, Cap: nc}
	case "copy":
		d := args[0].(*Slice)
		var src []Value
		switch y := args[1].(type) {
		case *Slice:
			src = append(src, e.sliceElems(st, y)...)
		case string:
			for i := 0; i < len(y); i++ {
				src = append(src, Const(8, uint64(y[i])))
			}
		}
		n := d.Len
		if len(src) < n {
			n = len(src)
		}
		for i := 0; i < n; i++ {
			e.setSliceElem(st, d, i, src[i])
		}
		return Const(64, uint64(n))
	case "delete":
		m := args[0].(*MapRef)
		if m.Obj == 0 {
			return nil
		}
		mv := st.heap[m.Obj].(*MapVal)
		i := e.mapFind(st, mv, args[1])
		if i >= 0 {
			nm := &MapVal{}
			for j := range mv.K {
				if j != i {
					nm.K = append(nm.K, mv.K[j])
					nm.V = append(nm.V, mv.V[j])
				}
			}
			st.heap[m.Obj] = nm
		}
		return nil
	case "recover":
		// only effective when called from a deferred function during panic
		if st.panicking && len(st.frames) >= 2 && e.top(st).fromDefer {
			v := st.panicVal
			st.panicking = false
			st.panicVal = nil
			if iv, ok := v.(*Iface); ok {
				return iv
			}
			if s, ok := v.(string); ok {
				return &Iface{T: types.Typ[types.String], V: s}
			}
			return &Iface{T: types.Typ[types.String], V: describe(v)}
		}
		return (*Iface)(nil)
	case "close":
		ch := args[0].(*ChanRef)
		cv := st.heap[ch.Obj].(*ChanVal)
		st.heap[ch.Obj] = &ChanVal{Buf: cv.Buf, Cap: cv.Cap, Closed: true}
		return nil
	case "min", "max":
		a, bb := args[0].(*Term), args[1].(*Term)
		signed := isSigned(c.Args[0].Type())
		op := "bvult"
		if signed {
			op = "bvslt"
		}
		if b.Name() == "max" {
			return Ite(Cmp(op, a, bb), bb, a)
		}
		return Ite(Cmp(op, a, bb), a, bb)
	case "print", "println":
		return nil
	case "SliceData":
		sl := args[0].(*Slice)
		if sl == nil || sl.Nil || sl.Cap == 0 {
			return (*Ptr)(nil)
		}
		return &Ptr{Obj: sl.Obj, Path: appendPath(sl.Path, sl.Off)}
	case "Slice":
		p, _ := args[0].(*Ptr)
		n, ok := concreteInt(args[1])
		if !ok {
			panic(unsupported("unsafe.Slice with symbolic length"))
		}
		if p == nil {
			return &Slice{Nil: true}
		}
		last := p.Path[len(p.Path)-1]
		return &Slice{Obj: p.Obj, Path: append([]int(nil), p.Path[:len(p.Path)-1]...), Off: last, Len: n, Cap: n}
	case "String":
		p, _ := args[0].(*Ptr)
		n, ok := concreteInt(args[1])
		if !ok {
			panic(unsupported("unsafe.String with symbolic length"))
		}
		if n == 0 || p == nil {
			return ""
		}
		last := p.Path[len(p.Path)-1]
		arr := getPath(st.heap[p.Obj], p.Path[:len(p.Path)-1]).(*Array)
		bs := make([]byte, n)
		for i := 0; i < n; i++ {
			t := arr.E[last+i].(*Term)
			if !t.IsConst() {
				panic(unsupported("unsafe.String over symbolic bytes"))
			}
			bs[i] = byte(t.C)
		}
		return string(bs)
	case "StringData":
		str := args[0].(string)
		if len(str) == 0 {
			return (*Ptr)(nil)
		}
		arr := &Array{E: make([]Value, len(str))}
		for i := 0; i < len(str); i++ {
			arr.E[i] = Const(8, uint64(str[i]))
		}
		return &Ptr{Obj: st.alloc(arr), Path: []int{0}}
	case "ssa:wrapnilchk":
		return args[0]
	}
	panic(unsupported("builtin " + b.Name() + fmt.Sprintf(" %T", args[0])))
}

func zeroLike(v Value) Value {
	switch x := v.(type) {
	case *Term:
		if x.W == 0 {
			return Bool(false)
		}
		return Const(x.W, 0)
	case string:
		return ""
	case *Struct:
		n := &Struct{F: make([]Value, len(x.F))}
		for i := range x.F {
			n.F[i] = zeroLike(x.F[i])
		}
		return n
	case *Array:
		n := &Array{E: make([]Value, len(x.E))}
		for i := range x.E {
			n.E[i] = zeroLike(x.E[i])
		}
		return n
	case *Ptr:
		return (*Ptr)(nil)
	case *Slice:
		return &Slice{Nil: true}
	case *MapRef:
		return &MapRef{}
	case *Iface:
		return (*Iface)(nil)
	case *Func:
		return (*Func)(nil)
	case float64:
		return float64(0)
	case *ChanRef:
		return &ChanRef{}
	}
	return nil
}

func (e *Engine) chanRecv(st *State, ch *ChanRef, commaOk bool, t types.Type) Value {
	cv := st.heap[ch.Obj].(*ChanVal)
	if len(cv.Buf) == 0 {
		if cv.Closed {
			if commaOk {
				tt := t.(*types.Tuple)
				return &Tuple{V: []Value{zero(tt.At(0).Type()), Bool(false)}}
			}
			return zero(t)
		}
		st.outcome = "DEADLOCK: recv on empty channel"
		return nil
	}
	v := cv.Buf[0]
	st.heap[ch.Obj] = &ChanVal{Buf: append([]Value(nil), cv.Buf[1:]...), Cap: cv.Cap, Closed: cv.Closed}
	if commaOk {
		return &Tuple{V: []Value{v, Bool(true)}}
	}
	return v
}

func (e *Engine) execSelect(st *State, f *Frame, x *ssa.Select) {
	// first ready case in order; else default (index -1) if non-blocking
	tt := x.Type().(*types.Tuple)
	res := make([]Value, tt.Len())
	for i := 2; i < tt.Len(); i++ {
		res[i] = zero(tt.At(i).Type())
	}
	ri := 2
	for i, s := range x.States {
		ch := e.eval(st, f, s.Chan).(*ChanRef)
		if s.Dir == types.SendOnly {
			if ch.Obj != 0 {
				cv := st.heap[ch.Obj].(*ChanVal)
				if len(cv.Buf) < cv.Cap && !cv.Closed {
					st.heap[ch.Obj] = &ChanVal{Buf: append(append([]Value(nil), cv.Buf...), e.eval(st, f, s.Send)), Cap: cv.Cap}
					res[0], res[1] = Const(64, uint64(i)), Bool(false)
					f.env[x] = &Tuple{V: res}
					return
				}
			}
		} else {
			if ch.Obj != 0 {
				cv := st.heap[ch.Obj].(*ChanVal)
				if len(cv.Buf) > 0 || cv.Closed {
					if len(cv.Buf) > 0 {
						res[ri] = cv.Buf[0]
						st.heap[ch.Obj] = &ChanVal{Buf: append([]Value(nil), cv.Buf[1:]...), Cap: cv.Cap, Closed: cv.Closed}
						res[1] = Bool(true)
					} else {
						res[1] = Bool(false)
					}
					res[0] = Const(64, uint64(i))
					f.env[x] = &Tuple{V: res}
					return
				}
			}
			ri++
		}
	}
	if !x.Blocking {
		res[0], res[1] = Const(64, ^uint64(0)), Bool(false)
		f.env[x] = &Tuple{V: res}
		return
	}
	st.outcome = "DEADLOCK: blocking select"
	if os.Getenv("STACK") != "" {
		for _, fr := range st.frames {
			fmt.Fprintln(os.Stderr, "   sel at", fr.fn)
		}
	}
}

// ---- thread mode ----

func (e *Engine) enabledOthers(st *State) []int {
	var r []int
	for t := 1; t < len(st.stacks); t++ {
		if t != st.cur && !st.tdone[t] && st.tblock[t] == "" {
			r = append(r, t)
		}
	}
	return r
}

func (e *Engine) switchTo(st *State, t int) {
	st.stacks[st.cur] = st.frames
	st.frames = st.stacks[t]
	st.stacks[t] = nil
	st.cur = t
	// a thread suspended in front of a synchronisation operation executes it
	// when resumed; one suspended after a release has nothing pending
	st.noYield = true
	if t < len(st.postSusp) && st.postSusp[t] {
		st.noYield = false
		st.postSusp[t] = false
	}
	st.switched = true
}

// yieldAfter offers a context switch right after the current thread released a
// lock (code after an Unlock is not protected any more; a data race there must
// be observable by the other threads).
func (e *Engine) yieldAfter(st *State) {
	if !st.threadMode || len(st.frames) == 0 {
		return
	}
	en := e.enabledOthers(st)
	if len(en) == 0 || st.switches >= e.maxSwitch {
		return
	}
	v := e.newVar(st, "sched", 64)
	k, ok := e.chooseFresh(st, v, len(en)+1)
	if !ok {
		st.outcome = "assume-false"
		return
	}
	if k == 0 {
		return
	}
	st.switches++
	for len(st.postSusp) < len(st.stacks) {
		st.postSusp = append(st.postSusp, false)
	}
	st.postSusp[st.cur] = true
	e.switchTo(st, en[k-1])
}

// yield is called before a synchronisation operation. It returns true when the
// current thread goes on to execute the operation now.
func (e *Engine) yield(st *State) bool {
	if !st.threadMode {
		return true
	}
	if st.noYield {
		st.noYield = false
		return true
	}
	en := e.enabledOthers(st)
	if len(en) == 0 || st.switches >= e.maxSwitch {
		return true
	}
	v := e.newVar(st, "sched", 64)
	k, ok := e.chooseFresh(st, v, len(en)+1)
	if !ok {
		st.outcome = "assume-false"
		return false
	}
	if k == 0 {
		return true
	}
	st.switches++
	e.switchTo(st, en[k-1])
	return false
}

// pickNext chooses (forking) the thread to run after the current one blocks or ends.
// Returns -1 when no other thread is enabled.
func (e *Engine) pickNext(st *State) (int, bool) {
	en := e.enabledOthers(st)
	if len(en) == 0 {
		return -1, true
	}
	v := e.newVar(st, "sched", 64)
	k, ok := e.chooseFresh(st, v, len(en))
	if !ok {
		st.outcome = "assume-false"
		return 0, false
	}
	return en[k], true
}

func (e *Engine) applyNext(st *State, next int) {
	if next >= 0 {
		e.switchTo(st, next)
		return
	}
	alldone := true
	for t := 1; t < len(st.stacks); t++ {
		if !st.tdone[t] {
			alldone = false
		}
	}
	if alldone {
		st.stacks[st.cur] = st.frames
		st.frames = st.stacks[0]
		st.stacks[0] = nil
		st.cur = 0
		st.threadMode = false
		e.top(st).ip++ // past vRunThreads
		return
	}
	st.outcome = "DEADLOCK: all threads blocked"
	if os.Getenv("STACK") != "" {
		fmt.Fprintf(os.Stderr, "DEADLOCK cur=%d tdone=%v tblock=%v lockv=%v\n", st.cur, st.tdone, st.tblock, st.lockv)
		for ti, stk := range st.stacks {
			if ti == st.cur {
				stk = st.frames
			}
			for _, fr := range stk {
				fmt.Fprintln(os.Stderr, "   t", ti, "at", fr.fn, fr.block.Index, fr.ip)
			}
		}
	}
}

func (e *Engine) scheduleAfterBlockOrEnd(st *State) {
	next, ok := e.pickNext(st)
	if !ok {
		return
	}
	e.applyNext(st, next)
}

func lockKey(p *Ptr) string { return fmt.Sprintf("%d%v", p.Obj, p.Path) }

// mutexOp models sync.Mutex / sync.RWMutex. locks: 0 free, -1 writer, n>0 readers (keyed by object id hash)
func (e *Engine) mutexOp(st *State, op string, p *Ptr, ci ssa.Value, fd bool) {
	if !e.yield(st) {
		return
	}
	key := lockKey(p)
	cur := st.lockv[key]
	block := func() {
		if !st.threadMode {
			st.outcome = "DEADLOCK: lock held (single thread)"
			return
		}
		next, ok := e.pickNext(st)
		if !ok {
			return
		}
		st.tblock[st.cur] = key
		e.applyNext(st, next)
	}
	switch op {
	case "Lock":
		if cur != 0 {
			block()
			return
		}
		st.lockv[key] = -1
	case "RLock":
		if cur < 0 {
			block()
			return
		}
		st.lockv[key] = cur + 1
	case "Unlock":
		if cur != -1 {
			e.startPanic(st, "sync: unlock of unlocked mutex")
			return
		}
		st.lockv[key] = 0
	case "RUnlock":
		if cur <= 0 {
			e.startPanic(st, "sync: RUnlock of unlocked RWMutex")
			return
		}
		st.lockv[key] = cur - 1
	}
	if op == "Unlock" || op == "RUnlock" {
		for t := range st.tblock {
			if st.tblock[t] == key {
				st.tblock[t] = ""
			}
		}
		if st.threadMode {
			st.postYield = true
		}
	}
	e.finish(st, ci, nil, fd)
}
