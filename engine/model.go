package main

// Model-guided feasibility: every state carries a model of its path condition
// (when one is known).  Evaluating a branch condition under that model tells
// which side is certainly feasible, so only the other side is put to the
// solver.  A stale model can at worst keep an infeasible path alive (its
// assertions are then vacuously unsat); it can never hide a feasible one.

type Model map[*Term]uint64

// evalTerm evaluates t under m. ok=false when t contains an uninterpreted
// function application or an operator the evaluator does not know.
func evalTerm(t *Term, m Model, memo map[*Term]uint64) (uint64, bool) {
	switch t.Op {
	case "const":
		return t.C, true
	case "var":
		return m[t] & mask(t.W), true // variables the solver never saw are unconstrained: 0
	}
	if v, ok := memo[t]; ok {
		return v, true
	}
	var r uint64
	switch t.Op {
	case "not":
		a, ok := evalTerm(t.Args[0], m, memo)
		if !ok {
			return 0, false
		}
		r = a ^ 1
	case "and", "or":
		a, ok1 := evalTerm(t.Args[0], m, memo)
		b, ok2 := evalTerm(t.Args[1], m, memo)
		if !ok1 || !ok2 {
			return 0, false
		}
		if t.Op == "and" {
			r = a & b
		} else {
			r = a | b
		}
	case "=":
		a, ok1 := evalTerm(t.Args[0], m, memo)
		b, ok2 := evalTerm(t.Args[1], m, memo)
		if !ok1 || !ok2 {
			return 0, false
		}
		if a == b {
			r = 1
		}
	case "bvult", "bvule", "bvugt", "bvuge", "bvslt", "bvsle", "bvsgt", "bvsge":
		a, ok1 := evalTerm(t.Args[0], m, memo)
		b, ok2 := evalTerm(t.Args[1], m, memo)
		if !ok1 || !ok2 {
			return 0, false
		}
		if foldCmp(t.Op, t.Args[0].W, a, b) {
			r = 1
		}
	case "ite":
		c, ok := evalTerm(t.Args[0], m, memo)
		if !ok {
			return 0, false
		}
		k := 2
		if c == 1 {
			k = 1
		}
		v, ok := evalTerm(t.Args[k], m, memo)
		if !ok {
			return 0, false
		}
		r = v
	case "extract":
		a, ok := evalTerm(t.Args[0], m, memo)
		if !ok {
			return 0, false
		}
		r = (a >> uint(t.P2)) & mask(t.W)
	case "zext":
		a, ok := evalTerm(t.Args[0], m, memo)
		if !ok {
			return 0, false
		}
		r = a
	case "sext":
		a, ok := evalTerm(t.Args[0], m, memo)
		if !ok {
			return 0, false
		}
		r = uint64(sext64(a, t.Args[0].W)) & mask(t.W)
	case "bvnot":
		a, ok := evalTerm(t.Args[0], m, memo)
		if !ok {
			return 0, false
		}
		r = ^a & mask(t.W)
	case "bvneg":
		a, ok := evalTerm(t.Args[0], m, memo)
		if !ok {
			return 0, false
		}
		r = -a & mask(t.W)
	case "bvadd", "bvsub", "bvmul", "bvand", "bvor", "bvxor", "bvshl", "bvlshr", "bvashr", "bvudiv", "bvurem", "bvsdiv", "bvsrem":
		a, ok1 := evalTerm(t.Args[0], m, memo)
		b, ok2 := evalTerm(t.Args[1], m, memo)
		if !ok1 || !ok2 {
			return 0, false
		}
		r = foldBin(t.Op, t.W, a, b)
	default:
		return 0, false
	}
	memo[t] = r
	return r, true
}

// fetchModel reads the values of all variables of the state after a sat answer.
func (e *Engine) fetchModel(st *State) Model {
	var vs []*Term
	for _, v := range st.vars {
		if v.Op == "var" {
			vs = append(vs, v)
		}
	}
	vals := e.solver.Values(vs)
	m := make(Model, len(vs))
	for i, v := range vs {
		m[v] = vals[i]
	}
	return m
}

// holds reports whether the state's model is known to satisfy c.
func (st *State) holds(c *Term) (bool, bool) {
	if st.model == nil {
		return false, false
	}
	v, ok := evalTerm(c, st.model, map[*Term]uint64{})
	return v == 1, ok
}
