package main

// Constraint independence (as in KLEE): a feasibility query "pc ∧ c" only needs
// the conjuncts of pc that share variables, transitively, with c, because pc as
// a whole is known to be satisfiable (every conjunct was checked when it was
// added).  Slicing keeps the solver's work proportional to what the branch
// actually depends on.  Queries that need a model of every variable
// (counterexamples) are re-issued against the full path condition.

type varset []uint64

func (a varset) intersects(b varset) bool {
	n := len(a)
	if len(b) < n {
		n = len(b)
	}
	for i := 0; i < n; i++ {
		if a[i]&b[i] != 0 {
			return true
		}
	}
	return false
}

func (a varset) union(b varset) varset {
	if len(b) > len(a) {
		a, b = b, a
	}
	r := append(varset(nil), a...)
	for i := range b {
		r[i] |= b[i]
	}
	return r
}

func (e *Engine) varsOf(t *Term) varset {
	if t.Op == "const" {
		return nil
	}
	if v, ok := e.varMemo[t]; ok {
		return v
	}
	var r varset
	if t.Op == "var" {
		idx, ok := e.varIdx[t]
		if !ok {
			idx = len(e.varIdx)
			e.varIdx[t] = idx
		}
		r = make(varset, idx/64+1)
		r[idx/64] |= 1 << uint(idx%64)
	} else {
		for _, a := range t.Args {
			r = r.union(e.varsOf(a))
		}
		if t.Op == "uf" {
			// applications of one uninterpreted function are related by congruence:
			// tie them together through a pseudo variable per function symbol
			key := UF("$sym$"+t.Name, 1)
			idx, ok := e.varIdx[key]
			if !ok {
				idx = len(e.varIdx)
				e.varIdx[key] = idx
			}
			s := make(varset, idx/64+1)
			s[idx/64] |= 1 << uint(idx%64)
			r = r.union(s)
		}
	}
	e.varMemo[t] = r
	return r
}

// slice returns the conjuncts of pc relevant to cond, in pc order.
func (e *Engine) slice(pc []*Term, cond *Term) []*Term {
	need := e.varsOf(cond)
	if len(need) == 0 {
		return nil
	}
	vs := make([]varset, len(pc))
	for i, c := range pc {
		vs[i] = e.varsOf(c)
	}
	rel := make([]bool, len(pc))
	for changed := true; changed; {
		changed = false
		for i := range pc {
			if !rel[i] && vs[i].intersects(need) {
				rel[i] = true
				need = need.union(vs[i])
				changed = true
			}
		}
	}
	out := make([]*Term, 0, len(pc))
	for i, c := range pc {
		if rel[i] {
			out = append(out, c)
		}
	}
	return out
}

// feasible answers "is pc ∧ cond satisfiable" using only the relevant slice.
func (e *Engine) feasible(st *State, cond *Term) string {
	if e.noSlice {
		return e.solver.Check(st.pc, cond)
	}
	return e.solver.Check(e.slice(st.pc, cond), cond)
}
