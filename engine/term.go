package main

import (
	"fmt"
	"hash/fnv"
	"strings"
	"sync"
	"sync/atomic"
)

// Term is a hash-consed SMT term. W==0 means Bool.
type Term struct {
	Op     string
	W      int
	Args   []*Term
	C      uint64
	Name   string
	P1, P2 int
	id     int
}

// The term table is shared by all workers (hash-consing makes syntactic
// equality pointer equality); it is sharded to keep lock contention low.
const termShards = 256

type termShard struct {
	mu sync.Mutex
	m  map[string]*Term
}

var termTab [termShards]termShard
var termSeq int64

func init() {
	for i := range termTab {
		termTab[i].m = map[string]*Term{}
	}
}

func resetTerms() {
	for i := range termTab {
		termTab[i].mu.Lock()
		termTab[i].m = map[string]*Term{}
		termTab[i].mu.Unlock()
	}
}

func mask(w int) uint64 {
	if w >= 64 {
		return ^uint64(0)
	}
	return (uint64(1) << uint(w)) - 1
}

func mk(op string, w int, c uint64, name string, p1, p2 int, args ...*Term) *Term {
	var sb strings.Builder
	fmt.Fprintf(&sb, "%s|%d|%d|%s|%d|%d", op, w, c, name, p1, p2)
	for _, a := range args {
		fmt.Fprintf(&sb, "|%d", a.id)
	}
	k := sb.String()
	h := fnv.New32a()
	h.Write([]byte(k))
	sh := &termTab[h.Sum32()%termShards]
	sh.mu.Lock()
	defer sh.mu.Unlock()
	if t, ok := sh.m[k]; ok {
		return t
	}
	t := &Term{Op: op, W: w, Args: args, C: c, Name: name, P1: p1, P2: p2, id: int(atomic.AddInt64(&termSeq, 1))}
	sh.m[k] = t
	return t
}

func (t *Term) IsConst() bool { return t.Op == "const" }
func (t *Term) IsTrue() bool  { return t.Op == "const" && t.W == 0 && t.C == 1 }
func (t *Term) IsFalse() bool { return t.Op == "const" && t.W == 0 && t.C == 0 }

func Const(w int, v uint64) *Term { return mk("const", w, v&mask(w), "", 0, 0) }
func Bool(b bool) *Term {
	if b {
		return mk("const", 0, 1, "", 0, 0)
	}
	return mk("const", 0, 0, "", 0, 0)
}
func Var(name string, w int) *Term { return mk("var", w, 0, name, 0, 0) }

func sext64(v uint64, w int) int64 {
	if w >= 64 {
		return int64(v)
	}
	if v&(1<<uint(w-1)) != 0 {
		return int64(v | ^mask(w))
	}
	return int64(v)
}

// Bin builds a bitvector binary op with folding.
func Bin(op string, a, b *Term) *Term {
	w := a.W
	if a.W != b.W {
		panic(fmt.Sprintf("width mismatch %s %d %d", op, a.W, b.W))
	}
	if a.IsConst() && b.IsConst() {
		return Const(w, foldBin(op, w, a.C, b.C))
	}
	// x - c  ==>  x + (-c);  (x + c1) + c2  ==>  x + (c1+c2)   (modular arithmetic: always valid)
	if op == "bvsub" && b.IsConst() && !a.IsConst() {
		return Bin("bvadd", a, Const(w, -b.C))
	}
	if op == "bvsub" && !a.IsConst() && !b.IsConst() {
		// (x + c1) - (y + c2)  ==>  (x - y) + (c1 - c2);  x - x ==> 0
		ra, ca := a, uint64(0)
		if a.Op == "bvadd" && a.Args[1].IsConst() {
			ra, ca = a.Args[0], a.Args[1].C
		}
		rb, cb := b, uint64(0)
		if b.Op == "bvadd" && b.Args[1].IsConst() {
			rb, cb = b.Args[0], b.Args[1].C
		}
		if ra == rb {
			return Const(w, ca-cb)
		}
		if ra != a || rb != b {
			return Bin("bvadd", Bin("bvsub", ra, rb), Const(w, ca-cb))
		}
	}
	if op == "bvadd" {
		if a.IsConst() && !b.IsConst() {
			a, b = b, a
		}
		if b.IsConst() && a.Op == "bvadd" && a.Args[1].IsConst() {
			return Bin("bvadd", a.Args[0], Const(w, a.Args[1].C+b.C))
		}
	}
	// identities
	switch op {
	case "bvadd", "bvor", "bvxor":
		if a.IsConst() && a.C == 0 {
			return b
		}
		if b.IsConst() && b.C == 0 {
			return a
		}
	case "bvsub", "bvshl", "bvlshr", "bvashr":
		if b.IsConst() && b.C == 0 {
			return a
		}
	case "bvand":
		if a.IsConst() && a.C == 0 {
			return a
		}
		if b.IsConst() && b.C == 0 {
			return b
		}
		if a.IsConst() && a.C == mask(w) {
			return b
		}
		if b.IsConst() && b.C == mask(w) {
			return a
		}
	case "bvmul":
		if a.IsConst() && a.C == 1 {
			return b
		}
		if b.IsConst() && b.C == 1 {
			return a
		}
	}
	if (op == "bvsub" || op == "bvxor") && a == b {
		return Const(w, 0)
	}
	// shifts by const >= w
	if (op == "bvshl" || op == "bvlshr") && b.IsConst() && b.C >= uint64(w) {
		return Const(w, 0)
	}
	return mk(op, w, 0, "", 0, 0, a, b)
}

// Cmp builds a comparison (result Bool).
func Cmp(op string, a, b *Term) *Term {
	if a.W != b.W {
		panic(fmt.Sprintf("cmp width mismatch %s %d %d", op, a.W, b.W))
	}
	if a.IsConst() && b.IsConst() {
		return Bool(foldCmp(op, a.W, a.C, b.C))
	}
	if a == b {
		switch op {
		case "=", "bvule", "bvuge", "bvsle", "bvsge":
			return Bool(true)
		default:
			return Bool(false)
		}
	}
	if op == "=" && a.W > 0 {
		// k = (A - B) + c  ==>  A = B + (k - c)   (modular arithmetic: always valid)
		k, d := a, b
		if b.IsConst() {
			k, d = b, a
		}
		if k.IsConst() {
			c := uint64(0)
			if d.Op == "bvadd" && d.Args[1].IsConst() {
				c, d = d.Args[1].C, d.Args[0]
			}
			if d.Op == "bvsub" {
				return Cmp("=", d.Args[0], Bin("bvadd", d.Args[1], Const(a.W, k.C-c)))
			}
			if c != 0 {
				return Cmp("=", d, Const(a.W, k.C-c))
			}
		}
	}
	if op == "=" && a.id > b.id {
		a, b = b, a
	}
	// unsigned compare with 0
	if op == "bvult" && b.IsConst() && b.C == 0 {
		return Bool(false)
	}
	if op == "bvuge" && b.IsConst() && b.C == 0 {
		return Bool(true)
	}
	return mk(op, 0, 0, "", 0, 0, a, b)
}

func Eq(a, b *Term) *Term {
	if a.W == 0 && b.W == 0 {
		if a.IsConst() {
			if a.C == 1 {
				return b
			}
			return Not(b)
		}
		if b.IsConst() {
			if b.C == 1 {
				return a
			}
			return Not(a)
		}
		if a == b {
			return Bool(true)
		}
		if a.id > b.id {
			a, b = b, a
		}
		return mk("=", 0, 0, "", 0, 0, a, b)
	}
	return Cmp("=", a, b)
}

func Not(a *Term) *Term {
	if a.IsConst() {
		return Bool(a.C == 0)
	}
	if a.Op == "not" {
		return a.Args[0]
	}
	return mk("not", 0, 0, "", 0, 0, a)
}

func And(a, b *Term) *Term {
	if a.IsFalse() || b.IsFalse() {
		return Bool(false)
	}
	if a.IsTrue() {
		return b
	}
	if b.IsTrue() {
		return a
	}
	if a == b {
		return a
	}
	return mk("and", 0, 0, "", 0, 0, a, b)
}

func Or(a, b *Term) *Term {
	if a.IsTrue() || b.IsTrue() {
		return Bool(true)
	}
	if a.IsFalse() {
		return b
	}
	if b.IsFalse() {
		return a
	}
	if a == b {
		return a
	}
	return mk("or", 0, 0, "", 0, 0, a, b)
}

func Ite(c, a, b *Term) *Term {
	if c.IsTrue() {
		return a
	}
	if c.IsFalse() {
		return b
	}
	if a == b {
		return a
	}
	if a.W == 0 {
		if a.IsTrue() && b.IsFalse() {
			return c
		}
		if a.IsFalse() && b.IsTrue() {
			return Not(c)
		}
	}
	return mk("ite", a.W, 0, "", 0, 0, c, a, b)
}

func Extract(hi, lo int, a *Term) *Term {
	w := hi - lo + 1
	if lo == 0 && w == a.W {
		return a
	}
	if a.IsConst() {
		return Const(w, a.C>>uint(lo))
	}
	if a.Op == "zext" || a.Op == "sext" {
		in := a.Args[0]
		if hi < in.W {
			return Extract(hi, lo, in)
		}
		if a.Op == "zext" && lo >= in.W {
			return Const(w, 0)
		}
	}
	return mk("extract", w, 0, "", hi, lo, a)
}

func ZExt(a *Term, w int) *Term {
	if w == a.W {
		return a
	}
	if w < a.W {
		return Extract(w-1, 0, a)
	}
	if a.IsConst() {
		return Const(w, a.C)
	}
	return mk("zext", w, 0, "", w-a.W, 0, a)
}

func SExt(a *Term, w int) *Term {
	if w == a.W {
		return a
	}
	if w < a.W {
		return Extract(w-1, 0, a)
	}
	if a.IsConst() {
		return Const(w, uint64(sext64(a.C, a.W)))
	}
	return mk("sext", w, 0, "", w-a.W, 0, a)
}

func BvNot(a *Term) *Term {
	if a.IsConst() {
		return Const(a.W, ^a.C)
	}
	return mk("bvnot", a.W, 0, "", 0, 0, a)
}
func BvNeg(a *Term) *Term {
	if a.IsConst() {
		return Const(a.W, -a.C)
	}
	return mk("bvneg", a.W, 0, "", 0, 0, a)
}

// UF application
func UF(name string, w int, args ...*Term) *Term {
	return mk("uf", w, 0, name, 0, 0, args...)
}

func sortOf(w int) string {
	if w == 0 {
		return "Bool"
	}
	return fmt.Sprintf("(_ BitVec %d)", w)
}

func (t *Term) ref() string {
	if t.Op == "const" {
		if t.W == 0 {
			if t.C == 1 {
				return "true"
			}
			return "false"
		}
		return fmt.Sprintf("(_ bv%d %d)", t.C, t.W)
	}
	if t.Op == "var" {
		return t.Name
	}
	return fmt.Sprintf("t%d", t.id)
}

// body renders the defining expression (children by reference)
func (t *Term) body() string {
	var as []string
	for _, a := range t.Args {
		as = append(as, a.ref())
	}
	switch t.Op {
	case "extract":
		return fmt.Sprintf("((_ extract %d %d) %s)", t.P1, t.P2, as[0])
	case "zext":
		return fmt.Sprintf("((_ zero_extend %d) %s)", t.P1, as[0])
	case "sext":
		return fmt.Sprintf("((_ sign_extend %d) %s)", t.P1, as[0])
	case "uf":
		if len(as) == 0 {
			return t.Name
		}
		return fmt.Sprintf("(%s %s)", t.Name, strings.Join(as, " "))
	default:
		return fmt.Sprintf("(%s %s)", t.Op, strings.Join(as, " "))
	}
}

func (t *Term) String() string {
	if t.Op == "const" || t.Op == "var" {
		return t.ref()
	}
	var as []string
	for _, a := range t.Args {
		as = append(as, a.String())
	}
	if t.Op == "extract" {
		return fmt.Sprintf("(extract[%d:%d] %s)", t.P1, t.P2, as[0])
	}
	if t.Op == "uf" {
		return fmt.Sprintf("(%s %s)", t.Name, strings.Join(as, " "))
	}
	return fmt.Sprintf("(%s %s)", t.Op, strings.Join(as, " "))
}

// foldBin is the concrete semantics of a bit-vector binary operator (SMT-LIB
// semantics for division by zero), shared by constant folding and by the
// model evaluator.
func foldBin(op string, w int, x, y uint64) uint64 {
	var r uint64
	switch op {
	case "bvadd":
		r = x + y
	case "bvsub":
		r = x - y
	case "bvmul":
		r = x * y
	case "bvand":
		r = x & y
	case "bvor":
		r = x | y
	case "bvxor":
		r = x ^ y
	case "bvshl":
		if y >= uint64(w) {
			r = 0
		} else {
			r = x << y
		}
	case "bvlshr":
		if y >= uint64(w) {
			r = 0
		} else {
			r = x >> y
		}
	case "bvashr":
		s := sext64(x, w)
		if y >= uint64(w) {
			if s < 0 {
				r = ^uint64(0)
			} else {
				r = 0
			}
		} else {
			r = uint64(s >> y)
		}
	case "bvudiv":
		if y == 0 {
			r = mask(w)
		} else {
			r = x / y
		}
	case "bvurem":
		if y == 0 {
			r = x
		} else {
			r = x % y
		}
	case "bvsdiv":
		sx, sy := sext64(x, w), sext64(y, w)
		if sy == 0 {
			if sx < 0 {
				r = 1
			} else {
				r = mask(w)
			}
		} else if sy == -1 {
			r = uint64(-sx)
		} else {
			r = uint64(sx / sy)
		}
	case "bvsrem":
		sx, sy := sext64(x, w), sext64(y, w)
		if sy == 0 {
			r = x
		} else if sy == -1 {
			r = 0
		} else {
			r = uint64(sx % sy)
		}
	default:
		panic("binop " + op)
	}
	return r & mask(w)
}

func foldCmp(op string, w int, x, y uint64) bool {
	sx, sy := sext64(x, w), sext64(y, w)
	var r bool
	switch op {
	case "=":
		r = x == y
	case "bvult":
		r = x < y
	case "bvule":
		r = x <= y
	case "bvugt":
		r = x > y
	case "bvuge":
		r = x >= y
	case "bvslt":
		r = sx < sy
	case "bvsle":
		r = sx <= sy
	case "bvsgt":
		r = sx > sy
	case "bvsge":
		r = sx >= sy
	}
	return r
}
