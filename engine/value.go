package main

import (
	"fmt"
	"go/constant"
	"go/token"
	"go/types"
	"math"

	"golang.org/x/tools/go/ssa"
)

type Value interface{}

type Ptr struct {
	Obj  int
	Path []int
}
type Struct struct{ F []Value }
type Array struct{ E []Value }
type Slice struct {
	Obj           int
	Path          []int
	Off, Len, Cap int
	Nil           bool
}
type MapRef struct{ Obj int } // Obj==0 => nil map
type MapVal struct {
	K, V []Value
}
type Iface struct {
	T types.Type
	V Value
}
type Func struct {
	Fn   *ssa.Function
	Bind []Value
}
type ChanRef struct{ Obj int }
type ChanVal struct {
	Buf    []Value
	Cap    int
	Closed bool
}
type Tuple struct{ V []Value }

// Native wraps a Go object the engine keeps as is (compiled regular expressions).
type Native struct{ V interface{} }

// opaque native object (e.g. error created by errors.New)
type ErrObj struct {
	Msg  string
	Wrap Value
	ID   int
}

// iterator for Range
type Iter struct {
	Keys, Vals []Value
	Str        string
	IsStr      bool
	Pos        int
}

func width(t types.Type) int {
	switch u := t.Underlying().(type) {
	case *types.Basic:
		switch u.Kind() {
		case types.Bool, types.UntypedBool:
			return 0
		case types.Int8, types.Uint8:
			return 8
		case types.Int16, types.Uint16:
			return 16
		case types.Int32, types.Uint32, types.UntypedRune:
			return 32
		case types.Int64, types.Uint64, types.Int, types.Uint, types.Uintptr, types.UntypedInt, types.UnsafePointer:
			return 64
		}
	}
	return -1
}

func isInt(t types.Type) bool {
	b, ok := t.Underlying().(*types.Basic)
	return ok && b.Info()&types.IsInteger != 0
}
func isSigned(t types.Type) bool {
	b, ok := t.Underlying().(*types.Basic)
	return ok && b.Info()&types.IsInteger != 0 && b.Info()&types.IsUnsigned == 0
}
func isBool(t types.Type) bool {
	b, ok := t.Underlying().(*types.Basic)
	return ok && b.Info()&types.IsBoolean != 0
}
func isString(t types.Type) bool {
	b, ok := t.Underlying().(*types.Basic)
	return ok && b.Info()&types.IsString != 0
}
func isFloat(t types.Type) bool {
	b, ok := t.Underlying().(*types.Basic)
	return ok && b.Info()&types.IsFloat != 0
}

func zero(t types.Type) Value {
	switch u := t.Underlying().(type) {
	case *types.Basic:
		switch {
		case u.Info()&types.IsBoolean != 0:
			return Bool(false)
		case u.Info()&types.IsInteger != 0:
			return Const(width(t), 0)
		case u.Info()&types.IsString != 0:
			return ""
		case u.Info()&types.IsFloat != 0:
			return float64(0)
		case u.Kind() == types.UnsafePointer:
			return (*Ptr)(nil)
		case u.Kind() == types.UntypedNil:
			return nil
		}
	case *types.Pointer:
		return (*Ptr)(nil)
	case *types.Struct:
		s := &Struct{F: make([]Value, u.NumFields())}
		for i := range s.F {
			s.F[i] = zero(u.Field(i).Type())
		}
		return s
	case *types.Array:
		n := int(u.Len())
		a := &Array{E: make([]Value, n)}
		z := zero(u.Elem())
		for i := range a.E {
			a.E[i] = z // immutable values can be shared
		}
		return a
	case *types.Slice:
		return &Slice{Nil: true}
	case *types.Map:
		return &MapRef{}
	case *types.Interface:
		return (*Iface)(nil)
	case *types.Signature:
		return (*Func)(nil)
	case *types.Chan:
		return &ChanRef{}
	case *types.Tuple:
		tv := &Tuple{V: make([]Value, u.Len())}
		for i := range tv.V {
			tv.V[i] = zero(u.At(i).Type())
		}
		return tv
	}
	panic(fmt.Sprintf("zero: unsupported type %s", t))
}

func constValue(c *ssa.Const) Value {
	t := c.Type()
	if c.Value == nil {
		return zero(t)
	}
	switch u := t.Underlying().(type) {
	case *types.Basic:
		switch {
		case u.Info()&types.IsBoolean != 0:
			return Bool(constant.BoolVal(c.Value))
		case u.Info()&types.IsInteger != 0:
			w := width(t)
			if w < 0 {
				w = 64
			}
			v := constant.ToInt(c.Value)
			if i, ok := constant.Int64Val(v); ok {
				return Const(w, uint64(i))
			}
			if uu, ok := constant.Uint64Val(v); ok {
				return Const(w, uu)
			}
			panic("const int out of range")
		case u.Info()&types.IsString != 0:
			return constant.StringVal(c.Value)
		case u.Info()&types.IsFloat != 0:
			f, _ := constant.Float64Val(c.Value)
			return f
		}
	}
	panic(fmt.Sprintf("constValue: %s %s", t, c.Value))
}

// navigate value by path
func getPath(v Value, path []int) Value {
	for _, i := range path {
		switch x := v.(type) {
		case *Struct:
			v = x.F[i]
		case *Array:
			v = x.E[i]
		default:
			panic(fmt.Sprintf("getPath: bad container %T", v))
		}
	}
	return v
}

func setPath(v Value, path []int, nv Value) Value {
	if len(path) == 0 {
		return nv
	}
	i := path[0]
	switch x := v.(type) {
	case *Struct:
		n := &Struct{F: append([]Value(nil), x.F...)}
		n.F[i] = setPath(x.F[i], path[1:], nv)
		return n
	case *Array:
		n := &Array{E: append([]Value(nil), x.E...)}
		n.E[i] = setPath(x.E[i], path[1:], nv)
		return n
	}
	panic(fmt.Sprintf("setPath: bad container %T", v))
}

func appendPath(p []int, i int) []int {
	n := make([]int, len(p)+1)
	copy(n, p)
	n[len(p)] = i
	return n
}

func asTerm(v Value) *Term {
	t, ok := v.(*Term)
	if !ok {
		panic(fmt.Sprintf("expected scalar term, got %T", v))
	}
	return t
}

func concreteInt(v Value) (int, bool) {
	t, ok := v.(*Term)
	if !ok || !t.IsConst() {
		return 0, false
	}
	return int(sext64(t.C, t.W)), true
}

// eqValues builds equality condition of two values of the same static type.
func eqValues(a, b Value) *Term {
	switch x := a.(type) {
	case *Term:
		y := b.(*Term)
		if x.W == 0 {
			return Eq(x, y)
		}
		return Cmp("=", x, y)
	case string:
		return Bool(x == b.(string))
	case float64:
		return Bool(x == b.(float64))
	case *Ptr:
		y := b.(*Ptr)
		if x == nil || y == nil {
			return Bool(x == nil && y == nil)
		}
		if x.Obj != y.Obj || len(x.Path) != len(y.Path) {
			return Bool(false)
		}
		for i := range x.Path {
			if x.Path[i] != y.Path[i] {
				return Bool(false)
			}
		}
		return Bool(true)
	case *Struct:
		y := b.(*Struct)
		r := Bool(true)
		for i := range x.F {
			r = And(r, eqValues(x.F[i], y.F[i]))
		}
		return r
	case *Array:
		y := b.(*Array)
		r := Bool(true)
		for i := range x.E {
			r = And(r, eqValues(x.E[i], y.E[i]))
		}
		return r
	case *Iface:
		y, _ := b.(*Iface)
		if x == nil || y == nil {
			return Bool(x == nil && y == nil)
		}
		if !types.Identical(x.T, y.T) {
			return Bool(false)
		}
		return eqValues(x.V, y.V)
	case *Func:
		y, _ := b.(*Func)
		return Bool(x == nil && y == nil)
	case *MapRef:
		y := b.(*MapRef)
		return Bool(x.Obj == y.Obj)
	case *Slice:
		y := b.(*Slice)
		return Bool(x.Nil && y.Nil)
	case *ChanRef:
		return Bool(x.Obj == b.(*ChanRef).Obj)
	case *ErrObj:
		y, ok := b.(*ErrObj)
		return Bool(ok && x.ID == y.ID)
	case *Native:
		y, ok := b.(*Native)
		return Bool(ok && x == y)
	case nil:
		return Bool(b == nil)
	}
	panic(fmt.Sprintf("eqValues: %T", a))
}

var cmpOps = map[token.Token][2]string{
	token.LSS: {"bvult", "bvslt"},
	token.LEQ: {"bvule", "bvsle"},
	token.GTR: {"bvugt", "bvsgt"},
	token.GEQ: {"bvuge", "bvsge"},
}

func binop(op token.Token, t types.Type, a, b Value) Value {
	switch x := a.(type) {
	case *Term:
		y := b.(*Term)
		if x.W == 0 { // bool
			switch op {
			case token.EQL:
				return Eq(x, y)
			case token.NEQ:
				return Not(Eq(x, y))
			case token.AND, token.LAND:
				return And(x, y)
			case token.OR, token.LOR:
				return Or(x, y)
			}
			panic("bool binop " + op.String())
		}
		signed := isSigned(t)
		switch op {
		case token.ADD:
			return Bin("bvadd", x, y)
		case token.SUB:
			return Bin("bvsub", x, y)
		case token.MUL:
			return Bin("bvmul", x, y)
		case token.QUO:
			if signed {
				return Bin("bvsdiv", x, y)
			}
			return Bin("bvudiv", x, y)
		case token.REM:
			if signed {
				return Bin("bvsrem", x, y)
			}
			return Bin("bvurem", x, y)
		case token.AND:
			return Bin("bvand", x, y)
		case token.OR:
			return Bin("bvor", x, y)
		case token.XOR:
			return Bin("bvxor", x, y)
		case token.AND_NOT:
			return Bin("bvand", x, BvNot(y))
		case token.SHL, token.SHR:
			// shift count may have different width; go: count unsigned (or checked non-neg)
			yc := y
			if yc.W < x.W {
				yc = ZExt(yc, x.W)
			} else if yc.W > x.W {
				// if count >= 2^x.W then result is as for huge shift
				big := Cmp("bvuge", yc, Const(yc.W, uint64(x.W)))
				small := Extract(x.W-1, 0, yc)
				var sh *Term
				if op == token.SHL {
					sh = Bin("bvshl", x, small)
					return Ite(big, Const(x.W, 0), sh)
				}
				if signed {
					sh = Bin("bvashr", x, small)
					return Ite(big, Bin("bvashr", x, Const(x.W, uint64(x.W-1))), sh)
				}
				sh = Bin("bvlshr", x, small)
				return Ite(big, Const(x.W, 0), sh)
			}
			if op == token.SHL {
				return Bin("bvshl", x, yc)
			}
			if signed {
				return Bin("bvashr", x, yc)
			}
			return Bin("bvlshr", x, yc)
		case token.EQL:
			return Cmp("=", x, y)
		case token.NEQ:
			return Not(Cmp("=", x, y))
		case token.LSS, token.LEQ, token.GTR, token.GEQ:
			// signedness from operand type: t here is the operand type
			i := 0
			if signed {
				i = 1
			}
			return Cmp(cmpOps[op][i], x, y)
		}
		panic("int binop " + op.String())
	case string:
		y := b.(string)
		switch op {
		case token.ADD:
			return x + y
		case token.EQL:
			return Bool(x == y)
		case token.NEQ:
			return Bool(x != y)
		case token.LSS:
			return Bool(x < y)
		case token.LEQ:
			return Bool(x <= y)
		case token.GTR:
			return Bool(x > y)
		case token.GEQ:
			return Bool(x >= y)
		}
	case float64:
		y := b.(float64)
		switch op {
		case token.ADD:
			return x + y
		case token.SUB:
			return x - y
		case token.MUL:
			return x * y
		case token.QUO:
			return x / y
		case token.EQL:
			return Bool(x == y)
		case token.NEQ:
			return Bool(x != y)
		case token.LSS:
			return Bool(x < y)
		case token.LEQ:
			return Bool(x <= y)
		case token.GTR:
			return Bool(x > y)
		case token.GEQ:
			return Bool(x >= y)
		}
	}
	switch op {
	case token.EQL:
		return eqValues(a, b)
	case token.NEQ:
		return Not(eqValues(a, b))
	case token.XOR:
		// the noescape idiom: unsafe.Pointer(uintptr(p) ^ 0)
		if p, ok := a.(*Ptr); ok {
			if t, ok := b.(*Term); ok && t.IsConst() && t.C == 0 {
				return p
			}
		}
	}
	panic(fmt.Sprintf("binop %s on %T", op, a))
}

func convert(v Value, from, to types.Type) Value {
	switch x := v.(type) {
	case *Term:
		if isInt(to) {
			w := width(to)
			if isBool(from) {
				panic("bool->int")
			}
			if w <= x.W {
				return Extract(w-1, 0, x)
			}
			if isSigned(from) {
				return SExt(x, w)
			}
			return ZExt(x, w)
		}
		if isFloat(to) {
			if !x.IsConst() {
				panic(unsupported("symbolic int->float"))
			}
			if isSigned(from) {
				return float64(sext64(x.C, x.W))
			}
			return float64(x.C)
		}
		if isString(to) {
			if !x.IsConst() {
				panic(unsupported("symbolic int->string"))
			}
			return string(rune(x.C))
		}
		if _, ok := to.Underlying().(*types.Pointer); ok {
			return (*Ptr)(nil)
		}
		if b, ok := to.Underlying().(*types.Basic); ok && b.Kind() == types.UnsafePointer {
			return x
		}
	case float64:
		if isFloat(to) {
			if b := to.Underlying().(*types.Basic); b.Kind() == types.Float32 {
				return float64(float32(x))
			}
			return x
		}
		if isInt(to) {
			w := width(to)
			if isSigned(to) {
				return Const(w, uint64(int64(x)))
			}
			if x >= math.MaxInt64 {
				return Const(w, uint64(x))
			}
			return Const(w, uint64(int64(x)))
		}
	case string:
		if isString(to) {
			return x
		}
	case *Ptr:
		return x
	}
	panic(fmt.Sprintf("convert %T from %s to %s", v, from, to))
}

type unsupportedErr struct{ msg string }

func unsupported(m string) unsupportedErr { return unsupportedErr{m} }
