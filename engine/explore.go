package main

import (
	"fmt"
	"os"
	"regexp"
	"sort"
	"strings"
	"sync"
	"time"

	"golang.org/x/tools/go/ssa"
)

// Shared is the state shared by the workers exploring one harness entry.
type Shared struct {
	mu       sync.Mutex
	cond     *sync.Cond
	queue    []*State
	idle     int
	n        int
	stop     bool
	maxViol  int
	nviol    int
	deadline time.Time
	timedOut bool
}

func newShared(n int) *Shared {
	sh := &Shared{n: n, maxViol: 8}
	sh.cond = sync.NewCond(&sh.mu)
	return sh
}

// pushFork queues a forked state: to the shared queue when other workers are
// hungry, otherwise to the local DFS stack.
func (e *Engine) pushFork(cl *State) {
	sh := e.sh
	if sh != nil && sh.n > 1 {
		sh.mu.Lock()
		if len(sh.queue) < sh.n {
			sh.queue = append(sh.queue, cl)
			sh.cond.Signal()
			sh.mu.Unlock()
			return
		}
		sh.mu.Unlock()
	}
	e.work = append(e.work, cl)
}

func (e *Engine) next() *State {
	if n := len(e.work); n > 0 {
		st := e.work[n-1]
		e.work = e.work[:n-1]
		return st
	}
	sh := e.sh
	sh.mu.Lock()
	defer sh.mu.Unlock()
	sh.idle++
	for {
		if sh.stop {
			return nil
		}
		if n := len(sh.queue); n > 0 {
			st := sh.queue[n-1]
			sh.queue = sh.queue[:n-1]
			sh.idle--
			return st
		}
		if sh.idle == sh.n {
			sh.stop = true
			sh.cond.Broadcast()
			return nil
		}
		sh.cond.Wait()
	}
}

// workerLoop explores states until the shared frontier is exhausted.
func (e *Engine) workerLoop() {
	for {
		st := e.next()
		if st == nil {
			return
		}
		if !e.sh.deadline.IsZero() && time.Now().After(e.sh.deadline) {
			e.sh.mu.Lock()
			e.sh.timedOut = true
			e.sh.stop = true
			e.sh.cond.Broadcast()
			e.sh.mu.Unlock()
			return
		}
		e.run(st)
		e.finishPath(st)
	}
}

func (e *Engine) finishPath(st *State) {
	if len(st.pendA) > 0 && st.outcome != "assume-false" && !strings.HasPrefix(st.outcome, "UNSUPPORTED") {
		func() {
			defer func() {
				if r := recover(); r != nil {
					if u, ok := r.(unsupportedErr); ok {
						st.outcome = "UNSUPPORTED: " + u.msg
						return
					}
					panic(r)
				}
			}()
			e.flushAsserts(st)
		}()
	}
	e.paths++
	o := st.outcome
	e.outcomes[o]++
	if len(st.pc) > 0 {
		e.nontriv++
	}
	if e.verbose {
		fmt.Fprintf(os.Stderr, "path %d: %s (steps %d, pc %d)\n", e.paths, o, st.steps, len(st.pc))
	}
	if o == "return" && len(e.agree) < e.agreeMax && !st.threadMode && (e.paths%7 == 1 || e.paths <= 2) {
		if r := e.solver.Check(st.pc, nil); r == "sat" {
			vals := e.solver.Values(st.vars)
			a := AgreeSample{Harness: e.harness, Tier: e.tier, Reach: append([]string(nil), st.reachSeq...)}
			for _, hi := range st.hvars {
				a.Values = append(a.Values, vals[hi])
			}
			e.agree = append(e.agree, a)
		}
	}
	if len(e.samples) < 3 && (o == "return") && len(st.pc) > 0 {
		var cs []string
		for i, c := range st.pc {
			if i >= 6 {
				cs = append(cs, fmt.Sprintf("… (%d more conjuncts)", len(st.pc)-i))
				break
			}
			s := c.String()
			if len(s) > 160 {
				s = s[:160] + "…"
			}
			cs = append(cs, s)
		}
		e.samples = append(e.samples, fmt.Sprintf("%s: path condition [%s] -> all assertions unsat, outcome return", e.harness, strings.Join(cs, " ∧ ")))
	}
	switch {
	case strings.HasPrefix(o, "PANIC: "), strings.HasPrefix(o, "DEADLOCK"):
		// decided later by the driver's policy; a model is needed for replay
		if e.outcomes[o] <= 2 {
			kind := "panic"
			if strings.HasPrefix(o, "DEADLOCK") {
				kind = "deadlock"
			}
			if r := e.solver.Check(st.pc, nil); r == "sat" {
				e.recordViolation(st, kind, o)
			} else if r == "unknown" {
				e.outcomes["UNSUPPORTED: solver unknown"]++
			}
		}
	}
}

// recordViolation must be called right after a sat Check (model available).
func (e *Engine) recordViolation(st *State, kind, id string) {
	e.sh.mu.Lock()
	e.sh.nviol++
	over := e.sh.nviol > 200
	e.sh.mu.Unlock()
	if over {
		return
	}
	vals := e.solver.Values(st.vars)
	v := Violation{Harness: e.harness, Kind: kind, ID: id, AllVars: map[string]uint64{}, PC: len(st.pc)}
	for i, t := range st.vars {
		if t.Op == "var" {
			v.AllVars[t.Name] = vals[i]
		}
	}
	for _, hi := range st.hvars {
		v.Values = append(v.Values, vals[hi])
		n := st.vars[hi].Name
		if st.vars[hi].Op != "var" {
			n = "pinned"
		}
		v.Names = append(v.Names, n)
	}
	mdl := make(Model, len(st.vars))
	for i, t := range st.vars {
		if t.Op == "var" {
			mdl[t] = vals[i]
		}
	}
	for _, ev := range st.events {
		var ss []string
		for _, a := range ev.Args {
			if x, ok := evalTerm(a, mdl, map[*Term]uint64{}); ok {
				ss = append(ss, fmt.Sprint(x))
			} else {
				ss = append(ss, fmt.Sprint(e.solver.Values([]*Term{a})[0]))
			}
		}
		v.Events = append(v.Events, ev.Kind+"("+strings.Join(ss, ",")+")")
	}
	e.viol = append(e.viol, v)
}

// HarnessResult is the merged outcome of exploring one harness entry.
type HarnessResult struct {
	Name       string         `json:"name"`
	Paths      int            `json:"paths"`
	Nontriv    int            `json:"nontrivial_paths"`
	Forks      int            `json:"forks"`
	Queries    int            `json:"queries"`
	AssertQ    int            `json:"assertion_queries"`
	AbsHits    int            `json:"branches_decided_by_simplifier"`
	Fallbacks  int            `json:"queries_retried_on_fallback_solver"`
	AbsAsserts int            `json:"assertions_discharged_by_preprocessor"`
	Sat        int            `json:"sat"`
	Unsat      int            `json:"unsat"`
	Unknown    int            `json:"unknown"`
	SolverS    float64        `json:"solver_s"`
	MaxQueryS  float64        `json:"max_query_s"`
	WallS      float64        `json:"wall_s"`
	Outcomes   map[string]int `json:"outcomes"`
	Reach      map[string]int `json:"reach"`
	Asserts    map[string]int `json:"asserts"`
	Funcs      []string       `json:"-"`
	Viol       []Violation    `json:"-"`
	Samples    []string       `json:"-"`
	Agree      []AgreeSample  `json:"-"`
	TimedOut   bool           `json:"timed_out"`
	SolverErr  string         `json:"solver_err,omitempty"`
}

// AgreeSample is one explored path turned into concrete inputs: replayed
// natively it must end the same way and witness the same reach labels in the
// same order (translator validation, DESIGN.md 13).
type AgreeSample struct {
	Harness string   `json:"harness"`
	Values  []uint64 `json:"values"`
	Tier    int      `json:"tier"`
	Reach   []string `json:"reach"`
}

type RunOpts struct {
	Agree     int
	Workers   int
	MaxSteps  int
	Tier      int
	Verbose   bool
	SolverBin []string
	TimeoutMs int
	Pin       map[int]uint64
	Deadline  time.Time
	MaxSwitch int
	SmtLog    string
}

// exploreHarness runs one harness entry on all paths with opts.Workers workers.
func exploreHarness(prog *ssa.Program, fn *ssa.Function, inits []*ssa.Function, opts RunOpts) *HarnessResult {
	t0 := time.Now()
	nw := opts.Workers
	if nw < 1 {
		nw = 1
	}
	if opts.Pin != nil {
		nw = 1
	}
	sh := newShared(nw)
	sh.deadline = opts.Deadline
	engines := make([]*Engine, nw)
	for i := range engines {
		e := &Engine{prog: prog, solver: NewSolver(opts.SolverBin, opts.TimeoutMs), sh: sh, outcomes: map[string]int{},
			reach: map[string]int{}, asserts: map[string]int{}, maxSteps: opts.MaxSteps, agreeMax: (opts.Agree + nw - 1) / nw, funcsSeen: map[*ssa.Function]bool{},
			verbose: opts.Verbose, harness: fn.Name(), harnessPkg: fn.Pkg, tier: opts.Tier, pin: opts.Pin, maxSwitch: opts.MaxSwitch,
			noAbs: os.Getenv("VERIF_NOABS") != "", audit: os.Getenv("VERIF_AUDIT") != "",
			noSlice: os.Getenv("VERIF_SLICE") == "", useModel: os.Getenv("VERIF_NOMODEL") == "", assertsToSolver: opts.Tier > 0 || os.Getenv("VERIF_ASSERTS_TO_SOLVER") != "", varMemo: map[*Term]varset{}, varIdx: map[*Term]int{}}
		if opts.SmtLog != "" && i == 0 {
			lf, _ := os.Create(opts.SmtLog)
			e.solver.log = lf
		}
		engines[i] = e
	}
	res := &HarnessResult{Name: fn.Name(), Outcomes: map[string]int{}, Reach: map[string]int{}, Asserts: map[string]int{}}
	// initial state: run package initialisers concretely on worker 0
	e0 := engines[0]
	st := &State{heap: map[int]Value{}, globals: map[*ssa.Global]int{}, hashBuf: map[int][]Value{}, lockv: map[string]int{}, pools: map[int][]Value{}}
	for _, ifn := range inits {
		// package os is not initialised (its init opens the standard streams); its
		// error variables are aliases of io/fs's
		if osp, fsp := prog.ImportedPackage("os"), prog.ImportedPackage("io/fs"); osp != nil && fsp != nil {
			for _, n := range []string{"ErrInvalid", "ErrPermission", "ErrExist", "ErrNotExist", "ErrClosed"} {
				og, _ := osp.Members[n].(*ssa.Global)
				fg, _ := fsp.Members[n].(*ssa.Global)
				if og != nil && fg != nil {
					dst := e0.eval(st, nil, og).(*Ptr)
					st.store(dst, st.load(e0.eval(st, nil, fg).(*Ptr)))
				}
			}
		}
		if uninitAudit {
			initedMu.Lock()
			initedPkgs[ifn.Pkg.Pkg.Path()] = true
			initedMu.Unlock()
		}
		e0.pushCall(st, ifn, nil, nil, nil)
		e0.run(st)
		if st.outcome != "return" {
			res.Outcomes["UNSUPPORTED: init of "+ifn.Pkg.Pkg.Path()+" ended with "+st.outcome]++
			for _, e := range engines {
				e.solver.Close()
			}
			return res
		}
		st.outcome = ""
		st.steps = 0
	}
	e0.pushCall(st, fn, nil, nil, nil)
	sh.queue = append(sh.queue, st)
	var wg sync.WaitGroup
	for _, e := range engines {
		wg.Add(1)
		go func(e *Engine) {
			defer wg.Done()
			defer func() {
				if r := recover(); r != nil {
					e.outcomes[fmt.Sprintf("UNSUPPORTED: engine panic: %v", r)]++
					sh.mu.Lock()
					sh.stop = true
					sh.cond.Broadcast()
					sh.mu.Unlock()
				}
			}()
			e.workerLoop()
		}(e)
	}
	wg.Wait()
	funcs := map[string]bool{}
	for _, e := range engines {
		res.Paths += e.paths
		res.Nontriv += e.nontriv
		res.Forks += e.forks
		res.Queries += e.solver.Queries
		res.AssertQ += e.assertQ
		res.AbsHits += e.absHits
		res.Fallbacks += e.solver.Fallbacks
		res.AbsAsserts += e.absAsserts
		res.Sat += e.solver.Sat
		res.Unsat += e.solver.Unsat
		res.Unknown += e.solver.Unknown
		res.SolverS += e.solver.Time.Seconds()
		if m := e.solver.MaxQ.Seconds(); m > res.MaxQueryS {
			res.MaxQueryS = m
		}
		if e.solver.lastErr != "" {
			res.SolverErr = e.solver.lastErr
		}
		for k, v := range e.outcomes {
			res.Outcomes[k] += v
		}
		for k, v := range e.reach {
			res.Reach[k] += v
		}
		for k, v := range e.asserts {
			res.Asserts[k] += v
		}
		for f := range e.funcsSeen {
			funcs[f.String()] = true
		}
		res.Viol = append(res.Viol, e.viol...)
		res.Samples = append(res.Samples, e.samples...)
		res.Agree = append(res.Agree, e.agree...)
		e.solver.Close()
	}
	for f := range funcs {
		res.Funcs = append(res.Funcs, f)
	}
	sort.Strings(res.Funcs)
	res.TimedOut = sh.timedOut
	res.WallS = time.Since(t0).Seconds()
	return res
}

// classify applies a harness's outcome policy. It returns the violations to
// report and the reasons that make the run inconclusive.
type Policy struct {
	AllowPanics   []*regexp.Regexp // panic messages that are acceptable outcomes
	ForbidPanics  []*regexp.Regexp // panic messages that are violations even if otherwise allowed
	RuntimePanics string           // "violation" (default) | "allow"
	Deadlock      string           // "inconclusive" (default) | "violation" | "allow"
	Reach         []string
}

func isRuntimePanic(o string) bool {
	return strings.Contains(o, "runtime error:") || strings.Contains(o, "sync: ") || strings.Contains(o, "close of") || strings.Contains(o, "send on closed")
}

func classify(res *HarnessResult, pol Policy) (viol []Violation, inconclusive []string) {
	bad := map[string]bool{} // outcome strings that are violations
	for o, n := range res.Outcomes {
		switch {
		case o == "return" || o == "assume-false":
		case strings.HasPrefix(o, "VIOLATION "):
		case strings.HasPrefix(o, "PANIC: "):
			msg := strings.TrimPrefix(o, "PANIC: ")
			forbidden := false
			for _, re := range pol.ForbidPanics {
				if re.MatchString(msg) {
					forbidden = true
				}
			}
			allowed := false
			for _, re := range pol.AllowPanics {
				if re.MatchString(msg) {
					allowed = true
				}
			}
			if isRuntimePanic(o) {
				if pol.RuntimePanics != "allow" && !allowed {
					forbidden = true
				}
			}
			if forbidden {
				bad[o] = true
			}
		case strings.HasPrefix(o, "DEADLOCK"):
			switch pol.Deadlock {
			case "violation":
				bad[o] = true
			case "allow":
			default:
				inconclusive = append(inconclusive, fmt.Sprintf("%s: %s on %d path(s)", res.Name, o, n))
			}
		default:
			inconclusive = append(inconclusive, fmt.Sprintf("%s: %s on %d path(s)", res.Name, o, n))
		}
	}
	for _, v := range res.Viol {
		if v.Kind == "assert" || bad[v.ID] {
			viol = append(viol, v)
		}
	}
	for o := range bad {
		found := false
		for _, v := range viol {
			if v.ID == o {
				found = true
			}
		}
		if !found {
			inconclusive = append(inconclusive, fmt.Sprintf("%s: forbidden outcome %q without a model", res.Name, o))
		}
	}
	for _, l := range pol.Reach {
		if res.Reach[l] == 0 {
			inconclusive = append(inconclusive, fmt.Sprintf("%s: VACUOUS, reach label %q never witnessed", res.Name, l))
		}
	}
	if res.Unknown > 0 {
		inconclusive = append(inconclusive, fmt.Sprintf("%s: %d solver answers unknown/timeout/error (%s)", res.Name, res.Unknown, res.SolverErr))
	}
	if res.TimedOut {
		inconclusive = append(inconclusive, fmt.Sprintf("%s: wall-clock limit hit", res.Name))
	}
	if res.Paths == 0 {
		inconclusive = append(inconclusive, fmt.Sprintf("%s: no path explored", res.Name))
	}
	return
}
