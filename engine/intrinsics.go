package main

import (
	"bytes"
	"crypto/md5"
	"fmt"
	"go/types"
	"hash/crc32"
	"math"
	"os"
	"path"
	"path/filepath"
	"regexp"
	"strings"
	"sync/atomic"

	"golang.org/x/tools/go/ssa"
)

var errType = types.NewNamed(types.NewTypeName(0, nil, "vErrObj", nil), types.NewStruct(nil, nil), nil)
var errSeq int64

func newErr(msg string, wrap Value) Value {
	id := atomic.AddInt64(&errSeq, 1)
	return &Iface{T: errType, V: &ErrObj{Msg: msg, Wrap: wrap, ID: int(id)}}
}

func (e *Engine) finish(st *State, callInstr ssa.Value, r Value, fromDefer bool) {
	if fromDefer {
		return
	}
	f := e.top(st)
	if callInstr != nil {
		f.env[callInstr] = r
	}
	f.ip++
}

func fullName(fn *ssa.Function) string {
	return fn.String()
}

// intrinsic handles modelled functions. Returns true if handled.
func (e *Engine) intrinsic(st *State, fn *ssa.Function, args []Value, ci ssa.Value, fd bool) bool {
	name := fullName(fn)
	short := fn.Name()
	// harness primitives (any package)
	if strings.HasPrefix(short, "v") && fn.Pkg != nil && fn.Signature.Recv() == nil {
		switch short {
		case "vU64", "vU32", "vU16", "vU8", "vInt", "vBool":
			w := map[string]int{"vU64": 64, "vU32": 32, "vU16": 16, "vU8": 8, "vInt": 64, "vBool": 0}[short]
			e.finish(st, ci, e.newHVar(st, args[0].(string), w), fd)
			return true
		case "vBytes":
			n, ok := concreteInt(args[1])
			if !ok || n < 0 || n > 4096 {
				panic(unsupported("vBytes with symbolic/large length"))
			}
			arr := &Array{E: make([]Value, n)}
			for i := range arr.E {
				arr.E[i] = e.newHVar(st, args[0].(string), 8)
			}
			e.finish(st, ci, &Slice{Obj: st.alloc(arr), Len: n, Cap: n}, fd)
			return true
		case "vIte":
			e.finish(st, ci, Ite(args[0].(*Term), args[1].(*Term), args[2].(*Term)), fd)
			return true
		case "vAnd":
			e.finish(st, ci, And(args[0].(*Term), args[1].(*Term)), fd)
			return true
		case "vOr":
			e.finish(st, ci, Or(args[0].(*Term), args[1].(*Term)), fd)
			return true
		case "vImplies":
			e.finish(st, ci, Or(Not(args[0].(*Term)), args[1].(*Term)), fd)
			return true
		case "vLockState":
			e.finish(st, ci, Const(64, uint64(int64(st.lockv[lockKey(args[0].(*Ptr))]))), fd)
			return true
		case "vLenOf":
			sl := args[0].(*Iface).V.(*Slice)
			e.finish(st, ci, Const(64, uint64(sl.Len)), fd)
			return true
		case "vSwapElems":
			sl := args[0].(*Iface).V.(*Slice)
			i, _ := concreteInt(args[1])
			j, _ := concreteInt(args[2])
			el := e.sliceElems(st, sl)
			vi, vj := el[i], el[j]
			e.setSliceElem(st, sl, i, vj)
			e.setSliceElem(st, sl, j, vi)
			e.finish(st, ci, nil, fd)
			return true
		case "vTier":
			e.finish(st, ci, Const(64, uint64(e.tier)), fd)
			return true
		case "vSymbolic":
			e.finish(st, ci, Bool(true), fd)
			return true
		case "vForeign":
			// the executor has no background goroutines: everything runs on the harness thread
			e.finish(st, ci, Bool(false), fd)
			return true
		case "vAssume":
			c := args[0].(*Term)
			if !e.flushAsserts(st) {
				return true
			}
			if c.IsFalse() {
				st.outcome = "assume-false"
				return true
			}
			if !c.IsTrue() && !e.noAbs {
				switch st.implied(c) {
				case triTrue:
					c = Bool(true)
				case triFalse:
					if e.audit {
						if a := e.solver.Check(st.pc, c); a == "sat" {
							panic("ABSINT UNSOUND in vAssume")
						}
					}
					st.outcome = "assume-false"
					return true
				}
			}
			if !c.IsTrue() {
				keep := false
				if e.useModel && st.modelValid() {
					if v, ok := st.holds(c); ok && v {
						keep = true
					}
				}
				if !keep && len(st.forced) == 0 {
					if r := e.feasible(st, c); r == "unsat" {
						st.outcome = "assume-false"
						return true
					} else if r == "unknown" {
						panic(unsupported("solver unknown"))
					}
					if e.useModel {
						st.model = e.fetchModel(st)
						keep = true
					}
				}
				st.pc = append(st.pc, c)
				if keep {
					st.modelN = len(st.pc)
				}
			}
			e.finish(st, ci, nil, fd)
			return true
		case "vAssert":
			// Assertions are collected and discharged in one query (the negated
			// conjunction) before the next vAssume and at the end of the path:
			// later branch conditions only split cases, so nothing is lost, and
			// assumptions never act retroactively on an earlier assertion.
			c := args[0].(*Term)
			id := args[1].(string)
			e.asserts[id]++
			if !c.IsTrue() {
				st.pendA = append(st.pendA, pendAssert{c: c, id: id})
				if c.IsFalse() || len(st.pendA) >= 64 {
					if !e.flushAsserts(st) {
						return true
					}
				}
			}
			e.finish(st, ci, nil, fd)
			return true
		case "vReach":
			e.reach[args[0].(string)]++
			st.reachSeq = append(st.reachSeq, args[0].(string))
			e.finish(st, ci, nil, fd)
			return true
		case "vChoose":
			n, _ := concreteInt(args[1])
			v := e.newHVar(st, args[0].(string), 64)
			k, ok := e.chooseFresh(st, v, n)
			if !ok {
				st.outcome = "assume-false"
				return true
			}
			e.finish(st, ci, Const(64, uint64(k)), fd)
			return true
		case "vChanReady":
			ready := false
			if ifc, ok := args[0].(*Struct).F[0].(*Iface); ok && ifc != nil {
				if ch, ok := ifc.V.(*ChanRef); ok && ch.Obj != 0 {
					cv := st.heap[ch.Obj].(*ChanVal)
					ready = len(cv.Buf) > 0 || cv.Closed
				}
			}
			e.finish(st, ci, Bool(ready), fd)
			return true
		case "vChanRecv":
			ifc := args[0].(*Struct).F[0].(*Iface)
			ch := ifc.V.(*ChanRef)
			cv := st.heap[ch.Obj].(*ChanVal)
			et := ifc.T.Underlying().(*types.Chan).Elem()
			var v Value
			okv := Bool(false)
			if len(cv.Buf) > 0 {
				v = cv.Buf[0]
				st.heap[ch.Obj] = &ChanVal{Buf: append([]Value(nil), cv.Buf[1:]...), Cap: cv.Cap, Closed: cv.Closed}
				okv = Bool(true)
			} else {
				v = zero(et)
			}
			rv := &Struct{F: []Value{&Iface{T: et, V: v}, (*Ptr)(nil), Const(64, 1)}}
			e.finish(st, ci, &Tuple{V: []Value{rv, okv}}, fd)
			return true
		case "vYield":
			if e.yield(st) {
				e.finish(st, ci, nil, fd)
			}
			return true
		case "vSpawn":
			st.spawned = append(st.spawned, args[0])
			e.finish(st, ci, nil, fd)
			return true
		case "vRunThreads":
			if len(st.spawned) == 0 {
				e.finish(st, ci, nil, fd)
				return true
			}
			fv0 := e.newVar(st, "sched", 64)
			first, ok := e.chooseFresh(st, fv0, len(st.spawned))
			if !ok {
				st.outcome = "assume-false"
				return true
			}
			n := len(st.spawned) + 1
			st.stacks = make([][]*Frame, n)
			st.tdone = make([]bool, n)
			st.tblock = make([]string, n)
			st.threadMode = true
			st.switches = 0
			main := st.frames
			for i, fv := range st.spawned {
				st.frames = nil
				e.pushCall(st, fv.(*Func).Fn, nil, fv.(*Func).Bind, nil)
				st.stacks[i+1] = st.frames
			}
			st.spawned = nil
			st.frames = main
			st.cur = 0
			e.switchTo(st, first+1)
			return true
		case "vEvent":
			ev := Event{Kind: fmt.Sprint(args[0])}
			if len(args) > 1 {
				if sl, ok := args[1].(*Slice); ok && sl.Len > 0 {
					for _, a := range e.sliceElems(st, sl) {
						ev.Args = append(ev.Args, a.(*Term))
					}
				}
			}
			st.events = append(st.events, ev)
			e.finish(st, ci, nil, fd)
			return true
		}
	}
	if short == "init" && fn.Synthetic == "package initializer" {
		e.finish(st, ci, nil, fd)
		return true
	}
	if strings.HasPrefix(name, "strings.") || strings.HasPrefix(name, "path/filepath.") || strings.HasPrefix(name, "path.") {
		if r, ok := e.nativeStrings(st, name, args); ok {
			e.finish(st, ci, r, fd)
			return true
		}
	}
	if name == "internal/bytealg.MakeNoZero" {
		if n, ok := concreteInt(args[0]); ok && n >= 0 && n < 1<<20 {
			arr := &Array{E: make([]Value, n)}
			for i := range arr.E {
				arr.E[i] = Const(8, 0)
			}
			e.finish(st, ci, &Slice{Obj: st.alloc(arr), Len: n, Cap: n}, fd)
			return true
		}
	}
	if strings.HasPrefix(name, "internal/bytealg.") || name == "strings.Index" || name == "strings.Contains" || name == "strings.HasPrefix" || name == "strings.HasSuffix" {
		if r, ok := e.bytealg(st, fn.Name(), args); ok {
			e.finish(st, ci, r, fd)
			return true
		}
	}
	switch name {
	case "encoding/json.Marshal":
		// stub contract: Marshal/Unmarshal round-trip a value exactly.  The "encoding"
		// is 16 concrete bytes: a magic tag and the id of a heap object holding a
		// deep copy of the value, so symbolic field contents survive untouched.
		v := args[0].(*Iface)
		var val Value = v.V
		if p, ok := val.(*Ptr); ok {
			val = st.load(p)
		}
		id := st.alloc(e.deepCopy(st, val))
		arr := &Array{E: make([]Value, 16)}
		magic := "VJSONREF"
		for i := 0; i < 8; i++ {
			arr.E[i] = Const(8, uint64(magic[i]))
			arr.E[8+i] = Const(8, uint64(id>>(8*uint(i)))&0xff)
		}
		e.finish(st, ci, &Tuple{V: []Value{&Slice{Obj: st.alloc(arr), Len: 16, Cap: 16}, (*Iface)(nil)}}, fd)
		return true
	case "encoding/json.Unmarshal":
		sl := args[0].(*Slice)
		el := e.sliceElems(st, sl)
		if len(el) != 16 {
			e.finish(st, ci, newErr("vjson: bad handle", nil), fd)
			return true
		}
		id := 0
		for i := 0; i < 8; i++ {
			t := el[8+i].(*Term)
			if !t.IsConst() {
				panic(unsupported("json.Unmarshal of symbolic bytes"))
			}
			id |= int(t.C) << (8 * uint(i))
		}
		src, ok := st.heap[id]
		if !ok {
			e.finish(st, ci, newErr("vjson: dangling handle", nil), fd)
			return true
		}
		dst := args[1].(*Iface).V.(*Ptr)
		st.store(dst, e.deepCopy(st, src))
		e.finish(st, ci, (*Iface)(nil), fd)
		return true
	}
	if name == "reflect.Select" && e.harnessPkg != nil {
		if f := e.harnessPkg.Func("vReflectSelect"); f != nil {
			e.pushCall(st, f, args, nil, ci)
			e.top(st).fromDefer = fd
			return true
		}
	}
	// a harness may model what Stopper.Stop waits for (its workers returning)
	if name == "(*github.com/lni/goutils/syncutil.Stopper).Stop" && e.harnessPkg != nil {
		if f := e.harnessPkg.Func("vStopperStop"); f != nil {
			e.pushCall(st, f, args, nil, ci)
			e.top(st).fromDefer = fd
			return true
		}
	}
	if name == "sort.Slice" && e.harnessPkg != nil {
		if f := e.harnessPkg.Func("vSortSlice"); f != nil {
			e.pushCall(st, f, args, nil, ci)
			e.top(st).fromDefer = fd
			return true
		}
	}
	switch name {
	case "(*sync.Mutex).Lock", "(*sync.Mutex).Unlock", "(*sync.RWMutex).Lock", "(*sync.RWMutex).Unlock",
		"(*sync.RWMutex).RLock", "(*sync.RWMutex).RUnlock":
		e.mutexOp(st, short, args[0].(*Ptr), ci, fd)
		return true
	case "sync/atomic.LoadUint64", "sync/atomic.LoadUint32", "sync/atomic.LoadInt32", "sync/atomic.LoadInt64":
		if !e.yield(st) {
			return true
		}
		e.finish(st, ci, st.load(args[0].(*Ptr)), fd)
		return true
	case "sync/atomic.StoreUint64", "sync/atomic.StoreUint32", "sync/atomic.StoreInt32", "sync/atomic.StoreInt64":
		if !e.yield(st) {
			return true
		}
		st.store(args[0].(*Ptr), args[1])
		e.finish(st, ci, nil, fd)
		return true
	case "sync/atomic.LoadPointer", "sync/atomic.LoadUintptr":
		if !e.yield(st) {
			return true
		}
		e.finish(st, ci, st.load(args[0].(*Ptr)), fd)
		return true
	case "sync/atomic.StorePointer", "sync/atomic.StoreUintptr":
		if !e.yield(st) {
			return true
		}
		st.store(args[0].(*Ptr), args[1])
		e.finish(st, ci, nil, fd)
		return true
	case "sync/atomic.CompareAndSwapUint64", "sync/atomic.CompareAndSwapUint32", "sync/atomic.CompareAndSwapInt32", "sync/atomic.CompareAndSwapInt64", "sync/atomic.CompareAndSwapPointer":
		if !e.yield(st) {
			return true
		}
		p := args[0].(*Ptr)
		cur := st.load(p)
		if e.branch(st, eqValues(cur, args[1])) {
			st.store(p, args[2])
			e.finish(st, ci, Bool(true), fd)
		} else {
			e.finish(st, ci, Bool(false), fd)
		}
		return true
	case "sync/atomic.SwapUint64", "sync/atomic.SwapUint32", "sync/atomic.SwapInt32", "sync/atomic.SwapInt64", "sync/atomic.SwapPointer":
		if !e.yield(st) {
			return true
		}
		p := args[0].(*Ptr)
		old := st.load(p)
		st.store(p, args[1])
		e.finish(st, ci, old, fd)
		return true
	case "(*sync/atomic.Value).Store":
		p := args[0].(*Ptr)
		st.store(&Ptr{Obj: p.Obj, Path: appendPath(p.Path, 0)}, args[1])
		e.finish(st, ci, nil, fd)
		return true
	case "(*sync/atomic.Value).Load":
		p := args[0].(*Ptr)
		e.finish(st, ci, st.load(&Ptr{Obj: p.Obj, Path: appendPath(p.Path, 0)}), fd)
		return true
	case "(*github.com/lni/goutils/syncutil.Stopper).RunWorker":
		// background workers (Tan's compaction worker) are not started: what they do
		// is asynchronous housekeeping outside every claim
		e.finish(st, ci, nil, fd)
		return true
	case "(*github.com/lni/goutils/syncutil.Stopper).Stop", "(*github.com/lni/goutils/syncutil.Stopper).Close":
		// no worker goroutine was started (RunWorker above), so there is nothing
		// to wait for: the stop channel is closed
		if p, ok := args[0].(*Ptr); ok && p != nil {
			if ch, ok := st.load(&Ptr{Obj: p.Obj, Path: appendPath(p.Path, 1)}).(*ChanRef); ok && ch != nil && ch.Obj != 0 {
				cv := st.heap[ch.Obj].(*ChanVal)
				st.heap[ch.Obj] = &ChanVal{Buf: cv.Buf, Cap: cv.Cap, Closed: true}
			}
		}
		e.finish(st, ci, nil, fd)
		return true
	case "(*sync.Cond).Signal", "(*sync.Cond).Broadcast":
		e.finish(st, ci, nil, fd)
		return true
	case "(*sync.Cond).Wait":
		st.outcome = "DEADLOCK: sync.Cond.Wait (no other thread can signal)"
		return true
	case "(*sync.WaitGroup).Add":
		p := args[0].(*Ptr)
		k := lockKey(p) + "#wg"
		d, _ := concreteInt(args[1])
		st.lockv[k] += d
		if st.lockv[k] < 0 {
			e.startPanic(st, "sync: negative WaitGroup counter")
			return true
		}
		e.finish(st, ci, nil, fd)
		return true
	case "(*sync.WaitGroup).Done":
		p := args[0].(*Ptr)
		k := lockKey(p) + "#wg"
		st.lockv[k]--
		if st.lockv[k] < 0 {
			e.startPanic(st, "sync: negative WaitGroup counter")
			return true
		}
		e.finish(st, ci, nil, fd)
		return true
	case "(*sync.WaitGroup).Wait":
		p := args[0].(*Ptr)
		if st.lockv[lockKey(p)+"#wg"] != 0 {
			st.outcome = "DEADLOCK: WaitGroup.Wait with pending work (goroutines run to completion at the go statement)"
			return true
		}
		e.finish(st, ci, nil, fd)
		return true
	case "(*sync.Once).Do":
		p := args[0].(*Ptr)
		k := lockKey(p) + "#once"
		if st.lockv[k] != 0 {
			e.finish(st, ci, nil, fd)
			return true
		}
		st.lockv[k] = 1
		e.invoke(st, args[1], nil, ci, fd)
		return true
	case "sync/atomic.AddUint64", "sync/atomic.AddUint32", "sync/atomic.AddInt32", "sync/atomic.AddInt64":
		p := args[0].(*Ptr)
		nv := Bin("bvadd", st.load(p).(*Term), args[1].(*Term))
		st.store(p, nv)
		e.finish(st, ci, nv, fd)
		return true
	case "fmt.Sprintf", "fmt.Sprint":
		e.finish(st, ci, e.nativeFormat(st, short, args), fd)
		return true
	case "fmt.Errorf", "errors.New", "github.com/cockroachdb/errors.New", "github.com/cockroachdb/errors.Newf", "github.com/cockroachdb/errors.Errorf":
		msg := "<err>"
		if short == "Errorf" || short == "Newf" {
			msg = e.nativeFormat(st, "Sprintf", args)
		} else if s, ok := args[0].(string); ok {
			msg = s
		}
		e.finish(st, ci, newErr(msg, nil), fd)
		return true
	case "reflect.DeepEqual":
		e.finish(st, ci, e.deepEqual(st, args[0], args[1], 0), fd)
		return true
	case "github.com/lni/goutils/random.NewLockedRand":
		// the random source is only used through LockedRand.Uint64 (intrinsic)
		e.finish(st, ci, (*Ptr)(nil), fd)
		return true
	case "os.Getpid":
		e.finish(st, ci, Const(64, 4242), fd)
		return true
	case "os.Hostname":
		e.finish(st, ci, &Tuple{V: []Value{"vhost", (*Iface)(nil)}}, fd)
		return true
	case "regexp.MustCompile":
		// regular expressions are kept as native objects; matching runs natively on
		// concrete input
		pat, ok := args[0].(string)
		if !ok {
			panic(unsupported("regexp.MustCompile of non-constant pattern"))
		}
		e.finish(st, ci, &Native{V: regexp.MustCompile(pat)}, fd)
		return true
	case "(*regexp.Regexp).Match", "(*regexp.Regexp).MatchString":
		re, ok := args[0].(*Native)
		if !ok {
			panic(goPanic{"runtime error: nil pointer dereference (regexp)"})
		}
		b, ok := e.concreteBytes(st, args[1])
		if !ok {
			panic(unsupported("regexp match on symbolic input"))
		}
		e.finish(st, ci, Bool(re.V.(*regexp.Regexp).Match(b)), fd)
		return true
	case "(*regexp.Regexp).FindStringSubmatch":
		re, ok := args[0].(*Native)
		if !ok {
			panic(goPanic{"runtime error: nil pointer dereference (regexp)"})
		}
		in, ok := args[1].(string)
		if !ok {
			panic(unsupported("regexp match on symbolic input"))
		}
		ms := re.V.(*regexp.Regexp).FindStringSubmatch(in)
		if ms == nil {
			e.finish(st, ci, &Slice{Nil: true}, fd)
			return true
		}
		arr := &Array{E: make([]Value, len(ms))}
		for i, m := range ms {
			arr.E[i] = m
		}
		e.finish(st, ci, &Slice{Obj: st.alloc(arr), Len: len(ms), Cap: len(ms)}, fd)
		return true
	case "github.com/cockroachdb/errors.WithStack":
		e.finish(st, ci, args[0], fd)
		return true
	case "github.com/cockroachdb/errors.Wrapf", "github.com/cockroachdb/errors.Wrap":
		if w, _ := args[0].(*Iface); w == nil {
			e.finish(st, ci, (*Iface)(nil), fd)
		} else {
			e.finish(st, ci, newErr("<wrapped>", w), fd)
		}
		return true
	case "github.com/cockroachdb/errors.As", "errors.As":
		if a, _ := args[0].(*Iface); a == nil {
			e.finish(st, ci, Bool(false), fd)
			return true
		}
		if _, ok := args[0].(*Iface).V.(*ErrObj); ok {
			e.finish(st, ci, Bool(false), fd)
			return true
		}
		panic(unsupported("errors.As on a non-nil error value"))
	case "github.com/cockroachdb/errors.Is", "errors.Is":
		a, _ := args[0].(*Iface)
		b, _ := args[1].(*Iface)
		r := false
		for a != nil && b != nil {
			ea, ok1 := a.V.(*ErrObj)
			eb, ok2 := b.V.(*ErrObj)
			if ok1 && ok2 && ea.ID == eb.ID {
				r = true
				break
			}
			if !ok1 && !ok2 {
				if t := eqValues(a, b); t.IsConst() && t.C == 1 {
					r = true
					break
				}
			}
			if ok1 {
				a, _ = ea.Wrap.(*Iface)
				continue
			}
			// real error values: *fs.PathError and friends wrap through field Err
			next := (*Iface)(nil)
			if pt, ok := a.T.(*types.Pointer); ok {
				if stt, ok := pt.Elem().Underlying().(*types.Struct); ok {
					if p, _ := a.V.(*Ptr); p != nil {
						for i := 0; i < stt.NumFields(); i++ {
							if stt.Field(i).Name() == "Err" {
								next, _ = st.load(&Ptr{Obj: p.Obj, Path: appendPath(p.Path, i)}).(*Iface)
							}
						}
					}
				}
			}
			a = next
		}
		e.finish(st, ci, Bool(r), fd)
		return true
	case "github.com/lni/goutils/logutil.DescribeNode", "github.com/lni/goutils/logutil.ReplicaID",
		"github.com/lni/goutils/logutil.ShardID", "github.com/lni/goutils/logutil.DescribeSM",
		"github.com/lni/goutils/logutil.DescribeSS":
		e.finish(st, ci, "<id>", fd)
		return true
	case "(*github.com/lni/goutils/random.LockedRand).Uint64":
		e.finish(st, ci, e.newVar(st, "rand", 64), fd)
		return true
	case "strings.EqualFold":
		e.finish(st, ci, Bool(strings.EqualFold(args[0].(string), args[1].(string))), fd)
		return true
	case "strings.TrimSpace":
		e.finish(st, ci, strings.TrimSpace(args[0].(string)), fd)
		return true
	case "(*sync.Pool).Put":
		pid := args[0].(*Ptr).Obj
		st.pools[pid] = append(append([]Value(nil), st.pools[pid]...), args[1])
		e.finish(st, ci, nil, fd)
		return true
	case "(*sync.Pool).Get":
		p := args[0].(*Ptr)
		if l := st.pools[p.Obj]; len(l) > 0 {
			st.pools[p.Obj] = l[:len(l)-1]
			e.finish(st, ci, l[len(l)-1], fd)
			return true
		}
		pv := st.load(p).(*Struct)
		stt := fn.Signature.Recv().Type().(*types.Pointer).Elem().Underlying().(*types.Struct)
		for i := 0; i < stt.NumFields(); i++ {
			if stt.Field(i).Name() == "New" {
				nf, _ := pv.F[i].(*Func)
				if nf == nil {
					e.finish(st, ci, (*Iface)(nil), fd)
				} else {
					e.invoke(st, nf, nil, ci, fd)
				}
				return true
			}
		}
		panic("sync.Pool.New not found")
	case "github.com/cespare/xxhash/v2.Sum64":
		// native for concrete input; otherwise an uninterpreted function of the
		// bytes (no detection axiom: xxhash is not a CRC)
		if b, ok := e.concreteBytes(st, args[0]); ok {
			e.finish(st, ci, Const(64, xxh64(b)), fd)
			return true
		}
		var ts []*Term
		for _, v := range e.sliceElems(st, args[0].(*Slice)) {
			ts = append(ts, v.(*Term))
		}
		// (the low 32 bits, Tan's record checksum, are taken to be non-zero: a zero
		// checksum is the zeroed-chunk marker only together with a zero length,
		// so nothing but a case split is lost)
		h := UF(fmt.Sprintf("xxh64_%d", len(ts)), 64, ts...)
		st.pc = append(st.pc, Not(Cmp("=", Extract(31, 0, h), Const(32, 0))))
		e.finish(st, ci, h, fd)
		return true
	case "crypto/md5.New":
		dt := fn.Pkg.Type("digest").Type()
		id := st.alloc(zero(dt))
		st.hashBuf[id] = nil
		e.finish(st, ci, &Iface{T: types.NewPointer(dt), V: &Ptr{Obj: id}}, fd)
		return true
	case "(*crypto/md5.digest).Reset":
		st.hashBuf[args[0].(*Ptr).Obj] = nil
		e.finish(st, ci, nil, fd)
		return true
	case "(*crypto/md5.digest).Write":
		id := args[0].(*Ptr).Obj
		sl := args[1].(*Slice)
		st.hashBuf[id] = append(append([]Value(nil), st.hashBuf[id]...), e.sliceElems(st, sl)...)
		e.finish(st, ci, &Tuple{V: []Value{Const(64, uint64(sl.Len)), (*Iface)(nil)}}, fd)
		return true
	case "(*crypto/md5.digest).Sum":
		sum := e.md5Model(st.hashBuf[args[0].(*Ptr).Obj])
		in := args[1].(*Slice)
		arr := &Array{E: append(append([]Value(nil), e.sliceElems(st, in)...), sum...)}
		e.finish(st, ci, &Slice{Obj: st.alloc(arr), Len: len(arr.E), Cap: len(arr.E)}, fd)
		return true
	case "hash/crc32.NewIEEE", "hash/crc32.New":
		dt := fn.Pkg.Type("digest").Type()
		id := st.alloc(zero(dt))
		st.hashBuf[id] = nil
		e.finish(st, ci, &Iface{T: types.NewPointer(dt), V: &Ptr{Obj: id}}, fd)
		return true
	case "hash/crc32.MakeTable":
		// an opaque table object that remembers its polynomial
		id := st.alloc(&Array{E: []Value{args[0]}})
		e.finish(st, ci, &Ptr{Obj: id}, fd)
		return true
	case "hash/crc32.Update", "hash/crc32.Checksum":
		var crc *Term
		var tab *Ptr
		var sl *Slice
		if name == "hash/crc32.Update" {
			crc, tab, sl = args[0].(*Term), args[1].(*Ptr), args[2].(*Slice)
		} else {
			crc, sl, tab = Const(32, 0), args[0].(*Slice), args[1].(*Ptr)
		}
		poly := uint64(crc32.IEEE)
		known := false
		if tab != nil && tab.Obj != 0 {
			if a, ok := st.heap[tab.Obj].(*Array); ok && len(a.E) == 1 {
				if t, ok := a.E[0].(*Term); ok && t.IsConst() {
					poly, known = t.C, true
				}
			}
		}
		if !known {
			panic(unsupported("crc32 table of unknown origin (package not initialised?)"))
		}
		if b, ok := e.concreteBytes(st, sl); ok && crc.IsConst() {
			e.finish(st, ci, Const(32, uint64(crc32.Update(uint32(crc.C), crc32.MakeTable(uint32(poly)), b))), fd)
			return true
		}
		ts := []*Term{crc}
		for _, v := range e.sliceElems(st, sl) {
			ts = append(ts, v.(*Term))
		}
		e.finish(st, ci, UF(fmt.Sprintf("crc32p%x_%d", poly, len(ts)), 32, ts...), fd)
		return true
	case "(*hash/crc32.digest).Reset":
		st.hashBuf[args[0].(*Ptr).Obj] = nil
		e.finish(st, ci, nil, fd)
		return true
	case "(*hash/crc32.digest).Write":
		id := args[0].(*Ptr).Obj
		sl := args[1].(*Slice)
		nb := append(append([]Value(nil), st.hashBuf[id]...), e.sliceElems(st, sl)...)
		st.hashBuf[id] = nb
		e.finish(st, ci, &Tuple{V: []Value{Const(64, uint64(sl.Len)), (*Iface)(nil)}}, fd)
		return true
	case "(*hash/crc32.digest).Sum32", "hash/crc32.ChecksumIEEE":
		var bs []Value
		if name == "hash/crc32.ChecksumIEEE" {
			bs = e.sliceElems(st, args[0].(*Slice))
		} else {
			bs = st.hashBuf[args[0].(*Ptr).Obj]
		}
		e.finish(st, ci, e.crcModel(st, bs), fd)
		return true
	case "(*hash/crc32.digest).Sum":
		h := e.crcModel(st, st.hashBuf[args[0].(*Ptr).Obj])
		in := args[1].(*Slice)
		add := []Value{Extract(31, 24, h), Extract(23, 16, h), Extract(15, 8, h), Extract(7, 0, h)}
		arr := &Array{E: append(append([]Value(nil), e.sliceElems(st, in)...), add...)}
		e.finish(st, ci, &Slice{Obj: st.alloc(arr), Len: len(arr.E), Cap: len(arr.E)}, fd)
		return true
	case "bytes.Equal":
		a, b := args[0].(*Slice), args[1].(*Slice)
		if a.Len != b.Len {
			e.finish(st, ci, Bool(false), fd)
			return true
		}
		r := Bool(true)
		ea, eb := e.sliceElems(st, a), e.sliceElems(st, b)
		for i := range ea {
			r = And(r, Cmp("=", ea[i].(*Term), eb[i].(*Term)))
		}
		e.finish(st, ci, r, fd)
		return true
	case "(time.Time).UnixNano":
		// wall-clock timestamps only end up in diagnostic header fields
		// ("UnreliableTime"): a fixed, realistic value; VERIF_TIME=symbolic makes it a variable
		if os.Getenv("VERIF_TIME") == "symbolic" {
			e.finish(st, ci, e.newVar(st, "nanotime", 64), fd)
			return true
		}
		e.finish(st, ci, Const(64, 1600000000000000000), fd)
		return true
	case "math.Ceil":
		e.finish(st, ci, math.Ceil(args[0].(float64)), fd)
		return true
	case "reflect.ValueOf":
		// only as a carrier (reflect.Select cases, Value.Interface)
		e.finish(st, ci, &Struct{F: []Value{args[0], (*Ptr)(nil), Const(64, 1)}}, fd)
		return true
	case "(reflect.Value).Interface":
		e.finish(st, ci, args[0].(*Struct).F[0], fd)
		return true
	case "time.NewTicker", "time.NewTimer":
		// a ticker / timer that does not fire within the modelled schedule
		pt := fn.Signature.Results().At(0).Type().(*types.Pointer)
		tv := zero(pt.Elem()).(*Struct)
		nf := append([]Value(nil), tv.F...)
		nf[0] = &ChanRef{Obj: st.alloc(&ChanVal{Cap: 1})}
		e.finish(st, ci, &Ptr{Obj: st.alloc(&Struct{F: nf})}, fd)
		return true
	case "(*time.Ticker).Stop":
		e.finish(st, ci, nil, fd)
		return true
	case "(*time.Timer).Stop":
		e.finish(st, ci, Bool(true), fd)
		return true
	case "time.Now":
		e.finish(st, ci, zero(fn.Signature.Results().At(0).Type()), fd)
		return true
	case "github.com/lni/dragonboat/v4/logger.GetLogger":
		e.finish(st, ci, (*Iface)(nil), fd)
		return true
	case "github.com/lni/dragonboat/v4/internal/settings.overwriteSoftSettings",
		"github.com/lni/dragonboat/v4/internal/settings.overwriteHardSettings":
		e.finish(st, ci, nil, fd)
		return true
	}
	if fn.Blocks == nil {
		panic(unsupported("no body: " + name))
	}
	return false
}

// crcModel returns a 32-bit term for the CRC of the byte sequence: native when
// concrete, otherwise an uninterpreted function with the one-byte-difference axiom
// instantiated against earlier applications of the same length.
func (e *Engine) crcModel(st *State, bs []Value) *Term {
	allc := true
	raw := make([]byte, len(bs))
	ts := make([]*Term, len(bs))
	for i, b := range bs {
		t := b.(*Term)
		ts[i] = t
		if !t.IsConst() {
			allc = false
		} else {
			raw[i] = byte(t.C)
		}
	}
	if allc {
		// remembered (short sequences only) so that a later application to a
		// partly symbolic sequence of the same length is related to this one by
		// the one-byte-difference axiom
		if len(ts) <= 128 {
			st.crcApps = append(st.crcApps, ts)
		}
		return Const(32, uint64(crc32.ChecksumIEEE(raw)))
	}
	h := UF(fmt.Sprintf("crc_%d", len(ts)), 32, ts...)
	for _, prev := range st.crcApps {
		if len(prev) != len(ts) {
			continue
		}
		prevConcrete := true
		praw := make([]byte, len(prev))
		for i := range prev {
			if !prev[i].IsConst() {
				prevConcrete = false
				break
			}
			praw[i] = byte(prev[i].C)
		}
		if prevConcrete {
			// a true fact about the function: its value on this concrete sequence
			st.pc = append(st.pc, Cmp("=", UF(fmt.Sprintf("crc_%d", len(ts)), 32, prev...), Const(32, uint64(crc32.ChecksumIEEE(praw)))))
		}
		same := true
		for i := range ts {
			if prev[i] != ts[i] {
				same = false
			}
		}
		if same {
			return h
		}
		// exactly one byte differs => different crc
		oneDiff := Bool(false)
		for i := range ts {
			c := Not(Cmp("=", ts[i], prev[i]))
			for j := range ts {
				if j != i {
					c = And(c, Cmp("=", ts[j], prev[j]))
				}
			}
			oneDiff = Or(oneDiff, c)
		}
		ph := UF(fmt.Sprintf("crc_%d", len(ts)), 32, prev...)
		ax := Or(Not(oneDiff), Not(Cmp("=", h, ph)))
		st.pc = append(st.pc, ax)
	}
	st.crcApps = append(st.crcApps, ts)
	return h
}

type pendAssert struct {
	c  *Term
	id string
}

// flushAsserts discharges the collected assertions. It returns false when one
// of them can be violated (the path then ends with a VIOLATION outcome).
func (e *Engine) flushAsserts(st *State) bool {
	if len(st.pendA) == 0 {
		return true
	}
	pend := st.pendA
	st.pendA = nil
	if !e.noAbs && !e.assertsToSolver {
		// quick tier: assertions the interval/difference-bound preprocessor proves
		// from the path condition are not sent to the SMT solver (the thorough tier
		// sends every assertion, and audits every preprocessor decision)
		kept := pend[:0:0]
		for _, p := range pend {
			if !p.c.IsFalse() && st.implied(p.c) == triTrue {
				e.absAsserts++
				if e.audit {
					if a := e.solver.Check(st.pc, Not(p.c)); a == "sat" {
						panic("ABSINT UNSOUND on assertion " + p.id)
					}
				}
				st.pc = append(st.pc, p.c)
				continue
			}
			kept = append(kept, p)
		}
		pend = kept
		if len(pend) == 0 {
			return true
		}
	}
	neg := Bool(false)
	for _, p := range pend {
		neg = Or(neg, Not(p.c))
	}
	e.assertQ++
	var r string
	if neg.IsTrue() {
		r = e.solver.Check(st.pc, nil)
	} else {
		r = e.feasible(st, neg)
		if r == "sat" && !e.noSlice {
			// a counterexample needs values for every variable
			r = e.solver.Check(st.pc, neg)
		}
	}
	switch r {
	case "unknown":
		panic(unsupported("solver unknown"))
	case "unsat":
		valid := st.modelValid()
		for _, p := range pend {
			st.pc = append(st.pc, p.c)
		}
		if valid {
			st.modelN = len(st.pc) // implied conjuncts: the model still fits
		}
		return true
	}
	// sat: find the first assertion that is false in the model
	// (evaluated under the model of the variables: an assertion term such as
	// (not X) is not itself a sub-term of the query and has no solver name)
	m := e.fetchModel(st)
	id := ""
	for _, p := range pend {
		if p.c.IsFalse() {
			id = p.id
			break
		}
		if v, ok := evalTerm(p.c, m, map[*Term]uint64{}); ok && v == 0 {
			id = p.id
			break
		}
	}
	if id == "" {
		// not evaluable (uninterpreted functions): ask the solver one by one
		for _, p := range pend {
			if e.solver.Check(st.pc, Not(p.c)) == "sat" {
				id = p.id
				break
			}
		}
		if id == "" {
			id = pend[len(pend)-1].id
		}
	}
	e.recordViolation(st, "assert", id)
	st.outcome = "VIOLATION " + id
	return false
}

// deepCopy copies a value together with the maps and slices it refers to.
func (e *Engine) deepCopy(st *State, v Value) Value {
	switch x := v.(type) {
	case *Struct:
		n := &Struct{F: make([]Value, len(x.F))}
		for i := range x.F {
			n.F[i] = e.deepCopy(st, x.F[i])
		}
		return n
	case *Array:
		n := &Array{E: make([]Value, len(x.E))}
		for i := range x.E {
			n.E[i] = e.deepCopy(st, x.E[i])
		}
		return n
	case *MapRef:
		if x.Obj == 0 {
			return x
		}
		mv := st.heap[x.Obj].(*MapVal)
		nm := &MapVal{K: make([]Value, len(mv.K)), V: make([]Value, len(mv.V))}
		for i := range mv.K {
			nm.K[i] = e.deepCopy(st, mv.K[i])
			nm.V[i] = e.deepCopy(st, mv.V[i])
		}
		return &MapRef{Obj: st.alloc(nm)}
	case *Slice:
		if x.Nil || x.Len == 0 {
			return x
		}
		el := e.sliceElems(st, x)
		arr := &Array{E: make([]Value, len(el))}
		for i := range el {
			arr.E[i] = e.deepCopy(st, el[i])
		}
		return &Slice{Obj: st.alloc(arr), Len: x.Len, Cap: x.Len}
	}
	return v
}

// concreteBytes returns the bytes of a string or a []byte value when all of
// them are concrete.
func (e *Engine) concreteBytes(st *State, v Value) ([]byte, bool) {
	switch x := v.(type) {
	case string:
		return []byte(x), true
	case *Slice:
		el := e.sliceElems(st, x)
		out := make([]byte, len(el))
		for i, b := range el {
			t, ok := b.(*Term)
			if !ok || !t.IsConst() {
				return nil, false
			}
			out[i] = byte(t.C)
		}
		return out, true
	}
	return nil, false
}

// bytealg evaluates the assembly-backed string/byte helpers natively on
// concrete arguments.
func (e *Engine) bytealg(st *State, short string, args []Value) (Value, bool) {
	var bs [][]byte
	var ints []int64
	for _, a := range args {
		if t, ok := a.(*Term); ok {
			if !t.IsConst() {
				return nil, false
			}
			ints = append(ints, int64(t.C))
			continue
		}
		b, ok := e.concreteBytes(st, a)
		if !ok {
			return nil, false
		}
		bs = append(bs, b)
	}
	i64 := func(v int) Value { return Const(64, uint64(int64(v))) }
	switch short {
	case "IndexByteString", "IndexByte":
		if len(bs) == 1 && len(ints) == 1 {
			return i64(bytes.IndexByte(bs[0], byte(ints[0]))), true
		}
	case "CountString", "Count":
		if len(bs) == 1 && len(ints) == 1 {
			return i64(bytes.Count(bs[0], []byte{byte(ints[0])})), true
		}
	case "IndexString", "Index":
		if len(bs) == 2 {
			return i64(bytes.Index(bs[0], bs[1])), true
		}
	case "Contains":
		if len(bs) == 2 {
			return Bool(bytes.Contains(bs[0], bs[1])), true
		}
	case "HasPrefix":
		if len(bs) == 2 {
			return Bool(bytes.HasPrefix(bs[0], bs[1])), true
		}
	case "HasSuffix":
		if len(bs) == 2 {
			return Bool(bytes.HasSuffix(bs[0], bs[1])), true
		}
	case "Equal":
		if len(bs) == 2 {
			return Bool(bytes.Equal(bs[0], bs[1])), true
		}
	case "Compare":
		if len(bs) == 2 {
			return i64(bytes.Compare(bs[0], bs[1])), true
		}
	}
	return nil, false
}

// nativeFormat runs fmt.Sprintf / fmt.Sprint natively when every argument is
// concrete; otherwise the result is the opaque string "<fmt>" (only ever used
// for log and panic messages in the code under test).
func (e *Engine) nativeFormat(st *State, which string, args []Value) string {
	var format string
	var rest Value
	if which == "Sprintf" {
		f, ok := args[0].(string)
		if !ok {
			return "<fmt>"
		}
		format = f
		rest = args[1]
	} else {
		rest = args[0]
	}
	var goArgs []interface{}
	verbs := formatVerbs(format)
	if sl, ok := rest.(*Slice); ok && sl != nil && sl.Len > 0 {
		for ai, a := range e.sliceElems(st, sl) {
			iv, _ := a.(*Iface)
			if iv == nil {
				goArgs = append(goArgs, nil)
				continue
			}
			verb := byte('v')
			if which == "Sprintf" && ai < len(verbs) {
				verb = verbs[ai]
			}
			if _, isErr := iv.V.(*ErrObj); !isErr && iv.T != nil && (verb == 'v' || verb == 's' || verb == 'q') {
				if sel := e.prog.MethodSets.MethodSet(iv.T).Lookup(nil, "String"); sel != nil {
					if t, isT := iv.V.(*Term); isT && !t.IsConst() {
						return "<fmt>"
					}
					if fn := e.prog.MethodValue(sel); fn != nil && fn.Blocks != nil && fn.Signature.Params().Len() == 0 {
						if s, ok := e.callNested(st, fn, []Value{iv.V}).(string); ok {
							goArgs = append(goArgs, s)
							continue
						}
						return "<fmt>"
					}
				}
			}
			switch x := iv.V.(type) {
			case string:
				goArgs = append(goArgs, x)
			case *Term:
				if !x.IsConst() {
					return "<fmt>"
				}
				switch {
				case x.W == 0:
					goArgs = append(goArgs, x.C == 1)
				case isSigned(iv.T):
					goArgs = append(goArgs, sext64(x.C, x.W))
				default:
					goArgs = append(goArgs, x.C)
				}
			case *ErrObj:
				goArgs = append(goArgs, fmt.Errorf("%s", x.Msg))
			case float64:
				goArgs = append(goArgs, x)
			default:
				return "<fmt>"
			}
		}
	}
	if which == "Sprintf" {
		return fmt.Sprintf(format, goArgs...)
	}
	return fmt.Sprint(goArgs...)
}

// formatVerbs returns the verb consuming each operand of a format string
// (explicit argument indexes are not used by the code under test).
func formatVerbs(f string) []byte {
	var out []byte
	for i := 0; i < len(f); i++ {
		if f[i] != '%' {
			continue
		}
		i++
		for i < len(f) && strings.IndexByte("+-# 0123456789.", f[i]) >= 0 {
			i++
		}
		if i >= len(f) {
			break
		}
		if f[i] == '*' {
			out = append(out, 'd')
			i++
			if i >= len(f) {
				break
			}
		}
		if f[i] != '%' {
			out = append(out, f[i])
		}
	}
	return out
}

// nativeStrings evaluates pure string / path helpers natively (strings are
// always concrete in the engine).
func (e *Engine) nativeStrings(st *State, name string, args []Value) (Value, bool) {
	str := func(i int) (string, bool) {
		if i >= len(args) {
			return "", false
		}
		s, ok := args[i].(string)
		return s, ok
	}
	strs := func(i int) ([]string, bool) {
		if i >= len(args) {
			return nil, false
		}
		sl, ok := args[i].(*Slice)
		if !ok {
			return nil, false
		}
		var out []string
		for _, v := range e.sliceElems(st, sl) {
			s, ok := v.(string)
			if !ok {
				return nil, false
			}
			out = append(out, s)
		}
		return out, true
	}
	mkSlice := func(ss []string) Value {
		arr := &Array{E: make([]Value, len(ss))}
		for i, s := range ss {
			arr.E[i] = s
		}
		return &Slice{Obj: st.alloc(arr), Len: len(ss), Cap: len(ss)}
	}
	a0, ok0 := str(0)
	a1, ok1 := str(1)
	switch name {
	case "strings.Join":
		if l, ok := strs(0); ok && ok1 {
			return strings.Join(l, a1), true
		}
		if sl, ok := args[0].(*Slice); ok && sl.Len == 0 && ok1 {
			return "", true
		}
	case "strings.Split":
		if ok0 && ok1 {
			return mkSlice(strings.Split(a0, a1)), true
		}
	case "strings.Fields":
		if ok0 {
			return mkSlice(strings.Fields(a0)), true
		}
	case "strings.ToLower":
		if ok0 {
			return strings.ToLower(a0), true
		}
	case "strings.ToUpper":
		if ok0 {
			return strings.ToUpper(a0), true
		}
	case "strings.TrimSuffix":
		if ok0 && ok1 {
			return strings.TrimSuffix(a0, a1), true
		}
	case "strings.TrimPrefix":
		if ok0 && ok1 {
			return strings.TrimPrefix(a0, a1), true
		}
	case "strings.Trim":
		if ok0 && ok1 {
			return strings.Trim(a0, a1), true
		}
	case "strings.TrimRight":
		if ok0 && ok1 {
			return strings.TrimRight(a0, a1), true
		}
	case "strings.TrimLeft":
		if ok0 && ok1 {
			return strings.TrimLeft(a0, a1), true
		}
	case "strings.ReplaceAll":
		if a2, ok2 := str(2); ok0 && ok1 && ok2 {
			return strings.ReplaceAll(a0, a1, a2), true
		}
	case "strings.LastIndex":
		if ok0 && ok1 {
			return Const(64, uint64(int64(strings.LastIndex(a0, a1)))), true
		}
	case "strings.Count":
		if ok0 && ok1 {
			return Const(64, uint64(int64(strings.Count(a0, a1)))), true
		}
	case "strings.Repeat":
		if n, ok := concreteInt(args[1]); ok && ok0 && n >= 0 && n < 1<<16 {
			return strings.Repeat(a0, n), true
		}
	case "path/filepath.Join":
		if l, ok := strs(0); ok {
			return filepath.Join(l...), true
		}
	case "path.Join":
		if l, ok := strs(0); ok {
			return path.Join(l...), true
		}
	case "path/filepath.Clean":
		if ok0 {
			return filepath.Clean(a0), true
		}
	case "path.Clean":
		if ok0 {
			return path.Clean(a0), true
		}
	case "path/filepath.Base":
		if ok0 {
			return filepath.Base(a0), true
		}
	case "path.Base":
		if ok0 {
			return path.Base(a0), true
		}
	case "path/filepath.Dir":
		if ok0 {
			return filepath.Dir(a0), true
		}
	case "path.Dir":
		if ok0 {
			return path.Dir(a0), true
		}
	case "path/filepath.Ext":
		if ok0 {
			return filepath.Ext(a0), true
		}
	case "path/filepath.IsAbs":
		if ok0 {
			return Bool(filepath.IsAbs(a0)), true
		}
	case "path/filepath.Rel":
		if ok0 && ok1 {
			r, err := filepath.Rel(a0, a1)
			var ev Value = (*Iface)(nil)
			if err != nil {
				ev = newErr(err.Error(), nil)
			}
			return &Tuple{V: []Value{r, ev}}, true
		}
	}
	return nil, false
}

// md5Model: native MD5 for concrete input, otherwise sixteen bytes cut from two
// uninterpreted 64-bit functions of the input (MD5 is only used for diagnostic
// hashes and flag-file self checks).
func (e *Engine) md5Model(bs []Value) []Value {
	raw := make([]byte, len(bs))
	ts := make([]*Term, len(bs))
	allc := true
	for i, b := range bs {
		t := b.(*Term)
		ts[i] = t
		if t.IsConst() {
			raw[i] = byte(t.C)
		} else {
			allc = false
		}
	}
	out := make([]Value, 16)
	if allc {
		s := md5.Sum(raw)
		for i := range out {
			out[i] = Const(8, uint64(s[i]))
		}
		return out
	}
	a := UF(fmt.Sprintf("md5a_%d", len(ts)), 64, ts...)
	b := UF(fmt.Sprintf("md5b_%d", len(ts)), 64, ts...)
	for i := 0; i < 8; i++ {
		out[i] = Extract(8*i+7, 8*i, a)
		out[8+i] = Extract(8*i+7, 8*i, b)
	}
	return out
}

// deepEqual models reflect.DeepEqual structurally (scalars compare as terms).
func (e *Engine) deepEqual(st *State, a, b Value, depth int) *Term {
	if depth > 20 {
		panic(unsupported("reflect.DeepEqual too deep"))
	}
	switch x := a.(type) {
	case *Iface:
		y, _ := b.(*Iface)
		if x == nil || y == nil {
			return Bool(x == nil && y == nil)
		}
		if !types.Identical(x.T, y.T) {
			return Bool(false)
		}
		return e.deepEqual(st, x.V, y.V, depth+1)
	case *Struct:
		y, ok := b.(*Struct)
		if !ok || len(x.F) != len(y.F) {
			return Bool(false)
		}
		r := Bool(true)
		for i := range x.F {
			r = And(r, e.deepEqual(st, x.F[i], y.F[i], depth+1))
		}
		return r
	case *Array:
		y, ok := b.(*Array)
		if !ok || len(x.E) != len(y.E) {
			return Bool(false)
		}
		r := Bool(true)
		for i := range x.E {
			r = And(r, e.deepEqual(st, x.E[i], y.E[i], depth+1))
		}
		return r
	case *Slice:
		y, ok := b.(*Slice)
		if !ok {
			return Bool(false)
		}
		if x.Nil != y.Nil || x.Len != y.Len {
			return Bool(false)
		}
		r := Bool(true)
		ex, ey := e.sliceElems(st, x), e.sliceElems(st, y)
		for i := range ex {
			r = And(r, e.deepEqual(st, ex[i], ey[i], depth+1))
		}
		return r
	case *MapRef:
		y, ok := b.(*MapRef)
		if !ok {
			return Bool(false)
		}
		if x.Obj == 0 || y.Obj == 0 {
			return Bool(x.Obj == 0 && y.Obj == 0)
		}
		mx, my := st.heap[x.Obj].(*MapVal), st.heap[y.Obj].(*MapVal)
		if len(mx.K) != len(my.K) {
			return Bool(false)
		}
		r := Bool(true)
		for i := range mx.K {
			found := Bool(false)
			for j := range my.K {
				found = Or(found, And(eqValues(mx.K[i], my.K[j]), e.deepEqual(st, mx.V[i], my.V[j], depth+1)))
			}
			r = And(r, found)
		}
		return r
	case *Ptr:
		y, ok := b.(*Ptr)
		if !ok {
			return Bool(false)
		}
		if x == nil || y == nil {
			return Bool(x == nil && y == nil)
		}
		if x.Obj == y.Obj && len(x.Path) == len(y.Path) {
			same := true
			for i := range x.Path {
				if x.Path[i] != y.Path[i] {
					same = false
				}
			}
			if same {
				return Bool(true)
			}
		}
		return e.deepEqual(st, st.load(x), st.load(y), depth+1)
	case *Func:
		y, _ := b.(*Func)
		return Bool(x == nil && y == nil)
	}
	return eqValues(a, b)
}
