package main

import (
	"bufio"
	"fmt"
	"io"
	"os/exec"
	"strconv"
	"strings"
	"time"
)

type Solver struct {
	cmd     *exec.Cmd
	in      io.WriteCloser
	out     *bufio.Reader
	stack   []*Term // asserted path condition (one push level each)
	ufs     map[string]bool
	Queries int
	Time    time.Duration
	log     io.Writer
}

func NewSolver() *Solver {
	cmd := exec.Command("z3", "-in", "-smt2")
	in, _ := cmd.StdinPipe()
	out, _ := cmd.StdoutPipe()
	cmd.Stderr = cmd.Stdout
	if err := cmd.Start(); err != nil {
		panic(err)
	}
	s := &Solver{cmd: cmd, in: in, out: bufio.NewReader(out), ufs: map[string]bool{}}
	s.send("(set-option :print-success false)")
	return s
}

func (s *Solver) send(l string) {
	if s.log != nil {
		fmt.Fprintln(s.log, l)
	}
	io.WriteString(s.in, l+"\n")
}

// define makes sure t (and its children) are defined at level 0.
// Definitions are emitted as define-fun at current level; to keep them global we
// always define before any push by popping everything first if needed.
func (s *Solver) collect(t *Term, out *[]*Term) {
	if t.defd || t.Op == "const" {
		return
	}
	for _, a := range t.Args {
		s.collect(a, out)
	}
	if !t.defd {
		t.defd = true
		*out = append(*out, t)
	}
}

func (s *Solver) ensure(ts ...*Term) {
	var todo []*Term
	for _, t := range ts {
		s.collect(t, &todo)
	}
	if len(todo) == 0 {
		return
	}
	// definitions must live at level 0: pop all, define, (stack re-pushed lazily)
	if len(s.stack) > 0 {
		s.send(fmt.Sprintf("(pop %d)", len(s.stack)))
		s.stack = s.stack[:0]
	}
	for _, t := range todo {
		switch t.Op {
		case "var":
			s.send(fmt.Sprintf("(declare-const %s %s)", t.Name, sortOf(t.W)))
		case "uf":
			if !s.ufs[t.Name] {
				s.ufs[t.Name] = true
				var ss []string
				for _, a := range t.Args {
					ss = append(ss, sortOf(a.W))
				}
				s.send(fmt.Sprintf("(declare-fun %s (%s) %s)", t.Name, strings.Join(ss, " "), sortOf(t.W)))
			}
			s.send(fmt.Sprintf("(define-fun t%d () %s %s)", t.id, sortOf(t.W), t.body()))
		default:
			s.send(fmt.Sprintf("(define-fun t%d () %s %s)", t.id, sortOf(t.W), t.body()))
		}
	}
}

func (s *Solver) sync(pc []*Term) {
	s.ensure(pc...)
	n := 0
	for n < len(pc) && n < len(s.stack) && pc[n] == s.stack[n] {
		n++
	}
	if n < len(s.stack) {
		s.send(fmt.Sprintf("(pop %d)", len(s.stack)-n))
		s.stack = s.stack[:n]
	}
	for _, t := range pc[n:] {
		s.send("(push 1)")
		s.send(fmt.Sprintf("(assert %s)", t.ref()))
		s.stack = append(s.stack, t)
	}
}

func (s *Solver) readLine() string {
	l, err := s.out.ReadString('\n')
	if err != nil {
		panic("solver died: " + err.Error())
	}
	return strings.TrimSpace(l)
}

// Check returns "sat","unsat","unknown"
func (s *Solver) Check(pc []*Term, extra *Term) string {
	t0 := time.Now()
	defer func() { s.Time += time.Since(t0); s.Queries++ }()
	if extra != nil {
		s.ensure(extra)
	}
	s.sync(pc)
	if extra != nil {
		s.send("(push 1)")
		s.send(fmt.Sprintf("(assert %s)", extra.ref()))
	}
	s.send("(check-sat)")
	r := s.readLine()
	for strings.HasPrefix(r, "(error") || r == "" {
		if strings.HasPrefix(r, "(error") {
			panic("solver error: " + r)
		}
		r = s.readLine()
	}
	if extra != nil && r != "sat" {
		s.send("(pop 1)")
	}
	if extra != nil && r == "sat" {
		// leave pushed so caller may get model; mark by pushing onto stack
		s.stack = append(s.stack, extra)
	}
	return r
}

// Model returns values for the given vars after a sat Check.
func (s *Solver) Model(vars []*Term) map[string]uint64 {
	m := map[string]uint64{}
	for _, v := range vars {
		if !v.defd {
			continue
		}
		s.send(fmt.Sprintf("(get-value (%s))", v.Name))
		l := s.readLine()
		for !strings.HasSuffix(l, "))") {
			l += s.readLine()
		}
		// ((name #x...)) or ((name true))
		i := strings.LastIndex(l, " ")
		val := strings.TrimSuffix(l[i+1:], "))")
		switch {
		case strings.HasPrefix(val, "#x"):
			u, _ := strconv.ParseUint(val[2:], 16, 64)
			m[v.Name] = u
		case strings.HasPrefix(val, "#b"):
			u, _ := strconv.ParseUint(val[2:], 2, 64)
			m[v.Name] = u
		case val == "true":
			m[v.Name] = 1
		case val == "false":
			m[v.Name] = 0
		default:
			panic("model parse: " + l)
		}
	}
	return m
}

func (s *Solver) Close() {
	s.send("(exit)")
	s.cmd.Wait()
}
