package main

import (
	"bufio"
	"fmt"
	"io"
	"os"
	"os/exec"
	"strconv"
	"strings"
	"time"
)

// Solver drives one long-lived SMT solver process (z3 -in by default) with
// push/pop aligned to the path condition of the state being explored.
type Solver struct {
	bin     []string
	cmd     *exec.Cmd
	in      io.WriteCloser
	out     *bufio.Reader
	stack   []*Term // asserted path condition (one push level each)
	ufs     map[string]bool
	defd    map[int]bool
	Queries int
	Sat     int
	Unsat   int
	Unknown int
	Time    time.Duration
	MaxQ    time.Duration
	log     io.Writer
	timeout int // ms per query
	lastErr string
	// when the primary solver answers unknown, the query is retried on a z3
	// process kept for that purpose; models then come from it
	fallback  *Solver
	useFB     bool
	Fallbacks int
	isFB      bool
}

func NewSolver(bin []string, timeoutMs int) *Solver {
	s := &Solver{bin: bin, timeout: timeoutMs}
	s.start()
	return s
}

func (s *Solver) start() {
	cmd := exec.Command(s.bin[0], s.bin[1:]...)
	in, _ := cmd.StdinPipe()
	out, _ := cmd.StdoutPipe()
	cmd.Stderr = cmd.Stdout
	if err := cmd.Start(); err != nil {
		panic(err)
	}
	s.cmd, s.in, s.out = cmd, in, bufio.NewReaderSize(out, 1<<16)
	s.ufs = map[string]bool{}
	s.defd = map[int]bool{}
	s.stack = nil
	s.send("(set-option :print-success false)")
	if strings.Contains(s.bin[0], "z3") {
		if s.timeout > 0 {
			s.send(fmt.Sprintf("(set-option :timeout %d)", s.timeout))
		}
	}
	// terms are bit-vectors, Booleans and uninterpreted functions only
	s.send("(set-logic QF_UFBV)")
}

func (s *Solver) send(l string) {
	if s.log != nil {
		fmt.Fprintln(s.log, l)
	}
	io.WriteString(s.in, l+"\n")
}

func (s *Solver) collect(t *Term, out *[]*Term) {
	if t.Op == "const" || s.defd[t.id] {
		return
	}
	for _, a := range t.Args {
		s.collect(a, out)
	}
	if !s.defd[t.id] {
		s.defd[t.id] = true
		*out = append(*out, t)
	}
}

// ensure declares/defines t and its sub-terms at solver level 0.
func (s *Solver) ensure(ts ...*Term) {
	var todo []*Term
	for _, t := range ts {
		s.collect(t, &todo)
	}
	if len(todo) == 0 {
		return
	}
	// definitions must live at level 0: pop all, define, (stack re-pushed lazily)
	if len(s.stack) > 0 {
		s.send(fmt.Sprintf("(pop %d)", len(s.stack)))
		s.stack = s.stack[:0]
	}
	for _, t := range todo {
		switch t.Op {
		case "var":
			s.send(fmt.Sprintf("(declare-const %s %s)", t.Name, sortOf(t.W)))
		case "uf":
			if !s.ufs[t.Name] {
				s.ufs[t.Name] = true
				var ss []string
				for _, a := range t.Args {
					ss = append(ss, sortOf(a.W))
				}
				s.send(fmt.Sprintf("(declare-fun %s (%s) %s)", t.Name, strings.Join(ss, " "), sortOf(t.W)))
			}
			s.send(fmt.Sprintf("(define-fun t%d () %s %s)", t.id, sortOf(t.W), t.body()))
		default:
			s.send(fmt.Sprintf("(define-fun t%d () %s %s)", t.id, sortOf(t.W), t.body()))
		}
	}
}

func (s *Solver) sync(pc []*Term) {
	s.ensure(pc...)
	n := 0
	for n < len(pc) && n < len(s.stack) && pc[n] == s.stack[n] {
		n++
	}
	if n < len(s.stack) {
		s.send(fmt.Sprintf("(pop %d)", len(s.stack)-n))
		s.stack = s.stack[:n]
	}
	for _, t := range pc[n:] {
		s.send("(push 1)")
		s.send(fmt.Sprintf("(assert %s)", t.ref()))
		s.stack = append(s.stack, t)
	}
}

func (s *Solver) readLine() string {
	l, err := s.out.ReadString('\n')
	if err != nil {
		panic("solver died: " + err.Error())
	}
	return strings.TrimSpace(l)
}

// Check returns "sat","unsat","unknown". Any "(error" line from the solver
// makes the answer "unknown" (and is remembered in lastErr): an answer given
// after a rejected assertion is not trusted.
func (s *Solver) Check(pc []*Term, extra *Term) string {
	s.useFB = false
	r := s.check1(pc, extra)
	if r != "unknown" || s.isFB {
		return r
	}
	if s.fallback == nil {
		to := s.timeout * 3
		s.fallback = &Solver{bin: []string{"z3", "-in", "-smt2"}, timeout: to, isFB: true}
		s.fallback.start()
	}
	t0 := time.Now()
	r2 := s.fallback.check1(pc, extra)
	s.Time += time.Since(t0)
	s.Fallbacks++
	if r2 != "unknown" {
		s.Unknown--
		if r2 == "sat" {
			s.Sat++
			s.useFB = true
		} else {
			s.Unsat++
		}
	}
	return r2
}

func (s *Solver) check1(pc []*Term, extra *Term) string {
	t0 := time.Now()
	if extra != nil {
		s.ensure(extra)
	}
	s.sync(pc)
	if extra != nil {
		s.send("(push 1)")
		s.send(fmt.Sprintf("(assert %s)", extra.ref()))
	}
	s.send("(check-sat)")
	s.send("(echo \"#done\")")
	r := ""
	bad := false
	for {
		l := s.readLine()
		if l == "#done" || l == "\"#done\"" {
			break
		}
		if strings.HasPrefix(l, "(error") {
			bad = true
			s.lastErr = l
			continue
		}
		if l == "sat" || l == "unsat" || l == "unknown" || l == "timeout" {
			r = l
		}
	}
	if bad || r == "" || r == "timeout" {
		r = "unknown"
	}
	if r == "unknown" {
		if d := os.Getenv("VERIF_DUMP_UNKNOWN"); d != "" {
			var sb strings.Builder
			for _, t := range append(append([]*Term(nil), pc...), extra) {
				if t != nil {
					sb.WriteString("(assert " + t.String() + ")\n")
				}
			}
			os.WriteFile(fmt.Sprintf("%s/unknown_%d_%d.txt", d, os.Getpid(), s.Queries), []byte(sb.String()), 0o644)
		}
	}
	if extra != nil && r != "sat" {
		s.send("(pop 1)")
	}
	if extra != nil && r == "sat" {
		// leave pushed so the caller may get a model; track it on the stack
		s.stack = append(s.stack, extra)
	}
	d := time.Since(t0)
	if d > 20*time.Millisecond && os.Getenv("VERIF_SLOWQ") != "" {
		x := ""
		if extra != nil {
			x = extra.String()
		}
		fmt.Fprintf(os.Stderr, "SLOWQ %v depth %d %s: %.300s\n", d, len(pc), r, x)
	}
	s.Time += d
	if d > s.MaxQ {
		s.MaxQ = d
	}
	s.Queries++
	switch r {
	case "sat":
		s.Sat++
	case "unsat":
		s.Unsat++
	default:
		s.Unknown++
	}
	return r
}

func parseVal(val string) (uint64, bool) {
	switch {
	case strings.HasPrefix(val, "#x"):
		u, err := strconv.ParseUint(val[2:], 16, 64)
		return u, err == nil
	case strings.HasPrefix(val, "#b"):
		u, err := strconv.ParseUint(val[2:], 2, 64)
		return u, err == nil
	case val == "true":
		return 1, true
	case val == "false":
		return 0, true
	case strings.HasPrefix(val, "(_ bv"):
		f := strings.Fields(val[5:])
		u, err := strconv.ParseUint(f[0], 10, 64)
		return u, err == nil
	}
	return 0, false
}

// Values returns the model values of the given terms after a sat Check.
func (s *Solver) Values(ts []*Term) []uint64 {
	if s.useFB && s.fallback != nil {
		return s.fallback.Values(ts)
	}
	out := make([]uint64, len(ts))
	for i, v := range ts {
		if v.Op == "const" {
			out[i] = v.C
			continue
		}
		if !s.defd[v.id] {
			continue // never reached the solver: unconstrained, 0 is a model value
		}
		s.send(fmt.Sprintf("(get-value (%s))", v.ref()))
		l := s.readLine()
		for strings.Count(l, "(") != strings.Count(l, ")") || l == "" {
			l += " " + s.readLine()
		}
		if strings.HasPrefix(l, "(error") {
			continue
		}
		// ((name value))
		inner := strings.TrimSuffix(strings.TrimPrefix(l, "(("), "))")
		i2 := strings.Index(inner, " ")
		if i2 < 0 {
			continue
		}
		val := strings.TrimSpace(inner[i2+1:])
		if u, ok := parseVal(val); ok {
			out[i] = u
		}
	}
	return out
}

func (s *Solver) Close() {
	if s.fallback != nil {
		s.fallback.Close()
	}
	s.send("(exit)")
	done := make(chan struct{})
	go func() { s.cmd.Wait(); close(done) }()
	select {
	case <-done:
	case <-time.After(2 * time.Second):
		s.cmd.Process.Kill()
	}
}
