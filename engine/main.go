package main

import (
	"crypto/sha1"
	"encoding/json"
	"flag"
	"fmt"
	"go/ast"
	"go/parser"
	"go/token"
	"go/types"
	"os"
	"os/exec"
	"os/signal"
	"path/filepath"
	"regexp"
	"runtime"
	"sort"
	"strconv"
	"strings"
	"sync"
	"syscall"
	"time"

	"golang.org/x/tools/go/packages"
	"golang.org/x/tools/go/ssa"
	"golang.org/x/tools/go/ssa/ssautil"
)

var (
	verifDir = envOr("VERIF_DIR", "/verif")
	repoDir  = envOr("VERIF_REPO", "/repo")
)

func envOr(k, d string) string {
	if v := os.Getenv(k); v != "" {
		return v
	}
	return d
}

// ---------------------------------------------------------------------------
// harness discovery

type HarnessSpec struct {
	Name  string
	Props []string
	Tiers []string
	// passing paths are not sampled for the native translator validation (the
	// harness says why; counterexamples are still replayed natively)
	NoSelftest bool
	Steps      int
	Workers    int
	Switches   int
	Policy     Policy
	Replay     string // native | symbolic
	Bounds     []string
	TimeoutS   int
	QueryMs    int
}

type Group struct {
	Dir     string // repo-relative package dir ("." for root)
	PkgName string
	Files   []string // absolute harness file paths
	Inits   []string
	Scales  [][3]string // file, const name, new value
	Tags    string      // build tags the package is loaded (and natively replayed) with
	Entries []*HarnessSpec
	Bounds  []string
	Assumes []string
	Stubs   []string
}

func splitAttrs(s string) map[string]string {
	out := map[string]string{}
	i := 0
	for i < len(s) {
		for i < len(s) && (s[i] == ' ' || s[i] == '\t') {
			i++
		}
		j := i
		for j < len(s) && s[j] != '=' && s[j] != ' ' {
			j++
		}
		if j >= len(s) || s[j] != '=' {
			if j > i {
				out[s[i:j]] = "true"
			}
			i = j
			continue
		}
		key := s[i:j]
		j++
		var val string
		if j < len(s) && s[j] == '"' {
			k := j + 1
			for k < len(s) && s[k] != '"' {
				k++
			}
			val = s[j+1 : k]
			i = k + 1
		} else {
			k := j
			for k < len(s) && s[k] != ' ' {
				k++
			}
			val = s[j:k]
			i = k
		}
		if old, ok := out[key]; ok && (key == "allow" || key == "forbid" || key == "reach" || key == "bounds") {
			sep := "|"
			if key == "reach" {
				sep = ","
			}
			val = old + sep + val
		}
		out[key] = val
	}
	return out
}

func discover() (map[string]*Group, error) {
	groups := map[string]*Group{}
	root := filepath.Join(verifDir, "harness")
	err := filepath.Walk(root, func(p string, info os.FileInfo, err error) error {
		if err != nil {
			return err
		}
		if info.IsDir() {
			if strings.HasPrefix(info.Name(), "_") {
				return filepath.SkipDir
			}
			return nil
		}
		if !strings.HasSuffix(p, ".go") {
			return nil
		}
		rel, _ := filepath.Rel(root, filepath.Dir(p))
		dir := rel
		if rel == "ROOT" {
			dir = "."
		}
		g := groups[dir]
		if g == nil {
			g = &Group{Dir: dir}
			groups[dir] = g
		}
		g.Files = append(g.Files, p)
		fset := token.NewFileSet()
		f, err := parser.ParseFile(fset, p, nil, parser.ParseComments)
		if err != nil {
			return fmt.Errorf("parse %s: %v", p, err)
		}
		g.PkgName = f.Name.Name
		for _, cg := range f.Comments {
			for _, c := range cg.List {
				t := c.Text
				switch {
				case strings.HasPrefix(t, "//vcheck:init "):
					for _, ip := range strings.Split(strings.TrimSpace(t[len("//vcheck:init "):]), ",") {
						if ip = strings.TrimSpace(ip); ip != "" && !contains(g.Inits, ip) {
							g.Inits = append(g.Inits, ip)
						}
					}
				case strings.HasPrefix(t, "//vcheck:scale "):
					fs := strings.Fields(t[len("//vcheck:scale "):])
					if len(fs) == 3 {
						g.Scales = append(g.Scales, [3]string{fs[0], fs[1], fs[2]})
					}
				case strings.HasPrefix(t, "//vcheck:tags "):
					g.Tags = strings.TrimSpace(t[len("//vcheck:tags "):])
				case strings.HasPrefix(t, "//vcheck:bounds "):
					g.Bounds = append(g.Bounds, strings.TrimSpace(t[len("//vcheck:bounds "):]))
				case strings.HasPrefix(t, "//vcheck:assume "):
					g.Assumes = append(g.Assumes, strings.TrimSpace(t[len("//vcheck:assume "):]))
				case strings.HasPrefix(t, "//vcheck:stub "):
					g.Stubs = append(g.Stubs, strings.TrimSpace(t[len("//vcheck:stub "):]))
				}
			}
		}
		for _, d := range f.Decls {
			fd, ok := d.(*ast.FuncDecl)
			if !ok || fd.Recv != nil || !strings.HasPrefix(fd.Name.Name, "VHarness_") {
				continue
			}
			hs := &HarnessSpec{Name: fd.Name.Name, Tiers: []string{"quick", "thorough"}, Steps: 400000, Workers: 8, Switches: 3, Replay: "native"}
			parts := strings.Split(fd.Name.Name, "_")
			if len(parts) >= 2 {
				hs.Props = []string{parts[1]}
			}
			attrs := ""
			if fd.Doc != nil {
				for _, c := range fd.Doc.List {
					// gofmt rewrites "//vcheck: x" in doc comments to "// vcheck: x"
					t := strings.TrimPrefix(strings.TrimPrefix(c.Text, "//"), " ")
					if strings.HasPrefix(t, "vcheck:") {
						attrs += " " + strings.TrimPrefix(t, "vcheck:")
					}
				}
			}
			am := splitAttrs(attrs)
			for k, v := range am {
				switch k {
				case "props":
					for _, x := range strings.Split(v, ",") {
						if !contains(hs.Props, x) {
							hs.Props = append(hs.Props, x)
						}
					}
				case "tier":
					hs.Tiers = strings.Split(v, ",")
				case "steps":
					hs.Steps, _ = strconv.Atoi(v)
				case "workers":
					hs.Workers, _ = strconv.Atoi(v)
				case "switches":
					hs.Switches, _ = strconv.Atoi(v)
				case "reach":
					hs.Policy.Reach = strings.Split(v, ",")
				case "allow":
					for _, x := range strings.Split(v, "|") {
						hs.Policy.AllowPanics = append(hs.Policy.AllowPanics, regexp.MustCompile(x))
					}
				case "forbid":
					for _, x := range strings.Split(v, "|") {
						hs.Policy.ForbidPanics = append(hs.Policy.ForbidPanics, regexp.MustCompile(x))
					}
				case "runtime":
					hs.Policy.RuntimePanics = v
				case "deadlock":
					hs.Policy.Deadlock = v
				case "selftest":
					hs.NoSelftest = v == "off"
				case "replay":
					hs.Replay = v
				case "bounds":
					hs.Bounds = append(hs.Bounds, strings.Split(v, "|")...)
				case "timeout":
					hs.TimeoutS, _ = strconv.Atoi(v)
				case "queryms":
					hs.QueryMs, _ = strconv.Atoi(v)
				default:
					return fmt.Errorf("%s: unknown vcheck attribute %q on %s", p, k, fd.Name.Name)
				}
			}
			g.Entries = append(g.Entries, hs)
		}
		return nil
	})
	return groups, err
}

func contains(l []string, s string) bool {
	for _, x := range l {
		if x == s {
			return true
		}
	}
	return false
}

// ---------------------------------------------------------------------------
// loading

type Loaded struct {
	prog    *ssa.Program
	pkg     *ssa.Package
	overlay map[string][]byte
	scaled  []string
	loadS   float64
}

func goEnv() []string {
	return append(os.Environ(), "GOFLAGS=-mod=mod", "GOPROXY=off", "GOSUMDB=off", "GOTOOLCHAIN=local")
}

func buildOverlay(g *Group, native bool) (map[string][]byte, []string, error) {
	ov := map[string][]byte{}
	var scaled []string
	base := filepath.Join(repoDir, g.Dir)
	ov[filepath.Join(base, "zz_verif_prelude.go")] = []byte(strings.Replace(preludeSrc, "PKGNAME", g.PkgName, 1))
	for _, f := range g.Files {
		b, err := os.ReadFile(f)
		if err != nil {
			return nil, nil, err
		}
		ov[filepath.Join(base, "zz_verif_"+filepath.Base(f))] = b
	}
	// development aid (never set by the registered commands): modified copies
	// of repository files, see below
	extra := map[string]string{}
	for _, kv := range strings.Split(os.Getenv("VERIF_EXTRA_OVERLAY"), ",") {
		if p := strings.SplitN(kv, "=", 2); len(p) == 2 {
			extra[p[0]] = p[1]
		}
	}
	for _, sc := range g.Scales {
		p := filepath.Join(repoDir, sc[0])
		src := p
		if x, ok := extra[p]; ok {
			src = x // scale the modified copy
			scaled = append(scaled, "DEVELOPMENT OVERLAY (not /repo's file): "+p)
			delete(extra, p)
		}
		b, err := os.ReadFile(src)
		if err != nil {
			return nil, nil, fmt.Errorf("scale: %v", err)
		}
		re := regexp.MustCompile(`(?m)^(\s*(?:const\s+|var\s+)?` + regexp.QuoteMeta(sc[1]) + `\s*(?:[A-Za-z0-9_.]+\s*)?=\s*)([^\n]+)$`)
		m := re.FindSubmatchIndex(b)
		if m == nil {
			return nil, nil, fmt.Errorf("scale: definition of %s not found in %s", sc[1], sc[0])
		}
		old := string(b[m[4]:m[5]])
		nb := append(append(append([]byte(nil), b[:m[4]]...), []byte(sc[2])...), b[m[5]:]...)
		ov[p] = nb
		scaled = append(scaled, fmt.Sprintf("scaled: %s in %s: %s -> %s", sc[1], sc[0], strings.TrimSpace(old), sc[2]))
	}
	// development aid (never set by the registered commands): run the checks
	// against modified copies of repository files without touching /repo
	for dst, src := range extra {
		b, err := os.ReadFile(src)
		if err != nil {
			return nil, nil, err
		}
		if _, dup := ov[dst]; dup {
			return nil, nil, fmt.Errorf("extra overlay collides with a generated file: %s", dst)
		}
		ov[dst] = b
		scaled = append(scaled, "DEVELOPMENT OVERLAY (not /repo's file): "+dst)
	}
	return ov, scaled, nil
}

func load(g *Group) (*Loaded, error) {
	t0 := time.Now()
	ov, scaled, err := buildOverlay(g, false)
	if err != nil {
		return nil, err
	}
	cfg := &packages.Config{Mode: packages.LoadAllSyntax, Dir: repoDir, Env: goEnv(), Overlay: ov}
	if g.Tags != "" {
		cfg.BuildFlags = []string{"-tags=" + g.Tags}
		scaled = append(scaled, "build tags: "+g.Tags)
	}
	pat := "./" + g.Dir
	if g.Dir == "." {
		pat = "."
	}
	pkgs, err := packages.Load(cfg, pat)
	if err != nil {
		return nil, err
	}
	var errs []string
	packages.Visit(pkgs, nil, func(p *packages.Package) {
		for _, e := range p.Errors {
			errs = append(errs, e.Error())
		}
	})
	if len(errs) > 0 {
		if len(errs) > 8 {
			errs = errs[:8]
		}
		return nil, fmt.Errorf("package errors: %s", strings.Join(errs, "; "))
	}
	prog, spkgs := ssautil.AllPackages(pkgs, ssa.InstantiateGenerics)
	prog.Build()
	return &Loaded{prog: prog, pkg: spkgs[0], overlay: ov, scaled: scaled, loadS: time.Since(t0).Seconds()}, nil
}

// solverCmd returns the solver command line. cvc5 (incremental) is the default
// back end: on the path-condition workloads of this engine it answers about
// four times faster than z3 4.8.12; VERIF_SOLVER=z3|z3-new selects z3, which
// the thorough tier also uses to cross-check every counterexample-free run.
func solverCmd(timeoutMs int) []string {
	switch os.Getenv("VERIF_SOLVER") {
	case "z3":
		return []string{"z3", "-in", "-smt2"}
	case "z3-new":
		return []string{"z3-new", "-in", "-smt2"}
	}
	return []string{"cvc5", "--incremental", "--produce-models", "--lang=smt2", fmt.Sprintf("--tlimit-per=%d", timeoutMs)}
}

func solverName() string {
	if s := os.Getenv("VERIF_SOLVER"); s != "" {
		return s
	}
	return "cvc5"
}

// defaultInits are standard-library packages whose package-level variables
// (io.EOF, bytes.ErrTooLarge, ...) the interpreted code compares against.
var defaultInits = []string{"internal/oserror", "io", "bytes", "bufio", "encoding/binary", "io/fs", "github.com/cockroachdb/errors/oserror", "github.com/lni/vfs", "github.com/golang/snappy"}

// initFuncs returns the package initialisers to interpret before a harness
// runs: a few standard-library packages whose variables are compared against,
// then every package of the module under test that the harness package
// imports (transitively, dependencies first), then anything listed explicitly.
// A global of a package that is not initialised reads as its zero value.
func initFuncs(prog *ssa.Program, root *ssa.Package, list []string) ([]*ssa.Function, []string) {
	var inits []*ssa.Function
	var errs []string
	seen := map[string]bool{}
	add := func(ip string) {
		if seen[ip] {
			return
		}
		seen[ip] = true
		if p := prog.ImportedPackage(ip); p != nil {
			if f := p.Func("init"); f != nil {
				inits = append(inits, f)
			}
		}
	}
	for _, ip := range defaultInits {
		add(ip)
	}
	if root != nil {
		const mod = "github.com/lni/dragonboat/v4"
		var visit func(p *types.Package)
		done := map[*types.Package]bool{}
		visit = func(p *types.Package) {
			if done[p] {
				return
			}
			done[p] = true
			for _, q := range p.Imports() {
				visit(q)
			}
			path := p.Path()
			if strings.HasPrefix(path, mod) && !noAutoInit[path] {
				add(path)
			}
		}
		visit(root.Pkg)
	}
	for _, ip := range list {
		if prog.ImportedPackage(ip) == nil {
			errs = append(errs, "init: no package "+ip)
			continue
		}
		add(ip)
	}
	return inits, errs
}

// packages of the module whose initialisers reach code the engine does not
// model (none of the encoded paths reads their variables)
var noAutoInit = map[string]bool{
	"github.com/lni/dragonboat/v4/plugin/chan": true,
}

// ---------------------------------------------------------------------------
// known findings

type KnownFinding struct {
	Property string              `json:"property"`
	Harness  string              `json:"harness"`
	ID       string              `json:"id"`
	Where    map[string][]uint64 `json:"where,omitempty"` // variable base name -> admissible values
	Text     string              `json:"text"`
}
type KnownFile struct {
	Findings []KnownFinding `json:"findings"`
	Fixed    []string       `json:"fixed"`
}

func loadKnown() KnownFile {
	var kf KnownFile
	b, err := os.ReadFile(filepath.Join(verifDir, "KNOWN_FINDINGS.json"))
	if err == nil {
		json.Unmarshal(b, &kf)
	}
	return kf
}

func (k KnownFinding) matches(prop string, v Violation) bool {
	if k.Property != prop || k.Harness != v.Harness || k.ID != v.ID {
		return false
	}
	for name, vals := range k.Where {
		ok := false
		for i, n := range v.Names {
			if b := strings.Split(n, "!")[0]; b == name {
				for _, x := range vals {
					if x == v.Values[i] {
						ok = true
					}
				}
				break // first variable of that name decides
			}
		}
		if !ok {
			return false
		}
	}
	return true
}

// ---------------------------------------------------------------------------
// replay

type ReplayFile struct {
	Property string            `json:"property"`
	Harness  string            `json:"harness"`
	Dir      string            `json:"dir"`
	Kind     string            `json:"kind"`
	ID       string            `json:"id"`
	Mode     string            `json:"mode"`
	Tier     int               `json:"tier"`
	Values   []uint64          `json:"values"`
	Names    []string          `json:"names"`
	AllVars  map[string]uint64 `json:"all_vars"`
	Events   []string          `json:"events"`
}

func panicKey(id string) string {
	s := strings.TrimPrefix(id, "PANIC: ")
	s = strings.TrimPrefix(s, "Panicf: ")
	s = strings.TrimPrefix(s, "error(")
	if i := strings.Index(s, "%"); i >= 0 {
		s = s[:i]
	}
	s = strings.TrimSpace(s)
	if strings.HasPrefix(s, "runtime error: nil pointer dereference") {
		return "nil pointer dereference"
	}
	if strings.HasPrefix(s, "runtime error: ") {
		return strings.TrimPrefix(s, "runtime error: ")
	}
	if len(s) > 40 {
		s = s[:40]
	}
	return s
}

// nativeReplay runs the harness natively with the recorded values against the
// real build of /repo. It returns (reproduced, transcript).
func nativeReplay(g *Group, rf *ReplayFile, replayPath string) (bool, string) {
	tmp, err := os.MkdirTemp("", "vreplay")
	if err != nil {
		return false, err.Error()
	}
	defer os.RemoveAll(tmp)
	ov, _, err := buildOverlay(g, true)
	if err != nil {
		return false, err.Error()
	}
	base := filepath.Join(repoDir, g.Dir)
	var tbl strings.Builder
	for _, h := range g.Entries {
		fmt.Fprintf(&tbl, "\t%q: %s,\n", h.Name, h.Name)
	}
	ts := strings.Replace(replayTestSrc, "PKGNAME", g.PkgName, 1)
	ts = strings.Replace(ts, "HARNESSTABLE", tbl.String(), 1)
	ov[filepath.Join(base, "zz_verif_replay_test.go")] = []byte(ts)
	repl := map[string]string{}
	i := 0
	for virt, content := range ov {
		i++
		real := filepath.Join(tmp, fmt.Sprintf("f%d_%s", i, filepath.Base(virt)))
		if err := os.WriteFile(real, content, 0o644); err != nil {
			return false, err.Error()
		}
		repl[virt] = real
	}
	ob, _ := json.Marshal(map[string]interface{}{"Replace": repl})
	ovp := filepath.Join(tmp, "overlay.json")
	os.WriteFile(ovp, ob, 0o644)
	pat := "./" + g.Dir
	if g.Dir == "." {
		pat = "."
	}
	cmd := exec.Command("go", "test", "-vet=off", "-count=1", "-timeout", "120s", "-tags", g.Tags, "-run", "^TestVerifReplay$", "-overlay", ovp, pat)
	cmd.Dir = repoDir
	cmd.Env = append(goEnv(), "VERIF_REPLAY="+replayPath, "VERIF_HARNESS="+rf.Harness)
	out, _ := cmd.CombinedOutput()
	o := string(out)
	switch rf.Kind {
	case "assert":
		return strings.Contains(o, "VASSERT "+rf.ID), o
	case "panic":
		if !strings.Contains(o, "VREPLAY-PANIC") && !strings.Contains(o, "panic:") && !strings.Contains(o, "fatal error:") {
			return false, o
		}
		if strings.Contains(o, "VASSUME-VIOLATED") || strings.Contains(o, "VASSERT ") {
			return false, o
		}
		return strings.Contains(o, panicKey(rf.ID)), o
	}
	return false, o
}

// nativeSelftest replays sampled explored paths natively (one go test run per
// harness package).  It returns how many agreed and a description of every
// disagreement: a path the executor saw returning must return natively and
// witness the same reach labels in the same order.
func nativeSelftest(g *Group, samples []AgreeSample) (int, []string) {
	tmp, err := os.MkdirTemp("", "vself")
	if err != nil {
		return 0, []string{err.Error()}
	}
	defer os.RemoveAll(tmp)
	ov, _, err := buildOverlay(g, true)
	if err != nil {
		return 0, []string{err.Error()}
	}
	base := filepath.Join(repoDir, g.Dir)
	var tbl strings.Builder
	for _, h := range g.Entries {
		fmt.Fprintf(&tbl, "\t%q: %s,\n", h.Name, h.Name)
	}
	ts := strings.Replace(replayTestSrc, "PKGNAME", g.PkgName, 1)
	ts = strings.Replace(ts, "HARNESSTABLE", tbl.String(), 1)
	ov[filepath.Join(base, "zz_verif_replay_test.go")] = []byte(ts)
	repl := map[string]string{}
	i := 0
	for virt, content := range ov {
		i++
		real := filepath.Join(tmp, fmt.Sprintf("f%d_%s", i, filepath.Base(virt)))
		if err := os.WriteFile(real, content, 0o644); err != nil {
			return 0, []string{err.Error()}
		}
		repl[virt] = real
	}
	ob, _ := json.Marshal(map[string]interface{}{"Replace": repl})
	ovp := filepath.Join(tmp, "overlay.json")
	os.WriteFile(ovp, ob, 0o644)
	sb, _ := json.Marshal(samples)
	sp := filepath.Join(tmp, "samples.json")
	os.WriteFile(sp, sb, 0o644)
	pat := "./" + g.Dir
	if g.Dir == "." {
		pat = "."
	}
	got := map[int]string{}
	var out []byte
	for attempt := 0; attempt < 2 && len(got) == 0; attempt++ {
		cmd := exec.Command("go", "test", "-vet=off", "-count=1", "-timeout", "600s", "-tags", g.Tags, "-v", "-run", "^TestVerifSelftest$", "-overlay", ovp, pat)
		cmd.Dir = repoDir
		cmd.Env = append(goEnv(), "VERIF_SELFTEST="+sp)
		out, _ = cmd.CombinedOutput()
		for _, l := range strings.Split(string(out), "\n") {
			if strings.HasPrefix(l, "VSELF ") {
				f := strings.SplitN(l, " ", 3)
				if n, err := strconv.Atoi(f[1]); err == nil && len(f) == 3 {
					got[n] = f[2]
				}
			}
		}
	}
	if len(got) == 0 {
		// the native run itself did not happen (build problem, machine overloaded):
		// nothing was compared, which is reported but is not a disagreement
		tail := string(out)
		if len(tail) > 300 {
			tail = tail[len(tail)-300:]
		}
		return -1, []string{"native selftest run produced no results: " + strings.ReplaceAll(tail, "\n", " / ")}
	}
	agreed := 0
	var bad []string
	for i, s := range samples {
		want := "RETURNED " + strings.Join(s.Reach, ",")
		g := strings.TrimSpace(got[i])
		if g == strings.TrimSpace(want) {
			agreed++
			continue
		}
		if g == "" {
			tail := string(out)
			if len(tail) > 300 {
				tail = tail[len(tail)-300:]
			}
			g = "no result (" + strings.ReplaceAll(tail, "\n", " / ") + ")"
		}
		bad = append(bad, fmt.Sprintf("%s values=%v: executor saw %q, native run gave %q", s.Harness, s.Values, want, g))
	}
	return agreed, bad
}

// ---------------------------------------------------------------------------
// evidence

type Evidence struct {
	PropertyID  string                 `json:"property_id"`
	Tier        string                 `json:"tier"`
	Seed        int                    `json:"seed"`
	Level       string                 `json:"level"`
	Coverage    map[string]interface{} `json:"coverage"`
	Assumptions []string               `json:"assumptions"`
	WallS       float64                `json:"wall_s"`
	Violations  int                    `json:"violations"`
}

func srcHash(prog *ssa.Program, fn *ssa.Function, cache map[string][]byte) string {
	syn := fn.Syntax()
	if syn == nil {
		return ""
	}
	p0 := prog.Fset.Position(syn.Pos())
	p1 := prog.Fset.Position(syn.End())
	if !p0.IsValid() || p0.Filename == "" {
		return ""
	}
	b, ok := cache[p0.Filename]
	if !ok {
		b, _ = os.ReadFile(p0.Filename)
		cache[p0.Filename] = b
	}
	if p1.Offset > len(b) || p0.Offset > p1.Offset {
		return ""
	}
	h := sha1.Sum(b[p0.Offset:p1.Offset])
	return fmt.Sprintf("%x", h[:4])
}

// ---------------------------------------------------------------------------

type entryRun struct {
	g    *Group
	ld   *Loaded
	hs   *HarnessSpec
	res  *HarnessResult
	viol []Violation
	inc  []string
}

func cmdRun(args []string) int {
	fs := flag.NewFlagSet("run", flag.ExitOnError)
	tier := fs.String("tier", envOr("VERIF_TIER", "quick"), "quick|thorough")
	only := fs.String("only", "", "run only harnesses whose name contains this")
	verbose := fs.Bool("v", false, "verbose")
	noEvidence := fs.Bool("no-evidence", false, "do not write the evidence file")
	noReplay := fs.Bool("no-replay", false, "do not replay counterexamples natively")
	noSelftest := fs.Bool("no-selftest", false, "do not replay sampled explored paths natively (translator validation)")
	smtlog := fs.String("smtlog", "", "log SMT of worker 0 to file")
	jobs := fs.Int("j", runtime.NumCPU(), "worker slots")
	if len(args) < 1 {
		fmt.Println("usage: vcheck run <PROPERTY> [--tier quick|thorough]")
		return 2
	}
	prop := args[0]
	fs.Parse(args[1:])
	if os.Getenv("VERIF_EXTRA_OVERLAY") != "" {
		fmt.Println("NOTE: VERIF_EXTRA_OVERLAY is set: checking modified copies of repository files, no evidence is written")
		*noEvidence = true
	}
	if *tier != "quick" && *tier != "thorough" && *tier != "dev" {
		*tier = "quick"
	}
	tierN := 0
	if *tier == "thorough" {
		tierN = 1
	}
	seed, _ := strconv.Atoi(os.Getenv("VERIF_SEED"))
	t0 := time.Now()
	groups, err := discover()
	if err != nil {
		fmt.Printf("INCONCLUSIVE property=%s reason=harness discovery failed: %v\n", prop, err)
		return 2
	}
	var sel []*entryRun
	var selGroups []*Group
	for _, g := range groups {
		used := false
		for _, hs := range g.Entries {
			if contains(hs.Props, prop) && contains(hs.Tiers, *tier) && (*only == "" || strings.Contains(hs.Name, *only)) {
				sel = append(sel, &entryRun{g: g, hs: hs})
				used = true
			}
		}
		if used {
			selGroups = append(selGroups, g)
		}
	}
	if len(sel) == 0 {
		fmt.Printf("INCONCLUSIVE property=%s reason=no harness registered for this property/tier\n", prop)
		return 2
	}
	sort.Slice(sel, func(i, j int) bool { return sel[i].hs.Name < sel[j].hs.Name })
	// load groups concurrently
	loaded := map[*Group]*Loaded{}
	var lmu sync.Mutex
	var lwg sync.WaitGroup
	var loadErrs []string
	for _, g := range selGroups {
		lwg.Add(1)
		go func(g *Group) {
			defer lwg.Done()
			ld, err := load(g)
			lmu.Lock()
			defer lmu.Unlock()
			if err != nil {
				loadErrs = append(loadErrs, fmt.Sprintf("%s: %v", g.Dir, err))
				return
			}
			loaded[g] = ld
		}(g)
	}
	lwg.Wait()
	if len(loadErrs) > 0 {
		fmt.Printf("INCONCLUSIVE property=%s reason=harness does not load against the current tree: %s\n", prop, strings.Join(loadErrs, " | "))
		return 2
	}
	// run entries with a slot budget
	slots := make(chan struct{}, *jobs)
	for i := 0; i < *jobs; i++ {
		slots <- struct{}{}
	}
	var slotMu sync.Mutex
	var wg sync.WaitGroup
	for _, er := range sel {
		er.ld = loaded[er.g]
		fn := er.ld.pkg.Func(er.hs.Name)
		if fn == nil {
			er.inc = append(er.inc, er.hs.Name+": function not found in package")
			continue
		}
		inits, ierr := initFuncs(er.ld.prog, er.ld.pkg, er.g.Inits)
		er.inc = append(er.inc, ierr...)
		nw := er.hs.Workers
		if nw > *jobs {
			nw = *jobs
		}
		wg.Add(1)
		go func(er *entryRun, fn *ssa.Function, inits []*ssa.Function, nw int) {
			defer wg.Done()
			slotMu.Lock()
			for i := 0; i < nw; i++ {
				<-slots
			}
			slotMu.Unlock()
			defer func() {
				for i := 0; i < nw; i++ {
					slots <- struct{}{}
				}
			}()
			qms := 20000
			if tierN == 1 {
				qms = 120000
			}
			if er.hs.QueryMs > 0 {
				qms = er.hs.QueryMs
			}
			to := 900
			if tierN == 1 {
				to = 3600
			}
			if er.hs.TimeoutS > 0 {
				to = er.hs.TimeoutS
			}
			agree := 8
			if *noSelftest || er.hs.Replay == "symbolic" || er.hs.NoSelftest {
				agree = 0
			}
			opts := RunOpts{Agree: agree, Workers: nw, MaxSteps: er.hs.Steps, Tier: tierN, Verbose: *verbose, SolverBin: solverCmd(qms),
				TimeoutMs: qms, Deadline: time.Now().Add(time.Duration(to) * time.Second), MaxSwitch: er.hs.Switches, SmtLog: *smtlog}
			er.res = exploreHarness(er.ld.prog, fn, inits, opts)
			er.viol, er.inc = classify(er.res, er.hs.Policy)
			fmt.Fprintf(os.Stderr, "  %-44s paths %-6d queries %-7d solver %6.1fs wall %6.1fs viol %d %s\n", er.hs.Name, er.res.Paths, er.res.Queries, er.res.SolverS, er.res.WallS, len(er.viol), strings.Join(er.inc, "; "))
		}(er, fn, inits, nw)
	}
	wg.Wait()

	// translator validation: sampled explored paths must behave the same natively
	agreeN, agreeOK := 0, 0
	var agreeBad, agreeNotes []string
	if !*noSelftest {
		byGroup := map[*Group][]AgreeSample{}
		var order []*Group
		for _, er := range sel {
			if er.res == nil || len(er.res.Agree) == 0 {
				continue
			}
			if _, ok := byGroup[er.g]; !ok {
				order = append(order, er.g)
			}
			byGroup[er.g] = append(byGroup[er.g], er.res.Agree...)
		}
		for _, g := range order {
			ok, bad := nativeSelftest(g, byGroup[g])
			if ok < 0 {
				agreeNotes = append(agreeNotes, bad...)
				continue
			}
			agreeN += len(byGroup[g])
			agreeOK += ok
			agreeBad = append(agreeBad, bad...)
		}
		for _, n := range agreeNotes {
			fmt.Fprintln(os.Stderr, "  translator validation:", n)
		}
		fmt.Fprintf(os.Stderr, "  translator validation: %d sampled paths replayed natively, %d agree\n", agreeN, agreeOK)
	}

	// collect
	known := loadKnown()
	var inconclusive []string
	for _, b := range agreeBad {
		inconclusive = append(inconclusive, "SELFTEST-MISMATCH "+b)
	}
	exit := 0
	nviol := 0
	knownPrinted := map[string]bool{}
	funcsAll := map[string]string{}
	hashCache := map[string][]byte{}
	var harnessSummaries []interface{}
	var samples []interface{}
	tot := struct {
		paths, nontriv, queries, assertQ, sat, unsat, unknown int
		solverS                                               float64
	}{}
	reachAll := map[string]int{}
	var boundsAll, assumesAll, stubsAll, scaledAll []string
	seenG := map[*Group]bool{}
	for _, er := range sel {
		inconclusive = append(inconclusive, er.inc...)
		if !seenG[er.g] {
			seenG[er.g] = true
			boundsAll = append(boundsAll, er.g.Bounds...)
			assumesAll = append(assumesAll, er.g.Assumes...)
			stubsAll = append(stubsAll, er.g.Stubs...)
			if er.ld != nil {
				scaledAll = append(scaledAll, er.ld.scaled...)
			}
		}
		if er.res == nil {
			continue
		}
		r := er.res
		tot.paths += r.Paths
		tot.nontriv += r.Nontriv
		tot.queries += r.Queries
		tot.assertQ += r.AssertQ
		tot.sat += r.Sat
		tot.unsat += r.Unsat
		tot.unknown += r.Unknown
		tot.solverS += r.SolverS
		for k, v := range r.Reach {
			reachAll[er.hs.Name+"/"+k] += v
		}
		for _, b := range er.hs.Bounds {
			boundsAll = append(boundsAll, er.hs.Name+": "+b)
		}
		harnessSummaries = append(harnessSummaries, r)
		for _, s := range r.Samples {
			if len(samples) < 12 {
				samples = append(samples, s)
			}
		}
		for _, fname := range r.Funcs {
			funcsAll[fname] = ""
		}
		// violations: dedupe per (harness, id), replay the first of each
		seenID := map[string]bool{}
		for _, v := range er.viol {
			key := v.Harness + "|" + v.ID
			isKnown := false
			for _, k := range known.Findings {
				if k.matches(prop, v) {
					isKnown = true
					kk := k.Harness + "|" + k.ID + "|" + k.Text
					if !knownPrinted[kk] {
						knownPrinted[kk] = true
						fmt.Printf("KNOWN-FINDING: property=%s %s [%s %s]\n", prop, k.Text, k.Harness, k.ID)
					}
				}
			}
			if isKnown || seenID[key] {
				continue
			}
			seenID[key] = true
			rf := &ReplayFile{Property: prop, Harness: v.Harness, Dir: er.g.Dir, Kind: v.Kind, ID: v.ID, Mode: er.hs.Replay, Tier: tierN,
				Values: v.Values, Names: v.Names, AllVars: v.AllVars, Events: v.Events}
			rdir := filepath.Join(verifDir, "replays", prop)
			os.MkdirAll(rdir, 0o755)
			rp := filepath.Join(rdir, fmt.Sprintf("%s-%s.json", v.Harness, sanitize(v.ID)))
			if len(rp) > 200 {
				rp = rp[:190] + ".json"
			}
			rb, _ := json.MarshalIndent(rf, "", " ")
			os.WriteFile(rp, rb, 0o644)
			reproduced := true
			note := ""
			if er.hs.Replay == "native" && !*noReplay {
				ok, out := nativeReplay(er.g, rf, rp)
				reproduced = ok
				os.WriteFile(strings.TrimSuffix(rp, ".json")+".native.log", []byte(out), 0o644)
				if !ok {
					note = " (native replay did NOT reproduce: see " + strings.TrimSuffix(rp, ".json") + ".native.log)"
				}
			} else if er.hs.Replay == "symbolic" {
				note = " (thread-mode harness: schedule replayed symbolically with `vcheck replay`)"
			}
			if reproduced {
				nviol++
				exit = 1
				fmt.Printf("VIOLATION property=%s replay=%s harness=%s %s=%s%s\n", prop, rp, v.Harness, v.Kind, v.ID, note)
				if len(v.Events) > 0 {
					fmt.Printf("  events: %s\n", strings.Join(v.Events, " "))
				}
			} else {
				inconclusive = append(inconclusive, fmt.Sprintf("ENGINE-MISMATCH %s %s: counterexample not reproduced natively%s", v.Harness, v.ID, note))
			}
		}
	}
	// functions encoded with source hashes
	var funcsList []string
	for _, er := range sel {
		if er.res == nil {
			continue
		}
		for _, m := range er.ld.prog.AllPackages() {
			_ = m
		}
	}
	for _, er := range sel {
		if er.ld == nil || er.res == nil {
			continue
		}
		want := map[string]bool{}
		for _, f := range er.res.Funcs {
			want[f] = true
		}
		for fn := range ssautil.AllFunctions(er.ld.prog) {
			if want[fn.String()] && funcsAll[fn.String()] == "" {
				h := ""
				if fn.Pkg != nil && strings.Contains(fn.Pkg.Pkg.Path(), "dragonboat") {
					h = srcHash(er.ld.prog, fn, hashCache)
				}
				if h == "" {
					h = "-"
				}
				funcsAll[fn.String()] = h
			}
		}
	}
	nrepo := 0
	for f, h := range funcsAll {
		if strings.Contains(f, "VHarness_") || strings.Contains(f, ".v") && strings.Contains(f, "zz_verif") {
			continue
		}
		if h != "-" && h != "" {
			nrepo++
			funcsList = append(funcsList, f+"@"+h)
		}
	}
	sort.Strings(funcsList)
	wall := time.Since(t0).Seconds()
	if len(inconclusive) > 0 && exit == 0 {
		exit = 2
	}
	if !*noEvidence && *only == "" {
		expl := fmt.Sprintf("Bounded symbolic execution of the real Go code (go/ssa of %s's current working tree, harnesses injected by overlay) decided by an SMT solver ("+solverName()+"): %d harness entr(ies), %d paths explored, %d solver queries (%d assertion queries; %d sat / %d unsat / %d unknown), solver time %.1fs. Every assertion on every explored path was discharged as unsat for all values of the symbolic inputs within the bounds listed under 'bounds'; nothing is sampled. Outside the bounds nothing is claimed.",
			repoDir, len(harnessSummaries), tot.paths, tot.queries, tot.assertQ, tot.sat, tot.unsat, tot.unknown, tot.solverS)
		if nviol > 0 {
			expl += fmt.Sprintf(" %d violation(s) were found and replayed.", nviol)
		}
		if len(inconclusive) > 0 {
			expl += " RUN INCONCLUSIVE: " + strings.Join(inconclusive, "; ")
		}
		if len(samples) == 0 {
			samples = append(samples, "no symbolic path ended in 'return' (see outcomes)")
		}
		ev := Evidence{PropertyID: prop, Tier: *tier, Seed: seed, Level: "other", WallS: wall, Violations: nviol,
			Assumptions: append(append([]string{}, assumesAll...), stubsAll...),
			Coverage: map[string]interface{}{
				"explanation":         expl,
				"evaluations":         tot.paths,
				"distinct_nontrivial": tot.nontriv,
				"rule":                "one evaluation = one symbolic path of a harness entry (a set of concrete inputs characterised by its path condition); distinct by construction (path conditions are pairwise disjoint); non-trivial = the path condition constrains at least one symbolic input",
				"samples":             samples,
				"exhaustive":          len(inconclusive) == 0,
				"functions_encoded":   funcsList,
				"functions_encoded_n": nrepo,
				"bounds":              boundsAll,
				"scaled_constants":    scaledAll,
				"stubs":               stubsAll,
				"queries":             map[string]int{"total": tot.queries, "assertion": tot.assertQ, "sat": tot.sat, "unsat": tot.unsat, "unknown": tot.unknown},
				"solver_time_s":       tot.solverS,
				"solver":              solverName() + " (incremental push/pop, one process per worker; logic QF_UFBV)",
				"reach_labels":        reachAll,
				"harnesses":           harnessSummaries,
				"inconclusive":        inconclusive,
				"known_findings":      len(knownPrinted),
				"translator_validation": map[string]interface{}{
					"what":          "explored paths turned into concrete inputs (a model of the path condition) and replayed natively with go test -overlay against the real build: each must return normally and witness the same reach labels in the same order as the executor saw",
					"sampled_paths": agreeN, "agreed": agreeOK, "disagreements": agreeBad, "not_run": agreeNotes},
			}}
		if ev.Assumptions == nil {
			ev.Assumptions = []string{}
		}
		os.MkdirAll(filepath.Join(verifDir, "evidence"), 0o755)
		b, _ := json.MarshalIndent(ev, "", " ")
		os.WriteFile(filepath.Join(verifDir, "evidence", prop+".json"), b, 0o644)
	}
	for _, s := range inconclusive {
		fmt.Printf("INCONCLUSIVE property=%s reason=%s\n", prop, s)
	}
	fmt.Printf("RESULT property=%s tier=%s harnesses=%d paths=%d queries=%d solver=%.1fs wall=%.1fs violations=%d known=%d exit=%d\n",
		prop, *tier, len(sel), tot.paths, tot.queries, tot.solverS, wall, nviol, len(knownPrinted), exit)
	return exit
}

func cmdReplay(args []string) int {
	if len(args) < 1 {
		fmt.Println("usage: vcheck replay <replay.json>")
		return 2
	}
	b, err := os.ReadFile(args[0])
	if err != nil {
		fmt.Println(err)
		return 2
	}
	var rf ReplayFile
	if err := json.Unmarshal(b, &rf); err != nil {
		fmt.Println(err)
		return 2
	}
	groups, err := discover()
	if err != nil {
		fmt.Println(err)
		return 2
	}
	g := groups[rf.Dir]
	if g == nil {
		fmt.Println("no harness group", rf.Dir)
		return 2
	}
	abs, _ := filepath.Abs(args[0])
	if rf.Mode == "native" {
		ok, out := nativeReplay(g, &rf, abs)
		fmt.Println(out)
		if ok {
			fmt.Printf("REPRODUCED property=%s harness=%s %s=%s (native run of the harness against the real build)\n", rf.Property, rf.Harness, rf.Kind, rf.ID)
			return 1
		}
		fmt.Println("NOT-REPRODUCED")
		return 0
	}
	// symbolic replay: pin every variable to its model value and re-execute
	ld, err := load(g)
	if err != nil {
		fmt.Println(err)
		return 2
	}
	pin := map[int]uint64{}
	for name, v := range rf.AllVars {
		if i := strings.LastIndex(name, "!"); i >= 0 {
			k, _ := strconv.Atoi(name[i+1:])
			pin[k] = v
		}
	}
	var hs *HarnessSpec
	for _, h := range g.Entries {
		if h.Name == rf.Harness {
			hs = h
		}
	}
	if hs == nil {
		fmt.Println("no such harness", rf.Harness)
		return 2
	}
	inits, _ := initFuncs(ld.prog, ld.pkg, g.Inits)
	res := exploreHarness(ld.prog, ld.pkg.Func(rf.Harness), inits, RunOpts{Workers: 1, MaxSteps: hs.Steps, Tier: rf.Tier, SolverBin: solverCmd(60000), TimeoutMs: 60000, Pin: pin, MaxSwitch: hs.Switches, Verbose: true})
	for _, v := range res.Viol {
		fmt.Printf("events: %s\n", strings.Join(v.Events, " "))
		if v.ID == rf.ID {
			fmt.Printf("REPRODUCED property=%s harness=%s %s=%s (symbolic re-execution with every variable pinned)\n", rf.Property, rf.Harness, rf.Kind, rf.ID)
			return 1
		}
	}
	fmt.Println("NOT-REPRODUCED", res.Outcomes)
	return 0
}

func cmdList() int {
	groups, err := discover()
	if err != nil {
		fmt.Println(err)
		return 2
	}
	var ds []string
	for d := range groups {
		ds = append(ds, d)
	}
	sort.Strings(ds)
	for _, d := range ds {
		g := groups[d]
		fmt.Printf("%s (package %s) inits=%v scales=%v\n", d, g.PkgName, g.Inits, g.Scales)
		for _, h := range g.Entries {
			fmt.Printf("   %-50s props=%v tiers=%v\n", h.Name, h.Props, h.Tiers)
		}
	}
	return 0
}

func init() {
	if os.Getenv("VERIF_FORKPROF") != "" {
		ch := make(chan os.Signal, 1)
		signal.Notify(ch, syscall.SIGTERM, syscall.SIGINT)
		go func() {
			<-ch
			forkProfMu.Lock()
			dumpForkProf()
			os.Exit(3)
		}()
	}
}

func main() {
	defer dumpForkProf()
	if len(os.Args) < 2 {
		fmt.Println("usage: vcheck run|replay|list|selftest ...")
		os.Exit(2)
	}
	switch os.Args[1] {
	case "run":
		rc := cmdRun(os.Args[2:])
		dumpForkProf()
		os.Exit(rc)
	case "replay":
		os.Exit(cmdReplay(os.Args[2:]))
	case "list":
		os.Exit(cmdList())
	default:
		fmt.Println("unknown command", os.Args[1])
		os.Exit(2)
	}
}
