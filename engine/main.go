package main

import (
	"flag"
	"fmt"
	"os"
	"strings"
	"time"

	"golang.org/x/tools/go/packages"
	"golang.org/x/tools/go/ssa"
	"golang.org/x/tools/go/ssa/ssautil"
)

func main() {
	pkgPath := flag.String("pkg", "./raftpb", "package pattern (relative to /repo)")
	overlay := flag.String("overlay", "", "harness file")
	as := flag.String("as", "", "virtual path of harness file")
	entry := flag.String("entry", "", "harness function(s), comma separated")
	inits := flag.String("init", "", "package paths whose init to run, comma separated")
	verbose := flag.Bool("v", false, "verbose")
	maxSteps := flag.Int("steps", 200000, "step budget per path")
	smtlog := flag.String("smtlog", "", "log smt to file")
	flag.Parse()

	t0 := time.Now()
	cfg := &packages.Config{
		Mode: packages.LoadAllSyntax,
		Dir:  "/repo",
		Env:  append(os.Environ(), "GOFLAGS=-mod=mod", "GOPROXY=off", "GOSUMDB=off"),
	}
	if *overlay != "" {
		b, err := os.ReadFile(*overlay)
		if err != nil {
			panic(err)
		}
		cfg.Overlay = map[string][]byte{*as: b}
	}
	if cfg.Overlay == nil {
		cfg.Overlay = map[string][]byte{}
	}
	for _, kv := range strings.Split(os.Getenv("EXTRA_OVERLAY"), ",") {
		if i := strings.Index(kv, "="); i > 0 {
			b, err := os.ReadFile(kv[i+1:])
			if err != nil {
				panic(err)
			}
			cfg.Overlay[kv[:i]] = b
		}
	}
	pkgs, err := packages.Load(cfg, *pkgPath)
	if err != nil {
		panic(err)
	}
	if packages.PrintErrors(pkgs) > 0 {
		os.Exit(2)
	}
	prog, spkgs := ssautil.AllPackages(pkgs, ssa.InstantiateGenerics)
	prog.Build()
	fmt.Printf("load+ssa %v\n", time.Since(t0))
	pkg := spkgs[0]

	for _, en := range strings.Split(*entry, ",") {
		fn := pkg.Func(en)
		if fn == nil {
			fmt.Println("no such function", en)
			os.Exit(2)
		}
		t1 := time.Now()
		termTab = map[string]*Term{}
		e := &Engine{prog: prog, solver: NewSolver(), outcomes: map[string]int{}, reach: map[string]int{},
			asserts: map[string]int{}, maxSteps: *maxSteps, funcsSeen: map[*ssa.Function]bool{}, verbose: *verbose}
		if *smtlog != "" {
			lf, _ := os.Create(*smtlog)
			e.solver.log = lf
		}
		n := 0
		st := &State{heap: map[int]Value{}, globals: map[*ssa.Global]int{}, nextObj: &n, locks: map[int]int{}, hashBuf: map[int][]Value{}, lockv: map[string]int{}, pools: map[int][]Value{}}
		// run package inits
		if *inits != "" {
			for _, ip := range strings.Split(*inits, ",") {
				p := prog.ImportedPackage(ip)
				if p == nil {
					fmt.Println("init: no package", ip)
					os.Exit(2)
				}
				e.pushCall(st, p.Func("init"), nil, nil, nil)
				e.run(st)
				if st.outcome != "return" {
					fmt.Println("init of", ip, "ended with", st.outcome)
					os.Exit(2)
				}
				st.outcome = ""
				st.steps = 0
			}
		}
		e.pushCall(st, fn, nil, nil, nil)
		e.explore(st)
		fmt.Printf("== %s: paths %d forks %d queries %d solver %v wall %v funcs %d terms %d\n", en, e.paths, e.forks,
			e.solver.Queries, e.solver.Time.Round(time.Millisecond), time.Since(t1).Round(time.Millisecond), len(e.funcsSeen), termSeq)
		e.report()
		fmt.Printf("  reach %v\n  asserts %v\n", e.reach, e.asserts)
		for _, v := range e.viol {
			fmt.Println("  " + v)
		}
		e.solver.Close()
	}
}
