#!/usr/bin/env python3
"""Confirm a seeded change delivered by a sub-agent, in a scratch worktree outside /repo and /verif.

usage: confirm_seed.py <PROP> <variant> [--root-tests]
reads  /tmp/seed/out-<PROP>/<variant>/{patch.diff,demo_test.go,README.md}
writes /verif/seeded/<PROP><variant>/{patch.diff,demo_test.go,README.md,meta.json}
"""
import json, os, re, shutil, subprocess, sys, time

ENV = dict(os.environ, GOFLAGS='-mod=mod', GOPROXY='off', GOSUMDB='off', GOTOOLCHAIN='local')


def sh(cmd, cwd, timeout=3000):
    t0 = time.time()
    p = subprocess.run(cmd, shell=True, cwd=cwd, env=ENV, stdout=subprocess.PIPE, stderr=subprocess.STDOUT, timeout=timeout)
    return p.returncode, p.stdout.decode(errors='replace'), time.time() - t0


def main():
    prop, var = sys.argv[1], sys.argv[2]
    src = f'/tmp/seed/out-{prop}/{var}'
    name = f'{prop}{var}'
    wt = f'/tmp/confirm/{name}'
    os.makedirs('/tmp/confirm', exist_ok=True)
    subprocess.run(f'git -C /repo worktree remove --force {wt}', shell=True, stdout=subprocess.DEVNULL, stderr=subprocess.DEVNULL)
    rc, out, _ = sh(f'git -C /repo worktree add -q --detach {wt} HEAD', '/')
    meta = {'id': name, 'property': prop, 'source': 'independent sub-agent given only the property text and its own scratch worktree',
            'base_commit': subprocess.check_output('git -C /repo rev-parse --short HEAD', shell=True).decode().strip(), 'steps': {}}
    try:
        patch = os.path.join(src, 'patch.diff')
        demo = open(os.path.join(src, 'demo_test.go')).read()
        m = re.search(r'//\s*place at:\s*(\S+)', demo)
        place = m.group(1)
        rc, out, _ = sh(f'git apply {patch}', wt)
        meta['steps']['apply'] = rc == 0
        if rc != 0:
            meta['error'] = 'patch does not apply: ' + out[-400:]
            return meta
        files = subprocess.check_output('git diff --name-only', shell=True, cwd=wt).decode().split()
        meta['files_changed'] = files
        pkgs = sorted({('./' + os.path.dirname(f)) if os.path.dirname(f) else '.' for f in files if f.endswith('.go')})
        rc, out, dt = sh("go build ./... && go test -vet=off -count=1 -run '^$' ./... 2>&1 | grep -v '^ok\\|no test files' | head -20", wt)
        meta['steps']['build'] = rc == 0 and 'FAIL' not in out
        if not meta['steps']['build']:
            meta['error'] = 'build failed: ' + out[-600:]
            return meta
        # existing tests of the touched packages (root package in a private network namespace)
        test_ok = True
        logs = []
        extra = {'./internal/raft', './internal/rsm'} if any(p.startswith('./internal/r') for p in pkgs) else set()
        for p in sorted(set(pkgs) | extra):
            if p == '.':
                if '--root-tests' not in sys.argv:
                    logs.append('root package tests: not re-run here (sub-agent reports a full pass under unshare -n)')
                    continue
                cmd = "unshare -n sh -c 'ip link set lo up; go test -vet=off -count=1 -timeout 40m . 2>&1 | tail -15'"
            else:
                cmd = f"go test -vet=off -count=1 -timeout 25m {p} 2>&1 | tail -15"
            rc, out, dt = sh(cmd, wt, timeout=3000)
            ok = ('FAIL' not in out) and ('ok ' in out or 'no test files' in out)
            logs.append(f'{p}: {"pass" if ok else "FAIL"} ({dt:.0f}s)')
            if not ok:
                test_ok = False
                logs.append(out[-800:])
        meta['steps']['existing_tests_pass'] = test_ok
        meta['existing_tests'] = logs
        # demo with the change: must fail
        dst = os.path.join(wt, place)
        os.makedirs(os.path.dirname(dst), exist_ok=True)
        shutil.copy(os.path.join(src, 'demo_test.go'), dst)
        tests = re.findall(r'^func (Test\w+)\(', demo, re.M)
        dpkg = './' + os.path.dirname(place) if os.path.dirname(place) else '.'
        runre = '^(' + '|'.join(tests) + ')$'
        pre = "unshare -n sh -c 'ip link set lo up; " if dpkg == '.' else "sh -c '"
        cmd = pre + f'go test -vet=off -count=1 -timeout 20m -run "{runre}" {dpkg} 2>&1 | tail -25\''
        rc, out, dt = sh(cmd, wt)
        meta['steps']['demo_fails_with_change'] = 'FAIL' in out
        meta['demo_with_change_tail'] = out[-700:]
        rc, out2, _ = sh(f'git apply -R {patch}', wt)
        rc, out, dt = sh(cmd, wt)
        meta['steps']['demo_passes_without_change'] = ('FAIL' not in out) and ('ok ' in out)
        meta['demo_without_change_tail'] = out[-300:]
        meta['demo'] = {'place_at': place, 'tests': tests, 'package': dpkg}
        meta['confirmed'] = all(meta['steps'].values())
        return meta
    finally:
        subprocess.run(f'git -C /repo worktree remove --force {wt}', shell=True, stdout=subprocess.DEVNULL, stderr=subprocess.DEVNULL)
        out = f'/verif/seeded/{name}'
        os.makedirs(out, exist_ok=True)
        for f in ('patch.diff', 'demo_test.go', 'README.md'):
            if os.path.exists(os.path.join(src, f)):
                shutil.copy(os.path.join(src, f), os.path.join(out, f))
        old = {}
        if os.path.exists(os.path.join(out, 'meta.json')):
            old = json.load(open(os.path.join(out, 'meta.json')))
        for k in ('needs', 'checks', 'what'):
            if k in old:
                meta[k] = old[k]
        json.dump(meta, open(os.path.join(out, 'meta.json'), 'w'), indent=1)
        print(name, 'confirmed' if meta.get('confirmed') else 'NOT CONFIRMED', json.dumps(meta['steps']), meta.get('error', ''))


main()
