#!/usr/bin/env python3
"""Regenerates /verif/MANIFEST.json from the table below (kept next to the harnesses it describes)."""
import json, os
V = '/verif'
base = json.load(open('/root/.vp/BASELINE.json'))['cmd'] if os.path.exists('/root/.vp/BASELINE.json') else ''
TECH = "bounded symbolic execution of the real Go code (go/ssa of /repo's working tree) with z3 deciding every assertion over all symbolic inputs; counterexamples replayed natively with go test -overlay"
NOTE_COMMON = (" Trusted base: the gosym executor in /verif/engine (go/ssa semantics, intrinsics for sync/fmt/errors/logger/crc32), z3 4.8.12, the stubs and representation invariants written in the harness files (listed in the evidence). "
               "A pass means: for all values of the symbolic inputs within the stated bounds, one (or the stated number of) step(s); nothing is claimed outside the bounds, and step lemmas extend to histories only through the paper argument named in DESIGN.md.")
CLAIMS = {
 'C02': ("Step lemmas of replica agreement decided by the solver on the real raft.Handle / entryLog code from an arbitrary symbolic replica state: committed prefix immutable, follower append = Raft AppendEntries rule, commit index bounds. Histories are covered only through the (unchecked) Raft induction argument.", "§4/C02"),
 'C03': ("Step lemmas of election safety on the real raft.Handle: one vote per term, a grant is recorded in (term,vote) before the response exists, election restriction, from an arbitrary symbolic state of a 3-voter replica.", "§4/C03"),
 'C05': ("The at-most-once session contract of rsm.StateMachine.handleEntry/update + SessionManager/lrusession decided for an arbitrary symbolic session history and entry (unregistered => rejected, acknowledged => ignored, cached => same result without Update, fresh => exactly one Update, retry => same result).", "§4/C05"),
 'C07': ("One-step induction over membership.handleConfigChange from an arbitrary valid membership: kinds stay disjoint, removed ids never return, only non-voting->voting promotion, last voter stays, address uniqueness, ordered config change id rule.", "§4/C07"),
 'C10': ("No failed write reported as success: every db save path over a KV stub failing at a symbolic call index must return an error or panic; success implies exactly one committed batch.", "§4/C10"),
 'C11': ("Lock discipline of NativeSM Lookup vs Close decided over all 2-thread interleavings at synchronisation-point granularity (thread mode of the executor).", "§4/C11"),
 'C12': ("Exactly-one-terminal-result ledger for proposalShard under arbitrary symbolic op sequences (applied/dropped/tick+gc/close with symbolic keys, ids, ticks) and a 2-thread schedule exploration of committed() vs gc/Release/pool reuse.", "§4/C12"),
 'C13': ("Round trip, exact Size and SizeUpperLimit of the raftpb State and Entry codecs for fully symbolic 64-bit field values (pairs of fields for Entry) and small symbolic payloads.", "§4/C13"),
 'C14': ("BlockWriter->blockReader and SnapshotWriter->SnapshotReader byte identity for symbolic payloads under every write/read split, and detection of every single-byte alteration of a block stream (CRC modelled as an uninterpreted function with the one-byte-difference axiom).", "§4/C14"),
 'C19': ("entryLog query answers (lastIndex, firstIndex, term) equal the logical-log abstraction for an arbitrary symbolic log (persisted part + in-memory window + applied-to shortcut) and a symbolic probe index.", "§4/C19"),
}
NA = {
 'C01': "linearizability of concurrent client histories needs goroutine schedules through NodeHost/engine/transport on several replicas; not encodable by a bounded symbolic executor for Go built here (its mechanisms are decided as lemmas under C02/C06/C11/C12) — see DESIGN.md §4/C01, §5",
 'C16': "crash atomicity of snapshot directories is an ordering property of file-system effects with no symbolic data; deciding it is crash-point enumeration over a crash-aware FS model, a different technique — see DESIGN.md §4/C16, §5",
}
PENDING = "harness not built yet in this revision (planned, see DESIGN.md §4); not claimed until a check runs clean on the unchanged tree"
props = [json.loads(l)['id'] for l in open(f'{V}/properties.jsonl')]
checks = []
na = []
for p in props:
    if p in CLAIMS:
        text, ref = CLAIMS[p]
        checks.append({
            "property_id": p,
            "quick_cmd": f"bin/vcheck run {p} --tier quick",
            "thorough_cmd": f"bin/vcheck run {p} --tier thorough",
            "evidence_file": f"/verif/evidence/{p}.json",
            "replay_cmd_template": "bin/vcheck replay {path}",
            "engine": "gosym",
            "level_claimed": {"category": "other", "text": "Bounded symbolic model checking of the real code (SMT-decided). " + text, "design_ref": "DESIGN.md " + ref},
            "level_note": "Bounds, stubs and scaled constants are echoed in the evidence file on every run." + NOTE_COMMON,
            "technique": TECH,
        })
    else:
        na.append({"property_id": p, "reason": NA.get(p, PENDING)})
m = {
 "version": 1,
 "setup_cmd": "cd /verif/engine && GOFLAGS=-mod=mod GOPROXY=off GOSUMDB=off GOTOOLCHAIN=local go build -o /verif/bin/vcheck .",
 "hooks": {"guard": "verif", "enable": "none needed: harnesses, stubs and scaled constants are injected through go/packages overlays (and go test -overlay for native replays); /repo carries no hook commits", "baseline_off_cmd": base, "source_commits": [], "add_only": True},
 "engines": [{"name": "gosym", "path": "engine", "serves_properties": sorted(CLAIMS), "kind_free_text": "bounded symbolic executor for go/ssa (x/tools v0.29.0) with a z3 -in back end, written for this task"}],
 "checks": checks,
 "not_applicable": na,
 "notes": "Genuine defects found by the checks and repaired in /repo by 'fix:' commits are listed in KNOWN_FINDINGS.json (fixed entries suppress nothing).",
}
json.dump(m, open(f'{V}/MANIFEST.json', 'w'), indent=1)
print("claimed", sorted(CLAIMS), "n/a", [x['property_id'] for x in na])
