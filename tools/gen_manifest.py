#!/usr/bin/env python3
"""Regenerates /verif/MANIFEST.json from the table below (kept next to the harnesses it describes)."""
import json, os
V = '/verif'
base = json.load(open('/root/.vp/BASELINE.json'))['cmd'] if os.path.exists('/root/.vp/BASELINE.json') else ''
TECH = "bounded symbolic execution of the real Go code (go/ssa of /repo's working tree) with z3 deciding every assertion over all symbolic inputs; counterexamples replayed natively with go test -overlay"
NOTE_COMMON = (" Trusted base: the gosym executor in /verif/engine (go/ssa semantics, intrinsics for sync/fmt/errors/logger/crc32), z3 4.8.12, the stubs and representation invariants written in the harness files (listed in the evidence). "
               "A pass means: for all values of the symbolic inputs within the stated bounds, one (or the stated number of) step(s); nothing is claimed outside the bounds, and step lemmas extend to histories only through the paper argument named in DESIGN.md.")
CLAIMS = {
 'C02': ("Step lemmas of replica agreement decided on the real raft.Handle/entryLog/rsm code from an arbitrary symbolic replica state: committed prefix immutable for every message type (L1), follower append = AppendEntries rule incl. conflict truncation (L2), follower/heartbeat commit bounds (L3), leader commit rule against an independent quorum count incl. multi-witness shapes and arbitrary scratch contents (L4), InstallSnapshot restore/commit, rsm apply order across batches (A1). Histories are covered only through the (unchecked) Raft induction argument.", "§4/C02"),
 'C03': ("Step lemmas of election safety: one vote per term and term monotonicity for every message type (V1), grant recorded before the response exists (V2), election restriction (V3), leader only from a quorum of granted votes of voting members counted independently (V4), restart reloads term/vote/commit and refuses a second vote (V5), new leader appends an own-term entry (V6), pre-vote traffic never changes term/vote, lower-term messages change nothing, no campaign with unapplied committed entries.", "§4/C03"),
 'C05': ("The at-most-once session contract of rsm.StateMachine.handleEntry/update + SessionManager/lrusession decided differentially against a reference table over sequences of symbolic register/unregister/update/retry/acknowledge entries incl. LRU eviction, plus retry-anywhere-later and late-duplicate lemmas, plus the snapshot clause through the real session save/load path (twin harness; JSON modelled as identity).", "§4/C05"),
 'C06': ("ReadIndex lemmas: a request is queued only by a leader with a committed entry of its term, with the commit index of that moment (R1); release needs a quorum of distinct voting confirmations counted independently and releases exactly the requests queued no later with index >= recorded and <= commit (R2,R5); hinted heartbeats (immediate and periodic) go to voting members only (R3); pending reads never survive a term/role change (R4); follower forwarding/ReadIndexResp pass-through.", "§4/C06"),
 'C07': ("One-step induction over membership.handleConfigChange from an arbitrary valid membership (kinds disjoint, removed never return, only promotion, last voter stays, address uniqueness, ordered id rule) plus raft-side lemmas: one pending config change per leader log, extra ones replaced and reported dropped, applied change mirrors into remotes/nonVotings/witnesses, removed leader steps down, no campaign with unapplied committed entries, new leader inherits the pending flag, on-disk restart applies membership changes in the skipped range.", "§4/C07"),
 'C08': ("Twin-replica equivalence on the real rsm.StateMachine: a replica recovering from a snapshot taken at any cut (fresh follower, lagging follower with a prefix applied, restart) and then handed the whole batch ends in exactly the state (user update list, session table incl. LRU order, membership, applied index/term) of the replica that applied everything; InstallSnapshot restore lemmas on the raft side.", "§4/C08"),
 'C10': ("No failed write reported as success: every db save path over a KV stub failing at a symbolic call index must return an error or panic; success implies exactly one committed batch.", "§4/C10"),
 'C11': ("User state machine call discipline: every path into the user SM holds the lock the contract demands (Update/Sync/Open/Recover write lock, plain Lookup/Save read lock) checked against the executor's lock state; indexes reach Update exactly once, strictly increasing, across batches, snapshots and on-disk restarts; all 2-thread interleavings of NativeSM.Lookup vs Close at synchronisation-point granularity.", "§4/C11"),
 'C12': ("Exactly-one-terminal-result ledger for proposalShard under arbitrary symbolic op sequences (applied/dropped/tick+gc/close with symbolic keys, ids, ticks) and a 2-thread schedule exploration of committed() vs gc/Release/pool reuse.", "§4/C12"),
 'C13': ("Round trip, exact Size and SizeUpperLimit of the raftpb State and Entry codecs for fully symbolic 64-bit field values (pairs of fields for Entry) and small symbolic payloads.", "§4/C13"),
 'C14': ("BlockWriter->blockReader and SnapshotWriter->SnapshotReader byte identity for symbolic payloads under every write/read split, and detection of every single-byte alteration of a block stream (CRC modelled as an uninterpreted function with the one-byte-difference axiom).", "§4/C14"),
 'C15': ("Snapshot chunk transfer decided on the real transport.Chunk receiver, the real sender split/load code and the real rsm writer/validator over the real lni/vfs in-memory file system executed symbolically: the sender's chunks tile every file exactly; an in-order stream finalizes into byte-identical files with exactly one InstallSnapshot notification; under one perturbation of the stream (drop, duplicate, swap, foreign sender, wrong deployment id or binary version, corrupt byte, restart from chunk 0) exactly the next expected chunk is accepted, the stream finalizes iff the accepted chunks are the complete valid sequence, and the timeout collector removes a stalled stream's temp dir only after the timeout while a progressing stream is not collected; two streams do not interfere.", "§4/C15"),
 'C17': ("Bounded single-replica progress lemmas: tick-driven campaign within 2*electionTimeout for a voting member (never for non-voting/witness/removed), leader-transfer abort within electionTimeout and proposals accepted again, flow control cannot stay parked (heartbeat response un-pauses and re-replicates, rejection backs off, snapshot status ends snapshot state), NoOP reply to lower-term leaders under CheckQuorum/PreVote and step-down on higher terms. Cluster-level liveness is outside.", "§4/C17"),
 'C18': ("Role lemmas for every step (frame): non-voting/witness replicas never campaign or lead, witnesses never receive payloads or full snapshots, read hints only to voting members, raft-side kinds stay disjoint; plus TimeoutNow never makes a removed replica campaign, CheckQuorum counts active voting members only (independent count), quorums of commit/election/read confirmation checked against independent counts in the C02/C03/C06 harnesses.", "§4/C18"),
 'C20': ("ImportSnapshot decided end to end on one host (real tools.ImportSnapshot, server.Env/SSEnv, fileutil, rsm checksum code over the real in-memory FS, recording log store through Expert.LogDBFactory): a valid request finalizes the image and hands the log store a record whose membership is exactly the given list with every unlisted previous member removed; requests that re-admit a removed replica, change a member's address or kind, list the importing replica at another address, carry a checksum that does not match the file or miss the file are refused and leave the existing snapshot data untouched; plus the member-validation rules for fully symbolic replica ids.", "§4/C20"),
 'C19': ("entryLog/inMemory/Peer vs the logical-log abstraction: every query (lastIndex, firstIndex, term, lastTerm, upToDate, matchTerm, range reads, entriesToSave, entriesToApply) answers what the abstraction says for a symbolic log incl. pending snapshot, stale shadowed entries and the applied-index shortcut; append/restore commute with the abstraction and re-appended entries must be persisted again; one GetUpdate -> persist -> Commit cycle with arbitrary apply lag never changes the logical log, never hands an entry out twice, and keeps the representation invariant.", "§4/C19"),
}
NA = {
 'C01': "linearizability of concurrent client histories needs goroutine schedules through NodeHost/engine/transport on several replicas; not encodable by a bounded symbolic executor for Go built here (its mechanisms are decided as lemmas under C02/C06/C11/C12) — see DESIGN.md §4/C01, §5",
 'C16': "crash atomicity of snapshot directories is an ordering property of file-system effects with no symbolic data; deciding it is crash-point enumeration over a crash-aware FS model, a different technique — see DESIGN.md §4/C16, §5",
}
PENDING = "harness not built yet in this revision (planned, see DESIGN.md §4); not claimed until a check runs clean on the unchanged tree"
props = [json.loads(l)['id'] for l in open(f'{V}/properties.jsonl')]
checks = []
na = []
for p in props:
    if p in CLAIMS:
        text, ref = CLAIMS[p]
        checks.append({
            "property_id": p,
            "quick_cmd": f"bin/vcheck run {p} --tier quick",
            "thorough_cmd": f"bin/vcheck run {p} --tier thorough",
            "evidence_file": f"/verif/evidence/{p}.json",
            "replay_cmd_template": "bin/vcheck replay {path}",
            "engine": "gosym",
            "level_claimed": {"category": "other", "text": "Bounded symbolic model checking of the real code (SMT-decided). " + text, "design_ref": "DESIGN.md " + ref},
            "level_note": "Bounds, stubs and scaled constants are echoed in the evidence file on every run." + NOTE_COMMON,
            "technique": TECH,
        })
    else:
        na.append({"property_id": p, "reason": NA.get(p, PENDING)})
m = {
 "version": 1,
 "setup_cmd": "cd /verif/engine && GOFLAGS=-mod=mod GOPROXY=off GOSUMDB=off GOTOOLCHAIN=local go build -o /verif/bin/vcheck .",
 "hooks": {"guard": "verif", "enable": "none needed: harnesses, stubs and scaled constants are injected through go/packages overlays (and go test -overlay for native replays); /repo carries no hook commits", "baseline_off_cmd": base, "source_commits": [], "add_only": True},
 "engines": [{"name": "gosym", "path": "engine", "serves_properties": sorted(CLAIMS), "kind_free_text": "bounded symbolic executor for go/ssa (x/tools v0.29.0) with a z3 -in back end, written for this task"}],
 "checks": checks,
 "not_applicable": na,
 "notes": "Genuine defects found by the checks and repaired in /repo by 'fix:' commits are listed in KNOWN_FINDINGS.json (fixed entries suppress nothing).",
}
json.dump(m, open(f'{V}/MANIFEST.json', 'w'), indent=1)
print("claimed", sorted(CLAIMS), "n/a", [x['property_id'] for x in na])
