#!/bin/sh
# usage: seed_overlay.sh <patch.diff> -- prints a VERIF_EXTRA_OVERLAY value that applies the
# patch to copies of the touched files under /tmp/seedov.$$ (development aid: lets a seeded
# change be checked without modifying /repo, e.g. while other checks are running)
d=${2:-/tmp/seedov.$$}; rm -rf $d; mkdir -p $d
out=""
for f in $(grep '^+++ b/' "$1" | sed 's|^+++ b/||'); do
  mkdir -p $d/$(dirname $f); cp /repo/$f $d/$f
  out="$out,/repo/$f=$d/$f"
done
(cd $d && patch -s -p1 < "$1") || exit 1
echo "${out#,}"
