#!/bin/sh
# usage: run_seed.sh <seed-name> [tier] [props...]   e.g. run_seed.sh C13a quick C13
# Applies /verif/seeded/<name>/patch.diff to /repo, runs the given checks, and restores /repo.
name=$1; tier=${2:-quick}; shift; [ $# -gt 0 ] && shift
props=${*:-$(echo $name | cut -c1-3)}
cd /repo || exit 2
if ! git diff --quiet; then echo "/repo has uncommitted changes; refusing"; exit 2; fi
git apply /verif/seeded/$name/patch.diff || { echo "patch does not apply"; exit 2; }
trap 'git -C /repo checkout -- . ' EXIT INT TERM
cd /verif
for p in $props; do
  ./bin/vcheck run $p --tier $tier --no-evidence > /tmp/seedrun_${name}_$p.log 2>&1; rc=$?
  echo "SEED $name check=$p tier=$tier exit=$rc $(grep -c '^VIOLATION' /tmp/seedrun_${name}_$p.log) violation line(s)"
  grep '^VIOLATION\|^INCONCLUSIVE' /tmp/seedrun_${name}_$p.log | head -5
done
