#!/usr/bin/env python3
"""Runs the registered quick check of each seeded change's property against the change
(git -C /repo apply; vcheck run; git -C /repo checkout -- .), records the outcome in
/verif/seeded/<id>/meta.json ('checks') and writes /verif/seeded/MATRIX.md.

usage: seed_matrix.py [seed ...]        (default: every directory under /verif/seeded)
Refuses to start when /repo has uncommitted changes or another vcheck is running."""
import json, os, re, subprocess, sys, time

V = os.environ.get('VERIF_DIR', '/verif')
ENV = dict(os.environ, GOFLAGS='-mod=mod', GOPROXY='off', GOSUMDB='off', GOTOOLCHAIN='local')
# extra properties whose checks are also run for a seed (the harness that is sensitive to it is tagged there)
EXTRA = {}


def sh(cmd, **kw):
    return subprocess.run(cmd, shell=True, capture_output=True, text=True, env=ENV, **kw)


def main():
    overlay = '--overlay' in sys.argv
    jobs = ''
    for a in sys.argv[1:]:
        if a.startswith('-j'):
            jobs = ' -j ' + a[2:].lstrip('=')
    sys.argv = [a for a in sys.argv if not a.startswith('-')]
    seeds = sys.argv[1:] or sorted(d for d in os.listdir(f'{V}/seeded') if os.path.isdir(f'{V}/seeded/{d}'))
    if not overlay:
        if sh('git -C /repo status --porcelain').stdout.strip():
            sys.exit('/repo has uncommitted changes; refusing')
        if sh('pgrep -f "[v]check run"').stdout.strip():
            sys.exit('another vcheck is running; refusing (it would read the seeded tree)')
    for s in seeds:
        d = f'{V}/seeded/{s}'
        prop = s[:3]
        meta = json.load(open(f'{d}/meta.json')) if os.path.exists(f'{d}/meta.json') else {}
        pre = ''
        if overlay:
            ovdir = f'/tmp/seedov.{os.getpid()}.{s}'
            r = sh(f'sh {V}/tools/seed_overlay.sh {d}/patch.diff {ovdir}')
            if r.returncode != 0 or not r.stdout.strip():
                print(s, 'patch does not apply to a copy', r.stderr.strip())
                continue
            pre = 'VERIF_EXTRA_OVERLAY=' + r.stdout.strip() + ' '
        else:
            r = sh(f'git -C /repo apply {d}/patch.diff')
            if r.returncode != 0:
                print(s, 'patch does not apply', r.stderr.strip())
                continue
        results = []
        try:
            for p in [prop] + EXTRA.get(s, []):
                t0 = time.time()
                r = sh(f'cd {V} && {pre}./bin/vcheck run {p} --tier quick --no-evidence --no-selftest{jobs}')
                if r.returncode == 2 and 'ENGINE-MISMATCH' in r.stdout:
                    # a native replay that did not reproduce is inconclusive; try once more
                    r = sh(f'cd {V} && {pre}./bin/vcheck run {p} --tier quick --no-evidence --no-selftest{jobs}')
                viol = re.findall(r'^VIOLATION property=(\S+) replay=\S+ harness=(\S+) (?:assert|panic)=(.*)$', r.stdout, re.M)
                inconc = re.findall(r'^INCONCLUSIVE property=\S+ reason=(.*)$', r.stdout, re.M)
                results.append({'check': f'bin/vcheck run {p} --tier quick', 'exit': r.returncode,
                                'violations': [{'harness': h, 'id': a.strip()} for _, h, a in viol],
                                'inconclusive': [x[:160] for x in inconc][:3], 'seconds': round(time.time() - t0)})
        finally:
            if not overlay:
                sh('git -C /repo checkout -- .')
            else:
                sh('rm -rf ' + ovdir)
        caught = any(x['exit'] == 1 and x['violations'] for x in results)
        meta['property'] = prop
        rp = f'{d}/README.md'
        if os.path.exists(rp):
            txt = open(rp).read()
            m = re.search(r'(?is)((?:what (?:it|a [a-z ]+) needs?|\*\*needs|#+ *needs|needed to manifest|to manifest:|manifests? (?:when|if|only)|\bneeds[:,]).{40,900}?)(?:\n\s*\n|\n#|\Z)', txt)
            if m:
                meta['needs'] = ' '.join(m.group(1).replace('*', '').replace('#', '').split())
            meta.setdefault('summary', txt.split('\n', 1)[0].lstrip('# ').strip())
        meta['checks'] = results
        meta['caught_by_quick_check'] = caught
        meta['how_run'] = ('patched copies of the touched files overlaid on /repo (VERIF_EXTRA_OVERLAY, tools/seed_overlay.sh); bin/vcheck run <property> --tier quick  (tools/seed_matrix.py --overlay)'
                           if overlay else 'git -C /repo apply patch.diff; bin/vcheck run <property> --tier quick --no-evidence; git -C /repo checkout -- .  (tools/seed_matrix.py)')
        json.dump(meta, open(f'{d}/meta.json', 'w'), indent=1)
        print(s, 'CAUGHT' if caught else 'missed', [(x['exit'], [v['harness'] + ':' + v['id'] for v in x['violations']][:2]) for x in results], flush=True)
    # matrix over all seeds (first-contact / current / targeted columns)
    os.system(f'VERIF_DIR={V} python3 {V}/tools/write_matrix.py')


if __name__ == '__main__':
    main()
