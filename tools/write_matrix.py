#!/usr/bin/env python3
"""Writes seeded/MATRIX.md from the seeds' meta.json files (no check is run).
Columns: result of the last run of the registered quick check of the seed's property against the
seed (tools/seed_matrix.py), the first-contact result (before the checks were strengthened for
it, where recorded), and - where the full quick check was not re-run after a strengthening -
the targeted run (one harness, `--only`, same overlay mechanism) that shows the change caught."""
import json, os
V = os.environ.get('VERIF_DIR', '/verif')
rows = []
for s in sorted(d for d in os.listdir(f'{V}/seeded') if os.path.isdir(f'{V}/seeded/{d}')):
    mp = f'{V}/seeded/{s}/meta.json'
    if not os.path.exists(mp):
        continue
    m = json.load(open(mp))
    what = m.get('summary') or m.get('what') or ''
    if not what and os.path.exists(f'{V}/seeded/{s}/README.md'):
        what = open(f'{V}/seeded/{s}/README.md').readline().lstrip('# ').strip()
    hs = []
    for x in m.get('checks', []):
        for v in x['violations']:
            e = f"{v['harness'].replace('VHarness_', '')}: {v['id']}"
            if e not in hs:
                hs.append(e)
    t = m.get('targeted')
    if m.get('caught_by_quick_check'):
        verdict = 'caught'
    elif t:
        verdict = 'caught after strengthening (targeted run)'
        hs = [f"{t['harness'].replace('VHarness_', '')}: {t['id']}"]
    elif 'checks' in m:
        verdict = '**not caught**'
    else:
        verdict = 'not run'
    fc = m.get('first_contact', {}).get('caught')
    first = {True: 'caught', False: 'missed', None: '-'}[fc]
    if t and fc is None:
        first = 'missed'
    if fc is False and m.get('caught_by_quick_check'):
        verdict = 'caught (after strengthening)'
    rows.append(f"| {s} | {what[:110]} | {first} | {verdict} | {'; '.join(hs[:3])[:230]} |")
with open(f'{V}/seeded/MATRIX.md', 'w') as f:
    f.write('| seed | change | first contact | quick check of its property now | harness: failing assertion (first three) |\n|---|---|---|---|---|\n' + '\n'.join(rows) + '\n')
print('wrote seeded/MATRIX.md', len(rows), 'seeds')
