#!/bin/sh
# Runs the repository's pinned test suite on /repo's current tree (the four root-package style
# test binaries open TCP ports, so everything runs in a private network namespace) and compares
# the result with the stable_pass list of /root/.vp/BASELINE.json.
export GOFLAGS=-mod=mod GOPROXY=off GOSUMDB=off GOTOOLCHAIN=local
out=${1:-/tmp/baseline.gotest.json}
cd /repo && unshare -n sh -c "ip link set lo up; go test -json -vet=off -count=1 -timeout 25m ./..." > $out 2>/tmp/baseline.stderr
python3 - "$out" <<'PY'
import json, sys
res = {}
for l in open(sys.argv[1]):
    try:
        e = json.loads(l)
    except Exception:
        continue
    if e.get('Test') and e.get('Action') in ('pass', 'fail', 'skip'):
        res[e['Package'] + '::' + e['Test']] = e['Action']
base = json.load(open('/root/.vp/BASELINE.json'))
stable = base.get('stable_pass', [])
bad = [t for t in stable if res.get(t) != 'pass']
print('tests run:', len(res), 'passed:', sum(1 for v in res.values() if v == 'pass'), 'failed:', sum(1 for v in res.values() if v == 'fail'))
print('stable_pass tests:', len(stable), 'not passing now:', len(bad))
for t in bad[:40]:
    print('  NOT PASSING', t, res.get(t))
PY
