#!/usr/bin/env python3
"""Re-inserts the as-built sections (§10-§13, kept under tools/design_parts/) into DESIGN.md
before Appendix A, filling the seed matrix from seeded/MATRIX.md."""
import os, re
V = '/verif'
s = open(f'{V}/DESIGN.md').read()
start = s.find('## 10. As built')
app = s.index('## Appendix A')
if start < 0:
    start = app
parts = ''.join(open(f'{V}/tools/design_parts/{n}').read() for n in ('design_s10.md', 'design_s11.md', 'design_s12.md'))
mx = open(f'{V}/seeded/MATRIX.md').read() if os.path.exists(f'{V}/seeded/MATRIX.md') else '(matrix not generated yet: run tools/seed_matrix.py)\n'
parts = parts.replace('MATRIX_PLACEHOLDER', mx)
import json, glob
rows = ['| property | tier | harnesses | paths | solver queries | solver s | wall s | sampled paths replayed natively (agree) |', '|---|---|---|---|---|---|---|---|']
for f in sorted(glob.glob(f'{V}/evidence/C*.json')):
    e = json.load(open(f))
    c = e['coverage']
    tv = c.get('translator_validation', {})
    rows.append(f"| {e['property_id']} | {e['tier']} | {len(c.get('harnesses', []))} | {c.get('evaluations')} | {c.get('queries', {}).get('total')} | {c.get('solver_time_s', 0):.0f} | {e.get('wall_s', 0):.0f} | {tv.get('sampled_paths', '-')} ({tv.get('agreed', '-')}) |")
parts = parts.replace('COST_TABLE', '\n'.join(rows))
s = s[:start] + parts + '---------------------------------------------------------------------------\n\n' + s[app:]
open(f'{V}/DESIGN.md', 'w').write(s)
print('DESIGN.md assembled,', len(s.splitlines()), 'lines')
