package transport

import (
	"testing"

	"github.com/lni/dragonboat/v4/internal/rsm"
	"github.com/lni/dragonboat/v4/internal/settings"
	"github.com/lni/dragonboat/v4/internal/vfs"
	pb "github.com/lni/dragonboat/v4/raftpb"
)

// A chunk of the main snapshot file is altered in transit. The incremental
// validator notices (Add returns false for the chunk during which the damaged
// block is checked) but the stream stays tracked with its expected chunk id
// already advanced; when the remaining chunks of the stream are delivered the
// final validation passes and the snapshot is finalized and announced although
// the file on disk lacks a chunk and holds a damaged block.
func TestF10StreamWithCorruptChunkNeverFinalizes(t *testing.T) {
	fs := vfs.NewMemFS()
	if err := fs.MkdirAll("/src", 0755); err != nil {
		t.Fatal(err)
	}
	fp := "/src/snapshot-0000000000000064.gbsnap"
	w, err := rsm.NewSnapshotWriter(fp, pb.NoCompression, fs)
	if err != nil {
		t.Fatal(err)
	}
	payload := make([]byte, 5*int(snapshotChunkSize)+777)
	for i := range payload {
		payload[i] = byte(i * 7)
	}
	if _, err := w.Write(payload); err != nil {
		t.Fatal(err)
	}
	if err := w.Close(); err != nil {
		t.Fatal(err)
	}
	st, err := fs.Stat(fp)
	if err != nil {
		t.Fatal(err)
	}
	msg := pb.Message{Type: pb.InstallSnapshot, From: 1, To: 2, ShardID: 100,
		Snapshot: pb.Snapshot{Filepath: fp, FileSize: uint64(st.Size()), Index: 100, Term: 5}}
	chunks, err := splitSnapshotMessage(msg, fs)
	if err != nil {
		t.Fatal(err)
	}
	for i := range chunks {
		d, err := loadChunkData(chunks[i], nil, fs)
		if err != nil {
			t.Fatal(err)
		}
		chunks[i].Data = d
		chunks[i].DeploymentId = settings.UnmanagedDeploymentID
	}
	if len(chunks) < 5 {
		t.Fatalf("chunk count %d", len(chunks))
	}
	root := "/recv/snapshot-100-2"
	if err := fs.MkdirAll(root, 0755); err != nil {
		t.Fatal(err)
	}
	notified := 0
	c := NewChunk(func(pb.MessageBatch) { notified++ }, func(uint64, uint64, uint64) {},
		func(uint64, uint64) string { return root }, settings.UnmanagedDeploymentID, fs)
	// one bit of chunk 1 flipped in transit
	d := append([]byte(nil), chunks[1].Data...)
	d[100] ^= 0x10
	chunks[1].Data = d
	rejected := 0
	for i := range chunks {
		if !c.Add(chunks[i]) {
			rejected++
			t.Logf("chunk %d rejected", i)
		}
	}
	if rejected == 0 {
		t.Fatalf("the altered chunk was never rejected")
	}
	names, _ := fs.List(root)
	if notified != 0 {
		t.Errorf("a stream with a corrupt chunk was finalized and announced (%d notification(s)), dir content %v", notified, names)
	}
	for _, n := range names {
		if n == "snapshot-0000000000000064" {
			fi, _ := fs.Stat(root + "/" + n + "/snapshot-0000000000000064.gbsnap")
			t.Errorf("final snapshot directory exists; file size %d, source size %d", fi.Size(), st.Size())
		}
	}
}
