package transport

import (
	"testing"

	"github.com/lni/dragonboat/v4/internal/rsm"
	"github.com/lni/dragonboat/v4/internal/settings"
	"github.com/lni/dragonboat/v4/internal/vfs"
	pb "github.com/lni/dragonboat/v4/raftpb"
)

// After two chunks of a stream a chunk 0 with a damaged header arrives (a
// restart of the stream that went wrong). It is refused, but the temporary
// directory of the first attempt has already been removed while the attempt
// itself stays tracked: its next chunk is then accepted and the receiver
// panics when it tries to append to a file in the removed directory.
func TestF11RefusedRestartDoesNotLeaveTheOldAttemptTracked(t *testing.T) {
	fs := vfs.NewMemFS()
	if err := fs.MkdirAll("/src", 0755); err != nil {
		t.Fatal(err)
	}
	fp := "/src/snapshot-0000000000000064.gbsnap"
	w, err := rsm.NewSnapshotWriter(fp, pb.NoCompression, fs)
	if err != nil {
		t.Fatal(err)
	}
	payload := make([]byte, 2*int(snapshotChunkSize)+777)
	if _, err := w.Write(payload); err != nil {
		t.Fatal(err)
	}
	if err := w.Close(); err != nil {
		t.Fatal(err)
	}
	st, err := fs.Stat(fp)
	if err != nil {
		t.Fatal(err)
	}
	msg := pb.Message{Type: pb.InstallSnapshot, From: 1, To: 2, ShardID: 100,
		Snapshot: pb.Snapshot{Filepath: fp, FileSize: uint64(st.Size()), Index: 100, Term: 5}}
	chunks, err := splitSnapshotMessage(msg, fs)
	if err != nil {
		t.Fatal(err)
	}
	for i := range chunks {
		d, err := loadChunkData(chunks[i], nil, fs)
		if err != nil {
			t.Fatal(err)
		}
		chunks[i].Data = d
		chunks[i].DeploymentId = settings.UnmanagedDeploymentID
	}
	if len(chunks) != 3 {
		t.Fatalf("chunk count %d", len(chunks))
	}
	root := "/recv/snapshot-100-2"
	if err := fs.MkdirAll(root, 0755); err != nil {
		t.Fatal(err)
	}
	notified := 0
	c := NewChunk(func(pb.MessageBatch) { notified++ }, func(uint64, uint64, uint64) {},
		func(uint64, uint64) string { return root }, settings.UnmanagedDeploymentID, fs)
	if !c.Add(chunks[0]) || !c.Add(chunks[1]) {
		t.Fatalf("in order chunks refused")
	}
	bad := chunks[0]
	bad.Data = append([]byte(nil), bad.Data...)
	bad.Data[20] ^= 0x01 // inside the checksummed header
	if c.Add(bad) {
		t.Fatalf("chunk 0 with a damaged header accepted")
	}
	defer func() {
		if r := recover(); r != nil {
			t.Fatalf("receiver panicked on the next chunk of the abandoned attempt: %v", r)
		}
	}()
	if c.Add(chunks[2]) {
		t.Errorf("chunk of the abandoned attempt accepted")
	}
	if notified != 0 {
		t.Errorf("snapshot announced")
	}
}
