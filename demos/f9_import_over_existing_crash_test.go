package dragonboat

// Demonstration (not part of the repository's test suite) of F9:
// tools.ImportSnapshot on a host that already holds a snapshot of the replica
// removed every existing snapshot directory *before* the imported snapshot was
// recorded in the LogDB.  A power failure in between left the LogDB pointing
// at a snapshot whose directory was gone: the replica could not be restarted.

import (
	"testing"

	"github.com/lni/dragonboat/v4/config"
	"github.com/lni/dragonboat/v4/internal/fileutil"
	"github.com/lni/dragonboat/v4/internal/rsm"
	"github.com/lni/dragonboat/v4/internal/server"
	"github.com/lni/dragonboat/v4/raftio"
	pb "github.com/lni/dragonboat/v4/raftpb"
	"github.com/lni/dragonboat/v4/tools"
	gvfs "github.com/lni/vfs"
)

type f9Clock struct {
	mem     *gvfs.MemFS
	syncs   int
	crashAt int
	crashed bool
}

func (j *f9Clock) MaybeError(op gvfs.Op) error {
	if op == gvfs.OpSync {
		if !j.crashed && j.crashAt >= 0 && j.syncs == j.crashAt {
			j.crashed = true
			j.mem.SetIgnoreSyncs(true)
		}
		j.syncs++
	}
	return nil
}

type f9Store struct {
	raftio.ILogDB
	clock            *f9Clock
	current, durable pb.Snapshot
}

func (l *f9Store) Name() string         { return "f9store" }
func (l *f9Store) Close() error         { return nil }
func (l *f9Store) BinaryFormat() uint32 { return raftio.PlainLogDBBinVersion }
func (l *f9Store) ImportSnapshot(ss pb.Snapshot, replicaID uint64) error {
	l.current = ss
	if !l.clock.crashed {
		l.durable = ss
	}
	return nil
}

type f9Factory struct{ db *f9Store }

func (f *f9Factory) Create(config.NodeHostConfig, config.LogDBCallback, []string, []string) (raftio.ILogDB, error) {
	return f.db, nil
}
func (f *f9Factory) Name() string { return "f9store" }

func f9Export(t *testing.T, fs gvfs.FS, dir string, index uint64) {
	if err := fileutil.MkdirAll(dir, fs); err != nil {
		t.Fatal(err)
	}
	fp := fs.PathJoin(dir, server.GetSnapshotFilename(index))
	w, err := rsm.NewSnapshotWriter(fp, pb.NoCompression, fs)
	if err != nil {
		t.Fatal(err)
	}
	if _, err := w.Write([]byte{1, 2, 3}); err != nil {
		t.Fatal(err)
	}
	if err := w.Close(); err != nil {
		t.Fatal(err)
	}
	st, _ := fs.Stat(fp)
	ss := pb.Snapshot{Filepath: fp, FileSize: uint64(st.Size()), Index: index, Term: 5, ShardID: 7,
		Membership: pb.Membership{Addresses: map[uint64]string{1: "a1", 2: "a2"}}, Checksum: w.GetPayloadChecksum(), Type: pb.RegularStateMachine}
	if err := fileutil.CreateFlagFile(dir, server.MetadataFilename, &ss, fs); err != nil {
		t.Fatal(err)
	}
	if err := fileutil.SyncDir(dir, fs); err != nil {
		t.Fatal(err)
	}
	if err := fileutil.SyncDir("/", fs); err != nil {
		t.Fatal(err)
	}
}

func TestVerifDemoImportOverExistingSnapshotCrash(t *testing.T) {
	bad := 0
	for k := 0; k < 40; k++ {
		mem := gvfs.NewStrictMem()
		clock := &f9Clock{mem: mem, crashAt: -1}
		fs := gvfs.Wrap(mem, clock)
		store := &f9Store{clock: clock}
		nh := config.NodeHostConfig{NodeHostDir: "/nh", RaftAddress: "a1", RTTMillisecond: 100, DeploymentID: 9}
		nh.Expert.FS = fs
		nh.Expert.LogDBFactory = &f9Factory{db: store}
		members := map[uint64]string{1: "a1"}
		f9Export(t, fs, "/export0", 50)
		if err := tools.ImportSnapshot(nh, "/export0", members, 1); err != nil {
			t.Fatal(err)
		}
		f9Export(t, fs, "/export", 100)
		clock.crashAt = clock.syncs + k
		if err := tools.ImportSnapshot(nh, "/export", members, 1); err != nil {
			t.Fatal(err)
		}
		mem.SetIgnoreSyncs(true)
		mem.ResetToSyncedState()
		mem.SetIgnoreSyncs(false)
		rec := store.durable
		if rec.Index == 0 {
			t.Fatalf("crash point %d: no record at all", k)
		}
		if _, err := fs.Stat(rec.Filepath); err != nil {
			bad++
			t.Logf("power failure before fsync %d of the import: the LogDB records snapshot %d but %s is gone (%v)", k, rec.Index, rec.Filepath, err)
		}
	}
	if bad > 0 {
		t.Fatalf("%d crash points leave the recorded snapshot without its file", bad)
	}
}
