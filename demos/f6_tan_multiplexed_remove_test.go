package tan

// Demonstration (not part of the repository's test suite): in the multiplexed
// mode of Tan, RemoveNodeData for one replica drops every older log file of the
// shared db from the version set, including files that hold the log of another
// replica; that replica's entries become unreadable (after the background
// worker deleted the files, or after the next reopen).

import (
	"testing"

	"github.com/lni/dragonboat/v4/config"
	"github.com/lni/dragonboat/v4/internal/vfs"
	pb "github.com/lni/dragonboat/v4/raftpb"
)

func TestVerifDemoMultiplexedRemoveNodeData(t *testing.T) {
	fs := vfs.NewMemFS()
	cfg := config.NodeHostConfig{}
	cfg.Expert.FS = fs
	cfg.Expert.LogDB = config.GetTinyMemLogDBConfig()
	open := func() *LogDB {
		db, err := CreateLogMultiplexedTan(cfg, nil, []string{"/tan"}, nil)
		if err != nil {
			t.Fatal(err)
		}
		return db
	}
	db := open()
	es := func() []pb.Entry {
		return []pb.Entry{{Index: 1, Term: 1, Cmd: []byte("a")}, {Index: 2, Term: 1, Cmd: []byte("b")}}
	}
	uds := []pb.Update{
		{ShardID: 1, ReplicaID: 1, State: pb.State{Term: 1, Vote: 1, Commit: 1}, EntriesToSave: es()},
		{ShardID: 1, ReplicaID: 2, State: pb.State{Term: 1, Vote: 1, Commit: 1}, EntriesToSave: es()},
	}
	if err := db.SaveRaftState(uds, 1); err != nil {
		t.Fatal(err)
	}
	if err := db.Close(); err != nil {
		t.Fatal(err)
	}
	// every open starts a new log file; replica 1's log now lives in an older file
	db = open()
	if err := db.RemoveNodeData(1, 2); err != nil {
		t.Fatal(err)
	}
	if err := db.Close(); err != nil {
		t.Fatal(err)
	}
	db = open()
	defer db.Close()
	rs, err := db.ReadRaftState(1, 1, 0)
	if err != nil {
		t.Fatalf("replica (1,1) lost its saved state after RemoveNodeData(1,2): %v", err)
	}
	ents, _, err := db.IterateEntries(nil, 0, 1, 1, 1, 3, 1<<30)
	if err != nil || len(ents) != 2 || rs.EntryCount != 2 {
		t.Fatalf("replica (1,1) lost its log after RemoveNodeData(1,2): count=%d len=%d err=%v", rs.EntryCount, len(ents), err)
	}
}
