#!/bin/sh
# usage: run_demo.sh <demo file> <repo-relative package dir> <test regex>
# Runs a native demonstration test from /verif/demos against /repo through a go overlay (nothing is written into /repo).
set -e
export GOFLAGS=-mod=mod GOPROXY=off GOSUMDB=off GOTOOLCHAIN=local
f=$(readlink -f "$1"); dir=$2; re=$3
tmp=$(mktemp -d); trap 'rm -rf $tmp' EXIT
if [ "$dir" = "." ]; then virt=/repo/zz_demo_test.go; pat=.; else virt=/repo/$dir/zz_demo_test.go; pat=./$dir; fi
printf '{"Replace":{"%s":"%s"}}' "$virt" "$f" > $tmp/ov.json
cd /repo && go test -vet=off -count=1 -timeout 300s -run "$re" -overlay $tmp/ov.json $pat
