// Native demonstration of finding F2 (property C11): on the unrepaired tree
// NativeSM.Close runs the user Close while a Lookup that already passed the
// destroyed check is still inside the user state machine.
// Run:  cd /repo && go test -vet=off -count=1 -run TestVerifF2 \
//         -overlay <json mapping /repo/internal/rsm/zz_f2_test.go to this file> ./internal/rsm
package rsm

import (
	"io"
	"sync/atomic"
	"testing"
	"time"

	"github.com/lni/dragonboat/v4/config"
	sm "github.com/lni/dragonboat/v4/statemachine"
)

type f2SM struct {
	inLookup     int32
	lookupIn     chan struct{}
	closeStarted chan struct{}
	overlap      int32
}

func (u *f2SM) Update(e sm.Entry) (sm.Result, error) { return sm.Result{}, nil }
func (u *f2SM) Lookup(q interface{}) (interface{}, error) {
	atomic.StoreInt32(&u.inLookup, 1)
	close(u.lookupIn)
	select {
	case <-u.closeStarted: // Close entered user code while we are still in Lookup
	case <-time.After(300 * time.Millisecond):
	}
	atomic.StoreInt32(&u.inLookup, 0)
	return nil, nil
}
func (u *f2SM) SaveSnapshot(io.Writer, sm.ISnapshotFileCollection, <-chan struct{}) error { return nil }
func (u *f2SM) RecoverFromSnapshot(io.Reader, []sm.SnapshotFile, <-chan struct{}) error   { return nil }
func (u *f2SM) Close() error {
	if atomic.LoadInt32(&u.inLookup) == 1 {
		atomic.StoreInt32(&u.overlap, 1)
	}
	close(u.closeStarted)
	return nil
}

func TestVerifF2LookupOverlapsClose(t *testing.T) {
	u := &f2SM{lookupIn: make(chan struct{}), closeStarted: make(chan struct{})}
	ds := NewNativeSM(config.Config{ShardID: 1, ReplicaID: 1}, NewInMemStateMachine(u), make(chan struct{}))
	done := make(chan struct{})
	go func() {
		ds.Lookup(nil)
		close(done)
	}()
	<-u.lookupIn
	if err := ds.Close(); err != nil {
		t.Fatal(err)
	}
	<-done
	if atomic.LoadInt32(&u.overlap) == 1 {
		t.Fatalf("user Close ran while a Lookup was inside the user state machine")
	}
	if _, err := ds.Lookup(nil); err != ErrShardClosed {
		t.Fatalf("Lookup after Close: %v", err)
	}
}
