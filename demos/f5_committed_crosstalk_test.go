// Native demonstration of finding F5 (property C12): proposalShard.committed
// looked the request up under p.mu but delivered the Committed notification
// after releasing the lock.  In that window the request can be timed out by
// gc, released by the client and handed out again by the pool for a different
// proposal, which then receives a Committed notification that belongs to the
// old request.  The window is forced with a pause hook that f5_demo.sh inserts
// into an overlay copy of request.go (between the lookup and the notification;
// no other line changes).
package dragonboat

import (
	"runtime"
	"runtime/debug"
	"sync"
	"testing"

	"github.com/lni/dragonboat/v4/client"
	"github.com/lni/dragonboat/v4/config"
)

func TestVerifF5CommittedCrossTalk(t *testing.T) {
	defer runtime.GOMAXPROCS(runtime.GOMAXPROCS(1))
	defer debug.SetGCPercent(debug.SetGCPercent(-1))
	pool := &sync.Pool{}
	pool.New = func() interface{} {
		obj := &RequestState{}
		obj.CompletedC = make(chan RequestResult, 1)
		obj.pool = pool
		return obj
	}
	p := newPendingProposalShard(config.Config{ShardID: 1, ReplicaID: 1}, true, pool, newEntryQueue(4, 0))
	p.gcTick = 1
	p.tick(10)
	rs1, err := p.propose(&client.Session{ShardID: 1, ClientID: 1, SeriesID: 1}, nil, 100, 5)
	if err != nil {
		t.Fatal(err)
	}
	var rs2 *RequestState
	vF5Hook = func() {
		vF5Hook = nil
		p.tick(20)
		p.gc() // deadline 15 has passed: request 100 is timed out
		r := <-rs1.CompletedC
		if !r.Timeout() {
			t.Fatalf("expected timeout, got %v", r.code)
		}
		rs1.Release()
		rs2, err = p.propose(&client.Session{ShardID: 1, ClientID: 2, SeriesID: 1}, nil, 200, 5)
		if err != nil {
			t.Fatal(err)
		}
	}
	p.committed(1, 1, 100)
	if rs2 == nil {
		t.Skip("hook did not run: the window between lookup and notification no longer exists")
	}
	if rs2 != rs1 {
		t.Skip("pool did not reuse the released object")
	}
	if len(rs2.committedC) != 0 {
		t.Fatalf("request key=200 (never committed) holds a Committed notification that was meant for request key=100")
	}
}
