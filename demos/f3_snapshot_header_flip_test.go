package rsm

// Demonstration (not part of the repository's test suite): a snapshot file
// written by SnapshotWriter carries no verified checksum over its header (the
// 4-byte CRC slot after the header is left zero, which readers take as "do not
// check"; the HeaderChecksum inside the protobuf is never compared).  Flipping
// the bit that turns CompressionType Snappy into NoCompression is therefore
// not detected: the loader picks the decompressor from the header and hands
// the still-compressed bytes onward as the snapshot's content.

import (
	"bytes"
	"io"
	"testing"

	"github.com/lni/goutils/dio"

	"github.com/lni/dragonboat/v4/internal/vfs"
	pb "github.com/lni/dragonboat/v4/raftpb"
)

func demoCompressionType(ct pb.CompressionType) dio.CompressionType {
	if ct == pb.Snappy {
		return dio.Snappy
	}
	return dio.NoCompression
}

func TestVerifDemoSnapshotHeaderBitFlip(t *testing.T) {
	fs := vfs.NewMemFS()
	payload := bytes.Repeat([]byte("dragonboat-snapshot-payload-"), 64)
	w, err := NewSnapshotWriter("/ss", pb.Snappy, fs)
	if err != nil {
		t.Fatal(err)
	}
	cw := dio.NewCompressor(dio.Snappy, w)
	if _, err := cw.Write(payload); err != nil {
		t.Fatal(err)
	}
	if err := cw.Close(); err != nil {
		t.Fatal(err)
	}
	f, _ := fs.Open("/ss")
	orig, _ := io.ReadAll(f)
	f.Close()
	hlen := int(orig[0])
	load := func(file []byte) (got []byte, failed bool) {
		defer func() {
			if r := recover(); r != nil {
				failed = true
			}
		}()
		nf, _ := fs.Create("/flipped")
		nf.Write(file)
		nf.Close()
		r, h, err := NewSnapshotReader("/flipped", fs)
		if err != nil {
			return nil, true
		}
		// what snapshotter.Load does: the decompressor is chosen from the header
		if h.CompressionType != pb.Snappy && h.CompressionType != pb.NoCompression {
			return nil, true // compressionType() panics on unknown values
		}
		cr := dio.NewDecompressor(demoCompressionType(h.CompressionType), r)
		got, err = io.ReadAll(cr)
		if err != nil {
			return nil, true
		}
		if err := cr.Close(); err != nil {
			return nil, true
		}
		return got, false
	}
	if got, failed := load(orig); failed || !bytes.Equal(got, payload) {
		t.Fatalf("unaltered file does not load")
	}
	for pos := 0; pos < 8+hlen+4; pos++ {
		for bit := uint(0); bit < 8; bit++ {
			file := append([]byte(nil), orig...)
			file[pos] ^= 1 << bit
			got, failed := load(file)
			if !failed && !bytes.Equal(got, payload) {
				t.Fatalf("bit %d of header byte %d flipped: load succeeded and returned %d altered bytes instead of the %d original ones",
					bit, pos, len(got), len(payload))
			}
		}
	}
}
