package logdb

// Demonstration (not part of the repository's test suite) of F8: the batched
// entry format reads the last stored batch back when a save starts in the
// middle of a batch and the batch is not in the cache (first save after a
// restart).  Before the fix getBatchFromDB reported *any* KV error as "no such
// batch": the save then wrote a batch record holding only the new entries over
// the stored one and returned success - the earlier entries of that batch were
// gone although the storage had reported an error during the save.

import (
	"errors"
	"testing"

	"github.com/lni/dragonboat/v4/internal/logdb/kv"
	pb "github.com/lni/dragonboat/v4/raftpb"
)

type demoKV struct {
	m       map[string][]byte
	failGet bool
	failed  bool
}

type demoWB struct{ puts map[string][]byte; dels []string }

func (w *demoWB) Destroy()        {}
func (w *demoWB) Put(k, v []byte) { w.puts[string(k)] = append([]byte(nil), v...) }
func (w *demoWB) Delete(k []byte) { w.dels = append(w.dels, string(k)) }
func (w *demoWB) Clear()          { w.puts = map[string][]byte{}; w.dels = nil }
func (w *demoWB) Count() int      { return len(w.puts) + len(w.dels) }

func (s *demoKV) Name() string { return "demo" }
func (s *demoKV) Close() error { return nil }
func (s *demoKV) IterateValue(fk []byte, lk []byte, inc bool, op func(key []byte, data []byte) (bool, error)) error {
	panic("not needed")
}
func (s *demoKV) GetValue(key []byte, op func([]byte) error) error {
	if s.failGet {
		s.failed = true
		return errors.New("injected storage read error")
	}
	return op(s.m[string(key)])
}
func (s *demoKV) SaveValue(key []byte, value []byte) error { s.m[string(key)] = value; return nil }
func (s *demoKV) DeleteValue(key []byte) error             { delete(s.m, string(key)); return nil }
func (s *demoKV) GetWriteBatch() kv.IWriteBatch            { return &demoWB{puts: map[string][]byte{}} }
func (s *demoKV) CommitWriteBatch(wb kv.IWriteBatch) error {
	for k, v := range wb.(*demoWB).puts {
		s.m[k] = v
	}
	for _, k := range wb.(*demoWB).dels {
		delete(s.m, k)
	}
	return nil
}
func (s *demoKV) BulkRemoveEntries(firstKey []byte, lastKey []byte) error { return nil }
func (s *demoKV) CompactEntries(firstKey []byte, lastKey []byte) error    { return nil }
func (s *demoKV) FullCompaction() error                                   { return nil }

func TestVerifDemoBatchedSaveAfterReadError(t *testing.T) {
	store := &demoKV{m: map[string][]byte{}}
	open := func() *db {
		cs := newCache()
		pool := newLogDBKeyPool()
		return &db{cs: cs, keys: pool, kvs: store, entries: newBatchedEntries(cs, pool, store)}
	}
	d := open()
	var first []pb.Entry
	for i := uint64(1); i <= 5; i++ {
		first = append(first, pb.Entry{Index: i, Term: 1, Cmd: []byte{byte(i)}})
	}
	ctx := newContext(1024, 1024*1024)
	if err := d.saveRaftState([]pb.Update{{ShardID: 1, ReplicaID: 1, State: pb.State{Term: 1, Vote: 1, Commit: 1}, EntriesToSave: first}}, ctx); err != nil {
		t.Fatal(err)
	}
	ctx.Reset()
	// restart: nothing cached; the next save appends entries 6 and 7 to the stored batch
	d = open()
	store.failGet = true
	var err error
	func() {
		defer func() {
			if r := recover(); r != nil {
				err = errors.New("panicked")
			}
		}()
		err = d.saveRaftState([]pb.Update{{ShardID: 1, ReplicaID: 1, EntriesToSave: []pb.Entry{{Index: 6, Term: 1}, {Index: 7, Term: 1}}}}, ctx)
	}()
	store.failGet = false
	if !store.failed {
		t.Fatal("the injected error was not reached")
	}
	if err == nil {
		ents, _, ierr := open().iterateEntries(nil, 0, 1, 1, 1, 8, 1<<40)
		t.Fatalf("save returned success although the KV store reported an error during it; entries readable afterwards: %d of 7 (err %v)", len(ents), ierr)
	}
}
