#!/bin/sh
# Forces the F5 schedule natively: overlay copy of /repo/request.go with one pause hook
# inserted between borrowProposal and ps.committed() in proposalShard.committed.
export GOFLAGS=-mod=mod GOPROXY=off GOSUMDB=off GOTOOLCHAIN=local
tmp=$(mktemp -d); trap 'rm -rf $tmp' EXIT
python3 - "$tmp" <<'PY'
import sys,re
tmp=sys.argv[1]
s=open('/repo/request.go').read()
pat='''	if ps := p.borrowProposal(clientID, seriesID, key, p.getTick()); ps != nil {
		ps.committed()'''
if pat in s:
    s=s.replace(pat,'''	if ps := p.borrowProposal(clientID, seriesID, key, p.getTick()); ps != nil {
		if vF5Hook != nil {
			vF5Hook()
		}
		ps.committed()''')
    print("hook inserted between lookup and notification")
else:
    print("unlocked lookup-then-notify shape not present in proposalShard.committed (repaired tree): no hook inserted")
s+="\nvar vF5Hook func()\n"
open(tmp+'/request.go','w').write(s)
PY
printf '{"Replace":{"/repo/request.go":"%s/request.go","/repo/zz_f5_test.go":"/verif/demos/f5_committed_crosstalk_test.go"}}' "$tmp" > $tmp/ov.json
cd /repo && go test -vet=off -count=1 -timeout 300s -run TestVerifF5 -v -overlay $tmp/ov.json . 2>&1 | tail -8
