package tan

// Demonstration (not part of the repository's test suite): multiplexed Tan,
// one SaveRaftState call with two updates for the same shared db.  When the
// log file rolls over between the two records, the first record stays in the
// previous log file which was closed without fsync, while the index pointing
// to it and the second record are durable: SaveRaftState returns success, a
// crash loses the first replica's state and entries.

import (
	"testing"

	"github.com/lni/dragonboat/v4/config"
	pb "github.com/lni/dragonboat/v4/raftpb"
	gvfs "github.com/lni/vfs"
)

func TestVerifDemoRolloverLosesUnsyncedRecord(t *testing.T) {
	mem := gvfs.NewStrictMem()
	cfg := config.NodeHostConfig{}
	cfg.Expert.FS = mem
	cfg.Expert.LogDB = config.GetTinyMemLogDBConfig()
	open1 := func() *LogDB {
		ldb, err := CreateLogMultiplexedTan(cfg, nil, []string{"/tan"}, nil)
		if err != nil {
			t.Fatal(err)
		}
		// same as collection.getDB, with a log-file size limit that makes the
		// very next record roll the log file over (the default is 64 MiB)
		c := &ldb.collection
		dbdir := c.fs.PathJoin(c.dirname, c.keeper.name(1, 1))
		if err := c.prepareDir(dbdir); err != nil {
			t.Fatal(err)
		}
		d, err := open(dbdir, dbdir, &Options{FS: c.fs, MaxLogFileSize: 1})
		if err != nil {
			t.Fatal(err)
		}
		c.keeper.set(1, 1, d)
		return ldb
	}
	ldb := open1()
	es := func() []pb.Entry {
		return []pb.Entry{{Index: 1, Term: 1, Cmd: []byte("a")}, {Index: 2, Term: 1, Cmd: []byte("b")}}
	}
	uds := []pb.Update{
		{ShardID: 1, ReplicaID: 1, State: pb.State{Term: 1, Vote: 1, Commit: 1}, EntriesToSave: es()},
		{ShardID: 1, ReplicaID: 2, State: pb.State{Term: 1, Vote: 1, Commit: 1}, EntriesToSave: es()},
	}
	if err := ldb.SaveRaftState(uds, 1); err != nil {
		t.Fatal(err)
	}
	// power failure: everything not fsynced is gone
	mem.SetIgnoreSyncs(true)
	mem.ResetToSyncedState()
	mem.SetIgnoreSyncs(false)
	ldb = open1()
	defer ldb.Close()
	for _, replicaID := range []uint64{1, 2} {
		rs, err := ldb.ReadRaftState(1, replicaID, 0)
		if err != nil {
			t.Fatalf("replica %d: acknowledged save lost: %v", replicaID, err)
		}
		ents, _, err := ldb.IterateEntries(nil, 0, 1, replicaID, 1, 3, 1<<30)
		if err != nil || len(ents) != 2 || rs.State.Term != 1 || rs.State.Vote != 1 {
			t.Fatalf("replica %d: acknowledged save lost: state=%v entries=%d err=%v", replicaID, rs.State, len(ents), err)
		}
	}
}
