package dragonboat

//vcheck:bounds node expiry: a real node's tick path (node.tick -> quiesce state, raft.Peer Tick / QuiescedTick, the four pending tables) and node.gc, once per engine step as handleEvents does; one pending snapshot request and one pending membership-change request with deadlines 1..3 ticks ahead; arbitrary quiesce state (enabled or not, quiesced or about to be); default gc interval (2 ticks)
//vcheck:stub node expiry: the raft.Peer is the real one launched over a LogReader (3-voter shard, replica 2); nothing is ever applied, so the only legal outcome of both requests is Timeout

import (
	"github.com/lni/dragonboat/v4/internal/rsm"
	pb "github.com/lni/dragonboat/v4/raftpb"
)

// C12 ("by tick-driven expiry shortly after its deadline at the latest") +
// C17 ("requests end in Dropped/Timeout rather than hanging"), on the real
// node: whatever the quiesce state, a request that is never applied gets its
// Timeout within deadline + 2 gc intervals + 1 engine steps, exactly once, and
// never before its deadline.
//vcheck: props=C17 reach=quiesced,awake,ss-timeout,cc-timeout,done workers=8 forbid="is full" replay=symbolic
func VHarness_C12_NodeTickExpiry() {
	pp := vNewPipe(false, false)
	n := pp.n
	n.p = *pp.p
	n.qs = vQuiesce()
	if n.qs.quiesced() {
		vReach("quiesced")
	} else {
		vReach("awake")
	}
	ssC := make(chan rsm.SSRequest, 1)
	ccC := make(chan configChangeRequest, 1)
	n.pendingSnapshot = newPendingSnapshot(ssC)
	n.pendingConfigChange = newPendingConfigChange(ccC, false)
	// (newPendingProposal seeds one key generator per shard from crypto/rand)
	n.pendingProposals = pendingProposal{shards: []*proposalShard{newPendingProposalShard(n.config, false, vPool(), newEntryQueue(8, 0))}, ps: 1}
	n.pendingReadIndexes = newPendingReadIndex(vPool(), newReadIndexQueue(8))
	tick := vU64("tick0")
	vAssume(tick >= 1 && tick < 1<<40)
	n.currentTick = tick
	vAssert(n.tick(tick) == nil, "tick-ok")
	n.gc()
	toS := uint64(vChoose("ssTimeout", 3)) + 1
	toC := uint64(vChoose("ccTimeout", 3)) + 1
	rsS, err := n.pendingSnapshot.request(rsm.UserRequested, "", false, 0, 0, toS)
	vAssert(err == nil, "snapshot-request-accepted")
	rsC, err := n.pendingConfigChange.request(pb.ConfigChange{Type: pb.AddNode, ReplicaID: 4, Address: "a4"}, toC)
	vAssert(err == nil, "cc-request-accepted")
	ls := &vLedger{rs: rsS, deadline: tick + toS, live: true}
	lc := &vLedger{rs: rsC, deadline: tick + toC, live: true}
	max := toS
	if toC > max {
		max = toC
	}
	rounds := max + 2*defaultGCTick + 1
	for i := uint64(1); i <= rounds; i++ {
		tick++
		vAssert(n.tick(tick) == nil, "tick-ok")
		n.gc()
		for _, l := range []*vLedger{ls, lc} {
			before := l.terminal
			l.drain()
			if l.terminal > before {
				vAssert(l.last.code == requestTimeout, "never-applied-request-ends-in-timeout")
				vAssert(l.deadline < tick, "timeout-only-after-deadline")
			}
			vAssert(l.terminal <= 1, "at-most-one-terminal-result")
		}
	}
	vAssert(ls.terminal == 1, "snapshot-request-expired-shortly-after-its-deadline")
	vAssert(lc.terminal == 1, "cc-request-expired-shortly-after-its-deadline")
	vReach("ss-timeout")
	vReach("cc-timeout")
	vReach("done")
}
