package dragonboat

//vcheck:bounds quiesce: arbitrary quiesceState (symbolic ticks below 2^40, electionTick 1..2^20, quiescedSince/idleSince/exitQuiesceTick not in the future), one record(message type) or one tick

import (
	pb "github.com/lni/dragonboat/v4/raftpb"
)

func vQuiesce() *quiesceState {
	q := &quiesceState{shardID: 1, replicaID: 1, enabled: vBool("enabled")}
	q.currentTick = vU64("now")
	q.electionTick = vU64("electionTick")
	q.quiescedSince = vU64("quiescedSince")
	q.idleSince = vU64("idleSince")
	q.exitQuiesceTick = vU64("exitTick")
	vAssume(q.currentTick < 1<<40)
	vAssume(q.electionTick >= 1 && q.electionTick < 1<<20)
	vAssume(q.quiescedSince <= q.currentTick)
	vAssume(q.idleSince <= q.currentTick)
	vAssume(q.exitQuiesceTick <= q.currentTick)
	return q
}

// C17 (quiesce): any activity other than a heartbeat takes the shard out of
// quiesce at once; heartbeats do so too except during the first electionTick
// ticks after entering; heartbeats alone never postpone entering; a disabled
// quiesce state never reports quiesced; entering needs more than
// 10*electionTick idle ticks.
//vcheck: reach=exit-by-activity,exit-by-heartbeat,heartbeat-ignored,entered,done workers=8
func VHarness_C17_Quiesce() {
	q := vQuiesce()
	was := q.quiesced()
	idle0 := q.idleSince
	if vBool("tick") {
		now0 := q.currentTick
		q.tick()
		if !q.enabled {
			vAssert(!q.quiesced() && q.currentTick == now0, "disabled-never-quiesced")
		} else {
			vAssert(q.currentTick == now0+1, "tick-advances")
			if !was && q.quiesced() {
				vReach("entered")
				vAssert(q.currentTick-idle0 > 10*q.electionTick, "enters-only-after-the-idle-threshold")
				vAssert(q.newQuiesceState(), "new-quiesce-state-flag-set")
			}
			if was {
				vAssert(q.quiesced(), "tick-never-exits")
			}
		}
	} else {
		t := pb.MessageType(vChoose("type", 29))
		fresh := q.newToQuiesce()
		q.record(t)
		if !q.enabled {
			vAssert(!q.quiesced(), "disabled-never-quiesced")
		} else if t != pb.Heartbeat && t != pb.HeartbeatResp {
			vAssert(!q.quiesced() && q.idleSince == q.currentTick, "activity-exits-quiesce-and-resets-idle")
			if was {
				vReach("exit-by-activity")
				vAssert(q.exitQuiesceTick == q.currentTick, "exit-tick-recorded")
			}
		} else if was && !fresh {
			vAssert(!q.quiesced(), "heartbeat-exits-quiesce")
			vReach("exit-by-heartbeat")
		} else {
			vAssert(q.quiesced() == was && q.idleSince == idle0, "heartbeat-changes-nothing")
			vReach("heartbeat-ignored")
		}
	}
	vReach("done")
}
