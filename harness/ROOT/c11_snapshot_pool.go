package dragonboat

//vcheck:bounds C11 pool: the real snapshot workerPool (engine.go: workerPoolMain, loadNodes/unloadNodes, schedule, completed, start/setBusy/setIdle, get*Job) with 2 workers and 1-2 shards driven as an event loop: reflect.Select is replaced by a choice (symbolic variable) among the ready channels; before every select the environment takes 0..1 steps out of: a node requests save / recover / stream (node-level protocol: one outstanding request per kind and shard), (a worker picks up the job the pool handed to it right away,) a worker finishes its job and signals completion, NodeHost asks the pool to stop; at most 5 environment steps at one per pool iteration (thorough: also 4 steps at up to two per iteration), and 6 pool iterations before the stop is forced; other engine components hold 0 or 1 further load references on each node
//vcheck:stub C11 pool: worker goroutines = harness model (a job is "inside the user state machine" from pick-up to completion; the real node.save/recover/stream bodies are decided by the C08/C11/C16 node and rsm harnesses); syncutil.Stopper.Stop of the worker stopper = every worker finishes its current job and returns, then the channel closes (what Stop waits for); time.Ticker never fires; managed state machine = load counter (Loaded/Offloaded as rsm.OffloadedStatus); pipeline.setCloseReady = recorder (from that moment the close worker may call Close on the user state machine)

import (
	"github.com/lni/goutils/syncutil"

	"github.com/lni/dragonboat/v4/config"
	"github.com/lni/dragonboat/v4/internal/rsm"
)

type vPoolSM struct {
	vCountSM
	loadedCount uint64
}

func (s *vPoolSM) Loaded() { s.loadedCount++ }
func (s *vPoolSM) Offloaded() bool {
	s.loadedCount--
	return s.loadedCount == 0
}

type vPoolPipe struct {
	env *vPoolEnv
}

func (p *vPoolPipe) setCloseReady(n *node) {
	// from here on the close worker is free to call Close on the user state machine
	p.env.closeReady[n.shardID] = true
	vAssert(p.env.inUserSM(n.shardID) == 0, "no-snapshot-job-inside-the-state-machine-when-the-node-becomes-closable")
}
func (p *vPoolPipe) setStepReady(shardID uint64)    {}
func (p *vPoolPipe) setCommitReady(shardID uint64)  {}
func (p *vPoolPipe) setApplyReady(shardID uint64)   {}
func (p *vPoolPipe) setStreamReady(shardID uint64)  {}
func (p *vPoolPipe) setSaveReady(shardID uint64)    {}
func (p *vPoolPipe) setRecoverReady(shardID uint64) {}

type vPoolLoader struct {
	nodes []*node
	cci   uint64
}

func (l *vPoolLoader) describe() string         { return "nh" }
func (l *vPoolLoader) getShardSetIndex() uint64 { return l.cci }
func (l *vPoolLoader) forEachShard(f func(uint64, *node) bool) uint64 {
	for _, n := range l.nodes {
		if !f(n.shardID, n) {
			break
		}
	}
	return l.cci
}

type vPoolEnv struct {
	p          *workerPool
	nodes      []*node
	sms        []*vPoolSM
	active     []*job // per worker: the job it is executing (inside the user state machine)
	closeReady map[uint64]bool
	steps      int
	selects    int
	stopped    bool
	// node-level protocol: one outstanding request per kind and shard
	saveOut, recoverOut map[uint64]bool
	taken, finished     int
	workersStopped      bool
	perSelect, maxSteps int
	others              []uint64
}

func (e *vPoolEnv) inUserSM(shardID uint64) int {
	c := 0
	for _, j := range e.active {
		if j != nil && j.shardID == shardID {
			c++
		}
	}
	return c
}

// pickUp: worker w receives the job the pool put into its request channel.
func (e *vPoolEnv) pickUp(w int) bool {
	wk := e.p.workers[w]
	if e.active[w] != nil {
		return false
	}
	select {
	case j := <-wk.requestC:
		vAssert(j.node != nil, "job-carries-its-node")
		vAssert(!e.closeReady[j.shardID], "no-snapshot-job-starts-on-a-closable-node")
		// exclusion inside one replica's state machine: save and recover run alone,
		// streams only next to other streams
		for _, o := range e.active {
			if o != nil && o.shardID == j.shardID {
				vAssert(o.task.Stream && j.task.Stream, "save-and-recover-never-overlap-another-snapshot-job-of-the-replica")
			}
		}
		jj := j
		e.active[w] = &jj
		e.taken++
		vReach("job-picked-up")
		return true
	default:
		return false
	}
}

// finish: worker w returns from the state machine and reports completion.
func (e *vPoolEnv) finish(w int) bool {
	j := e.active[w]
	if j == nil {
		return false
	}
	e.active[w] = nil
	if j.task.Save {
		e.saveOut[j.shardID] = false
	}
	if j.task.Recover {
		e.recoverOut[j.shardID] = false
	}
	e.p.workers[w].completed()
	e.finished++
	return true
}

func (e *vPoolEnv) step() {
	// workers receive what the pool handed to them right away (a later pick-up
	// only shortens the time a job spends inside the state machine)
	for w := range e.p.workers {
		e.pickUp(w)
	}
	// enabled actions
	type act struct {
		kind, arg int
	}
	var acts []act
	if !e.stopped {
		for i, n := range e.nodes {
			if !e.saveOut[n.shardID] {
				acts = append(acts, act{0, i})
			}
			if !e.recoverOut[n.shardID] {
				acts = append(acts, act{1, i})
			}
			if !n.ss.streamReady.hasTask {
				acts = append(acts, act{2, i})
			}
		}
		acts = append(acts, act{5, 0})
	}
	for w := range e.active {
		if e.active[w] != nil {
			acts = append(acts, act{4, w})
		}
	}
	if len(acts) == 0 {
		return
	}
	a := acts[vChoose("envstep", len(acts))]
	switch a.kind {
	case 0: // a node asks for a snapshot to be saved
		n := e.nodes[a.arg]
		e.saveOut[n.shardID] = true
		n.ss.setSaveReq(rsm.Task{Save: true})
		e.p.saveReady.shardReady(n.shardID)
	case 1:
		n := e.nodes[a.arg]
		e.recoverOut[n.shardID] = true
		n.ss.setRecoverReq(rsm.Task{Recover: true})
		e.p.recoverReady.shardReady(n.shardID)
	case 2:
		n := e.nodes[a.arg]
		n.ss.setStreamReq(rsm.Task{Stream: true}, nil)
		e.p.streamReady.shardReady(n.shardID)
	case 4:
		if e.finish(a.arg) {
			vReach("job-finished")
		}
	case 5:
		e.stopped = true
		e.p.poolStopper.Close()
		vReach("stop-requested")
	}
}

var vSSPool *vPoolEnv



// vStopperStop stands in for syncutil.Stopper.Stop: it returns only after the
// goroutines started through the stopper have returned.  For the pool's worker
// stopper that means: every worker has left the state machine (a job already
// handed over is still executed or dropped - either way nothing runs after).
func vStopperStop(s *syncutil.Stopper) {
	if vClosePool != nil && s == vClosePool.p.workerStopper {
		// timedWait is over: the close workers return (after their current request)
		for w := range vClosePool.active {
			if vClosePool.active[w] != nil {
				vClosePool.finish(w)
			}
		}
	}
	if vSSPool != nil && s == vSSPool.p.workerStopper {
		for w := range vSSPool.active {
			if vSSPool.active[w] != nil {
				vReach("stop-waits-for-a-running-job")
				vSSPool.finish(w)
			}
		}
		vSSPool.workersStopped = true
	}
	s.Close()
}

// C11 (snapshot worker pool): which snapshot jobs the pool lets into a
// replica's state machine at the same time, and the shutdown order - a node
// only becomes closable (last load reference dropped => close worker may call
// Close) when no snapshot job is inside its state machine and none can start.
//vcheck: reach=job-picked-up,job-finished,stop-requested,stop-waits-for-a-running-job,stopped-with-work,done workers=16 replay=symbolic forbid=. steps=2000000
func VHarness_C11_SnapshotPool() {
	nShards := 1 + vChoose("shards", 2)
	env := &vPoolEnv{closeReady: map[uint64]bool{}, saveOut: map[uint64]bool{}, recoverOut: map[uint64]bool{}}
	pipe := &vPoolPipe{env: env}
	for i := 0; i < nShards; i++ {
		n := &node{shardID: uint64(10 + i), replicaID: 1, instanceID: uint64(100 + i), pipeline: pipe}
		n.sysEvents = newSysEventListener(nil, nil)
		msm := &vPoolSM{}
		n.sm = rsm.NewStateMachine(msm, nil, config.Config{}, n, nil)
		// load references held by the other engine components (step / commit / apply workers)
		others := vChoose("otherRefs", 2)
		for k := 0; k < others; k++ {
			n.loaded()
		}
		env.nodes = append(env.nodes, n)
		env.sms = append(env.sms, msm)
		env.others = append(env.others, uint64(others))
	}
	ld := &vPoolLoader{nodes: env.nodes, cci: 1}
	// the pool as newWorkerPool builds it, without starting goroutines
	p := &workerPool{
		nh:            ld,
		loaded:        newLoadedNodes(),
		cciReady:      newWorkReady(1),
		saveReady:     newWorkReady(1),
		recoverReady:  newWorkReady(1),
		streamReady:   newWorkReady(1),
		nodes:         make(map[uint64]*node),
		workers:       make([]*ssWorker, 2),
		busy:          make(map[uint64]*node, 2),
		saving:        make(map[uint64]struct{}, 2),
		recovering:    make(map[uint64]struct{}, 2),
		streaming:     make(map[uint64]uint64, 2),
		pending:       make([]job, 0),
		workerStopper: syncutil.NewStopper(),
		poolStopper:   syncutil.NewStopper(),
	}
	for w := uint64(0); w < 2; w++ {
		p.workers[w] = &ssWorker{workerID: w, stopper: p.workerStopper, requestC: make(chan job, 1), completedC: make(chan struct{}, 1)}
	}
	env.p = p
	env.active = make([]*job, 2)
	// quick: one environment event per pool iteration, 5 in all; thorough: that,
	// or two per iteration (several channels ready at the same select), 4 in all
	env.perSelect, env.maxSteps = 1, 5
	if vTier() > 0 && vBool("twoEventsPerSelect") {
		env.perSelect, env.maxSteps = 2, 4
	}
	vSSPool = env
	vSelectHook = func() {
		env.selects++
		if env.selects > 6 {
			// bound on the length of the run: NodeHost stops the pool
			if !env.stopped {
				env.stopped = true
				p.poolStopper.Close()
			}
			return
		}
		// quick: at most one environment event per pool iteration; thorough: two
		// (several channels ready at the same select)
		for round := 0; round < env.perSelect && env.steps < env.maxSteps && vBool("envstep?"); round++ {
			env.steps++
			env.step()
		}
		for w := range p.workers {
			env.pickUp(w)
		}
		// the pool must not block for ever: if nothing is ready, the next thing that happens is the stop
		ready := env.stopped
		for _, c := range []chan struct{}{p.saveReady.waitCh(1), p.recoverReady.waitCh(1), p.streamReady.waitCh(1), p.cciReady.waitCh(1), p.workers[0].completedC, p.workers[1].completedC} {
			if len(c) > 0 {
				ready = true
			}
		}
		if !ready {
			env.stopped = true
			p.poolStopper.Close()
		}
	}
	p.workerPoolMain()
	// the pool has returned: its workers are stopped, its references dropped
	vAssert(env.workersStopped, "workers-stopped-before-the-pool-returns")
	for i, n := range env.nodes {
		vAssert(env.inUserSM(n.shardID) == 0, "no-job-inside-a-state-machine-after-the-pool-returned")
		_ = i
	}
	for i := range env.sms {
		// only the references of the other components are left
		vAssert(env.sms[i].loadedCount == env.others[i], "pool-dropped-all-its-load-references")
	}
	if env.taken > 0 {
		vReach("stopped-with-work")
	}
	vReach("done")
}

// ---------------------------------------------------------------------------
// the close worker pool

type vCloseSM struct {
	vCountSM
	closes    int
	inClose   bool
	destroyed chan struct{}
}

func (s *vCloseSM) Close() error {
	s.closes++
	vAssert(s.closes == 1, "user-state-machine-closed-at-most-once")
	close(s.destroyed)
	return nil
}
func (s *vCloseSM) DestroyedC() <-chan struct{} { return s.destroyed }

type vCloseEnv struct {
	p         *closeWorkerPool
	nodes     []*node
	sms       []*vCloseSM
	submitted []bool
	active    []*closeReq // per worker
	steps     int
	selects   int
	stopped   bool
}

func (e *vCloseEnv) pickUp(w int) {
	if e.active[w] != nil {
		return
	}
	select {
	case r := <-e.p.workers[w].requestC:
		for o := range e.active {
			if e.active[o] != nil {
				vAssert(e.active[o].node != r.node, "one-close-worker-per-node-at-a-time")
			}
		}
		rr := r
		e.active[w] = &rr
	default:
	}
}

func (e *vCloseEnv) finish(w int) {
	r := e.active[w]
	if r == nil {
		return
	}
	// what closeWorker.workerMain does with a request
	if err := e.p.workers[w].handle(*r); err != nil {
		panic(err)
	}
	e.active[w] = nil
	e.p.workers[w].completed()
	vReach("node-closed")
}

var vClosePool *vCloseEnv

// C11 (close worker pool): every node that became closable before NodeHost
// stops the pool has its user state machine closed exactly once - never twice,
// never by two workers at a time - also for the requests still queued when the
// stop arrives (timedWait drains them).
//vcheck: reach=node-closed,stop-with-queued-work,done workers=16 replay=symbolic forbid=. steps=2000000
func VHarness_C11_ClosePool() {
	nNodes := 2 + vChoose("nodes", 2)
	env := &vCloseEnv{}
	for i := 0; i < nNodes; i++ {
		n := &node{shardID: uint64(10 + i), replicaID: 1, instanceID: uint64(100 + i)}
		n.sysEvents = newSysEventListener(nil, nil)
		msm := &vCloseSM{destroyed: make(chan struct{})}
		n.sm = rsm.NewStateMachine(msm, nil, config.Config{}, n, nil)
		env.nodes = append(env.nodes, n)
		env.sms = append(env.sms, msm)
	}
	env.submitted = make([]bool, nNodes)
	nw := 1 + vChoose("workers", 2)
	p := &closeWorkerPool{
		workers:       make([]*closeWorker, nw),
		ready:         make(chan closeReq, 1),
		busy:          make(map[uint64]uint64, nw),
		processing:    make(map[uint64]struct{}, nw),
		pending:       make([]*node, 0),
		workerStopper: syncutil.NewStopper(),
		poolStopper:   syncutil.NewStopper(),
	}
	for w := 0; w < nw; w++ {
		p.workers[w] = &closeWorker{workerID: uint64(w), stopper: p.workerStopper, requestC: make(chan closeReq, 1), completedC: make(chan struct{}, 1)}
	}
	env.p = p
	env.active = make([]*closeReq, nw)
	vClosePool = env
	vSSPool = nil
	vSelectHook = func() {
		env.selects++
		for w := range p.workers {
			env.pickUp(w)
		}
		for round := 0; round < 2 && env.steps < 6 && env.selects <= 10 && vBool("envstep?"); round++ {
			env.steps++
			type act struct{ kind, arg int }
			var acts []act
			if !env.stopped && len(p.ready) == 0 {
				for i := range env.nodes {
					if !env.submitted[i] {
						acts = append(acts, act{0, i})
						break // nodes are interchangeable: the next one not yet submitted
					}
				}
			}
			for w := range env.active {
				if env.active[w] != nil {
					acts = append(acts, act{1, w})
				}
			}
			if !env.stopped {
				acts = append(acts, act{2, 0})
			}
			if len(acts) > 0 {
				a := acts[vChoose("envstep", len(acts))]
				switch a.kind {
				case 0:
					env.submitted[a.arg] = true
					p.ready <- closeReq{node: env.nodes[a.arg]}
				case 1:
					env.finish(a.arg)
				case 2:
					env.stopped = true
					if len(p.ready) > 0 || len(p.pending) > 0 || len(p.busy) > 0 {
						vReach("stop-with-queued-work")
					}
					p.poolStopper.Close()
				}
			}
		}
		for w := range p.workers {
			env.pickUp(w)
		}
		// the pool (or timedWait) must not wait for ever: what happens next is a
		// worker finishing, or the stop
		ready := (env.stopped && !env.inTimedWait()) || len(p.ready) > 0
		for w := range p.workers {
			if len(p.workers[w].completedC) > 0 {
				ready = true
			}
		}
		if !ready {
			done := false
			for w := range env.active {
				if env.active[w] != nil && !done {
					env.finish(w)
					done = true
				}
			}
			if !done && !env.stopped {
				env.stopped = true
				p.poolStopper.Close()
			}
		}
	}
	p.workerPoolMain()
	for i := range env.nodes {
		if env.submitted[i] {
			vAssert(env.sms[i].closes == 1, "every-closable-node-is-closed-before-the-pool-returns")
		} else {
			vAssert(env.sms[i].closes == 0, "only-closable-nodes-are-closed")
		}
	}
	vReach("done")
}

// inTimedWait: after the stop was taken the pool only waits for completions.
func (e *vCloseEnv) inTimedWait() bool {
	return vSelectNCases == len(e.p.workers)+1
}
