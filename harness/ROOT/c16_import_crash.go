package dragonboat

//vcheck:bounds C16 import: the real tools.ImportSnapshot (server.Env, SSEnv, fileutil, rsm checksum code) on the real lni/vfs strict in-memory FS: one exported snapshot (index 100, 3 payload bytes) imported on a host that holds nothing for the replica or already holds an older imported image at index 50; the power fails before a symbolic fsync (0..39) of the import, everything not synced is dropped; then the start-up steps of a replica (fresh snapshotter, processOrphans)
//vcheck:stub C16 import: log store = harness ILogDB handed in through Expert.LogDBFactory whose snapshot record is durable exactly when ImportSnapshot returned before the crash instant

import (
	"github.com/lni/dragonboat/v4/config"
	"github.com/lni/dragonboat/v4/internal/fileutil"
	"github.com/lni/dragonboat/v4/internal/logdb"
	"github.com/lni/dragonboat/v4/internal/rsm"
	"github.com/lni/dragonboat/v4/internal/server"
	"github.com/lni/dragonboat/v4/raftio"
	pb "github.com/lni/dragonboat/v4/raftpb"
	"github.com/lni/dragonboat/v4/tools"
	gvfs "github.com/lni/vfs"
)

type vImportStore struct {
	clock   *vCrashClock
	current pb.Snapshot
	durable pb.Snapshot
}

func (l *vImportStore) Name() string                             { return "vimportstore" }
func (l *vImportStore) Close() error                             { return nil }
func (l *vImportStore) BinaryFormat() uint32                     { return raftio.PlainLogDBBinVersion }
func (l *vImportStore) ListNodeInfo() ([]raftio.NodeInfo, error) { return nil, nil }
func (l *vImportStore) SaveBootstrapInfo(uint64, uint64, pb.Bootstrap) error {
	return nil
}
func (l *vImportStore) GetBootstrapInfo(uint64, uint64) (pb.Bootstrap, error) {
	return pb.Bootstrap{}, raftio.ErrNoBootstrapInfo
}
func (l *vImportStore) SaveRaftState([]pb.Update, uint64) error { return nil }
func (l *vImportStore) IterateEntries([]pb.Entry, uint64, uint64, uint64, uint64, uint64, uint64) ([]pb.Entry, uint64, error) {
	return nil, 0, nil
}
func (l *vImportStore) ReadRaftState(uint64, uint64, uint64) (raftio.RaftState, error) {
	return raftio.RaftState{}, raftio.ErrNoSavedLog
}
func (l *vImportStore) RemoveEntriesTo(uint64, uint64, uint64) error { return nil }
func (l *vImportStore) CompactEntriesTo(uint64, uint64, uint64) (<-chan struct{}, error) {
	return nil, nil
}
func (l *vImportStore) SaveSnapshots([]pb.Update) error                 { return nil }
func (l *vImportStore) GetSnapshot(uint64, uint64) (pb.Snapshot, error) { return l.current, nil }
func (l *vImportStore) RemoveNodeData(uint64, uint64) error             { return nil }
func (l *vImportStore) ImportSnapshot(ss pb.Snapshot, replicaID uint64) error {
	// (the store's own crash atomicity is C10's subject: the record is written
	// atomically, and it is durable iff the call returned before the power failed)
	l.current = ss
	if !l.clock.crashed {
		l.durable = ss
	}
	return nil
}

type vImportFactory struct{ db *vImportStore }

func (f *vImportFactory) Create(config.NodeHostConfig, config.LogDBCallback, []string, []string) (raftio.ILogDB, error) {
	return f.db, nil
}
func (f *vImportFactory) Name() string { return "vimportstore" }

// vExportDir writes an exported snapshot (image + metadata) and makes it durable.
func vExportDir(fs gvfs.FS, dir string, index uint64, payload []byte) {
	vAssert(fileutil.MkdirAll(dir, fs) == nil, "export-mkdir")
	fp := fs.PathJoin(dir, server.GetSnapshotFilename(index))
	w, err := rsm.NewSnapshotWriter(fp, pb.NoCompression, fs)
	vAssert(err == nil, "export-writer")
	_, err = w.Write(payload)
	vAssert(err == nil && w.Close() == nil, "export-write")
	st, err := fs.Stat(fp)
	vAssert(err == nil, "export-stat")
	ss := pb.Snapshot{Filepath: fp, FileSize: uint64(st.Size()), Index: index, Term: 5, ShardID: 7,
		Membership: pb.Membership{Addresses: map[uint64]string{1: "a1", 2: "a2"}}, Checksum: w.GetPayloadChecksum(), Type: pb.RegularStateMachine}
	vAssert(fileutil.CreateFlagFile(dir, server.MetadataFilename, &ss, fs) == nil, "export-metadata")
	vAssert(fileutil.SyncDir(dir, fs) == nil, "export-sync")
	vAssert(fileutil.SyncDir("/", fs) == nil, "export-sync-root")
}

func vImportCrash(existing bool) {
	mem := gvfs.NewStrictMem()
	clock := &vCrashClock{mem: mem, crashAt: -1}
	var fs gvfs.FS = vNameFixFS{gvfs.Wrap(mem, clock)}
	store := &vImportStore{clock: clock}
	nh := config.NodeHostConfig{NodeHostDir: "/nh", RaftAddress: "a1", RTTMillisecond: 100, DeploymentID: 9}
	nh.Expert.FS = fs
	nh.Expert.LogDBFactory = &vImportFactory{db: store}
	members := map[uint64]string{1: "a1"}
	if existing {
		vExportDir(fs, "/export0", 50, []byte{9})
		vAssert(tools.ImportSnapshot(nh, "/export0", members, 1) == nil, "first-import-ok")
		vAssert(store.durable.Index == 50, "first-import-recorded")
	}
	vExportDir(fs, "/export", 100, []byte{1, 2, 3})
	// from here on the power may fail
	clock.crashAt = clock.syncs + vChoose("crashBeforeSync", 40)
	err := tools.ImportSnapshot(nh, "/export", members, 1)
	vAssert(err == nil, "import-returns-ok")
	acked := !clock.crashed
	if clock.crashed {
		vReach("crashed-mid-way")
	} else {
		vReach("no-crash")
	}
	mem.SetIgnoreSyncs(true)
	mem.ResetToSyncedState()
	mem.SetIgnoreSyncs(false)
	clock.crashAt, clock.crashed = -1, false
	// restart of the replica: what nodehost.startShard does before the node runs
	store2 := &vImportStore{clock: clock, current: store.durable, durable: store.durable}
	env, err := server.NewEnv(nh, fs)
	vAssert(err == nil, "restart-env-ok")
	dirFn := func(shardID uint64, replicaID uint64) string { return env.GetSnapshotDir(nh.DeploymentID, shardID, replicaID) }
	if ok, _ := fileutil.Exist(dirFn(7, 1), fs); !ok {
		// nothing of the replica reached the disk
		vAssert(store2.durable.Index == 0, "record-without-any-snapshot-directory")
		vReach("nothing-on-disk")
		vReach("done")
		return
	}
	lr := logdb.NewLogReader(7, 1, store2)
	s := newSnapshotter(7, 1, dirFn, store2, lr, fs)
	vAssert(s.processOrphans() == nil, "startup-cleanup-ok")
	if acked {
		vAssert(store2.durable.Index == 100, "acknowledged-import-is-recorded")
	}
	if rec := store2.durable; rec.Index > 0 {
		// the snapshot recorded in the log store exists on disk with a valid file
		_, serr := fs.Stat(rec.Filepath)
		vAssert(serr == nil, "recorded-snapshot-file-exists-after-restart")
		if serr == nil {
			r, _, rerr := rsm.NewSnapshotReader(rec.Filepath, fs)
			vAssert(rerr == nil, "recorded-snapshot-file-opens")
			if rerr == nil {
				vAssert(r.Close() == nil, "recorded-snapshot-file-closes")
			}
			vAssert(rec.Validate(fs), "recorded-snapshot-validates")
		}
		vReach("recorded-snapshot-valid")
	} else {
		vReach("nothing-recorded")
	}
	// temporary and orphaned directories are gone; only the recorded one remains
	names, lerr := fs.List(dirFn(7, 1))
	vAssert(lerr == nil, "list-ok")
	for _, n := range names {
		fi, err := fs.Stat(fs.PathJoin(dirFn(7, 1), n))
		if err != nil || !fi.IsDir() {
			continue
		}
		vAssert(s.isSnapshot(n) && store2.durable.Index > 0 && s.parseIndex(n) == store2.durable.Index, "only-the-recorded-snapshot-directory-remains")
	}
	vReach("done")
}

// C16 ("...or imported"): a crash anywhere inside ImportSnapshot on a host
// that holds nothing for the replica yet.
//vcheck: props=C20 reach=crashed-mid-way,no-crash,recorded-snapshot-valid,nothing-recorded,done workers=16 forbid="."
func VHarness_C16_ImportCrash() {
	vImportCrash(false)
}

// Same, on a host that already holds an older image of the replica (index 50).
//vcheck: props=C20 reach=crashed-mid-way,no-crash,recorded-snapshot-valid,done workers=16 forbid="."
func VHarness_C16_ImportOverExistingCrash() {
	vImportCrash(true)
}
