package dragonboat

//vcheck:bounds C04/O1: a real raft.Peer of a 3-voter shard (replica 2; optional CheckQuorum / PreVote) launched with raft.Launch over a real logdb.LogReader, driven concretely into follower, candidate, pre-vote candidate or leader state (every Update pushed through the node's two send stages in the engine's order), then ONE arbitrary inbound message (any of 14 types; term 0..7, sender 1 or 3, symbolic log index / log term / commit / reject / hint, 0..1 entries) or a local tick burst / election; the resulting Update goes through node.sendReplicateMessages -> save (shadow of the durable hard state and log) -> node.sendMessages
//vcheck:stub C04/O1: node.sendRaftMessage = recorder stamping every outgoing message with the durable (term, vote, last index) at the instant it leaves; SaveRaftState = shadow update (the log stores themselves are covered by C09/C10 harnesses)

import (
	"github.com/lni/dragonboat/v4/config"
	"github.com/lni/dragonboat/v4/internal/logdb"
	"github.com/lni/dragonboat/v4/internal/raft"
	"github.com/lni/dragonboat/v4/raftio"
	pb "github.com/lni/dragonboat/v4/raftpb"
)

type vSent struct {
	m           pb.Message
	early       bool // left before the save of the Update that produced it
	durable     pb.State
	durableLast uint64
}

// vMemLogDB is the store behind the LogReader: it returns what was saved.
type vMemLogDB struct {
	raftio.ILogDB
	ents []pb.Entry
}

func (d *vMemLogDB) IterateEntries(ents []pb.Entry, size uint64, shardID uint64, replicaID uint64, low uint64, high uint64, maxSize uint64) ([]pb.Entry, uint64, error) {
	for idx := low; idx < high; idx++ {
		found := false
		// the newest saved copy of an index wins
		for i := len(d.ents) - 1; i >= 0; i-- {
			if d.ents[i].Index == idx {
				ents = append(ents, d.ents[i])
				size += uint64(d.ents[i].SizeUpperLimit())
				found = true
				break
			}
		}
		if !found || size > maxSize {
			break
		}
	}
	return ents, size, nil
}

type vPipe struct {
	p           *raft.Peer
	db          *vMemLogDB
	lr          *logdb.LogReader
	n           *node
	durable     pb.State
	durableLast uint64
	sent        []vSent
	early       bool
	leaderID    uint64
	applied     uint64
}

func vNewPipe(checkQuorum, preVote bool) *vPipe {
	cfg := config.Config{ShardID: 1, ReplicaID: 2, ElectionRTT: 10, HeartbeatRTT: 1, CheckQuorum: checkQuorum, PreVote: preVote}
	db := &vMemLogDB{}
	lr := logdb.NewLogReader(1, 2, db)
	addresses := []raft.PeerAddress{{ReplicaID: 1, Address: "a1"}, {ReplicaID: 2, Address: "a2"}, {ReplicaID: 3, Address: "a3"}}
	p := raft.Launch(cfg, lr, nil, addresses, true, true)
	pp := &vPipe{p: &p, lr: lr, db: db}
	pp.n = &node{shardID: 1, replicaID: 2, sendRaftMessage: func(m pb.Message) {
		pp.sent = append(pp.sent, vSent{m: m, early: pp.early, durable: pp.durable, durableLast: pp.durableLast})
	}}
	return pp
}

// process pushes one Update through the send / save / send stages in the
// order of engine.processSteps.
func (pp *vPipe) process() bool {
	if !pp.p.HasUpdate(true) {
		return false
	}
	ud, err := pp.p.GetUpdate(true, pp.applied)
	vAssert(err == nil, "get-update-ok")
	if ud.LeaderUpdate.LeaderID != 0 || ud.LeaderUpdate.Term != 0 {
		pp.leaderID = ud.LeaderUpdate.LeaderID
	}
	pp.early = true
	pp.n.sendReplicateMessages(ud)
	pp.early = false
	// SaveRaftState
	if !pb.IsEmptyState(ud.State) {
		pp.durable = ud.State
	}
	if n := len(ud.EntriesToSave); n > 0 {
		pp.durableLast = ud.EntriesToSave[n-1].Index
	}
	if !pb.IsEmptySnapshot(ud.Snapshot) {
		// the snapshot record is part of the same save
		if ud.Snapshot.Index > pp.durableLast {
			pp.durableLast = ud.Snapshot.Index
		}
		vAssert(pp.lr.ApplySnapshot(ud.Snapshot) == nil, "snapshot-applied")
	}
	pp.db.ents = append(pp.db.ents, ud.EntriesToSave...)
	vAssert(pp.lr.Append(ud.EntriesToSave) == nil, "append-ok")
	pp.n.sendMessages(ud.Messages)
	pp.p.Commit(ud)
	if n := len(ud.CommittedEntries); n > 0 {
		// the state machine applies what was committed (config changes included)
		pp.applied = ud.CommittedEntries[n-1].Index
		pp.p.NotifyRaftLastApplied(pp.applied)
	}
	return true
}

func (pp *vPipe) check() {
	for _, s := range pp.sent {
		m := s.m
		switch m.Type {
		case pb.RequestPreVote:
			// a pre-vote asks for the next term without adopting it
			vAssert(m.Term <= s.durable.Term+1, "O1-prevote-request-term-at-most-one-ahead-of-durable-term")
		case pb.RequestPreVoteResp:
			// echoes the term asked for (grant) or reports the current one
		default:
			vAssert(m.Term <= s.durable.Term, "O1-message-term-is-durable-when-it-leaves")
		}
		switch m.Type {
		case pb.RequestVote:
			vAssert(s.durable.Term == m.Term && s.durable.Vote == 2, "O1-own-vote-durable-before-vote-request")
		case pb.RequestVoteResp:
			if !m.Reject {
				vAssert(s.durable.Term == m.Term && s.durable.Vote == m.To, "O1-vote-durable-before-it-is-granted")
			}
		case pb.ReplicateResp:
			if !m.Reject {
				vAssert(m.LogIndex <= s.durableLast, "O1-entries-durable-before-they-are-acknowledged")
			}
		}
		if s.early {
			vReach("sent-before-save")
		} else {
			vReach("sent-after-save")
		}
	}
}

var vInboundTypes = []pb.MessageType{
	pb.Heartbeat, pb.Replicate, pb.RequestVote, pb.RequestPreVote, pb.RequestVoteResp, pb.RequestPreVoteResp,
	pb.ReplicateResp, pb.HeartbeatResp, pb.InstallSnapshot, pb.TimeoutNow, pb.LeaderTransfer, pb.ReadIndex,
	pb.Propose, pb.NoOP,
}

// C04/O1: nothing that announces a term, a vote or an acknowledgement leaves
// the replica before the hard state and entries it implies are durable, for
// every message type and every role, through the real node send stages.
//vcheck: reach=follower,candidate,prevote-candidate,leader,sent-before-save,sent-after-save,term-bump,done workers=16
func VHarness_C04_PersistBeforeSend() {
	preVote := vBool("preVote")
	pp := vNewPipe(vBool("checkQuorum"), preVote)
	for pp.process() {
	}
	vAssert(pp.durable.Term == 1, "bootstrap-durable")
	last0 := pp.durableLast
	role := vChoose("role", 3)
	switch role {
	case 0:
		vReach("follower")
		if vBool("knowsLeader") {
			vAssert(pp.p.Handle(pb.Message{Type: pb.Heartbeat, From: 1, To: 2, Term: 2, Commit: last0}) == nil, "handle-ok")
		}
	case 1, 2:
		if preVote && vBool("byTimeout") {
			// election timeout: pre-vote round first
			for i := 0; i < 21 && len(pp.sent) == 0; i++ {
				vAssert(pp.p.Tick() == nil, "tick-ok")
				for pp.process() {
				}
			}
			vAssume(len(pp.sent) > 0)
			vReach("prevote-candidate")
			if role == 2 {
				vAssert(pp.p.Handle(pb.Message{Type: pb.RequestPreVoteResp, From: 1, To: 2, Term: pp.durable.Term + 1}) == nil, "handle-ok")
				for pp.process() {
				}
			}
		} else {
			// leadership transfer target: campaigns at once
			vAssert(pp.p.Handle(pb.Message{Type: pb.TimeoutNow, From: 1, To: 2, Term: pp.durable.Term}) == nil, "handle-ok")
			for pp.process() {
			}
		}
		if role == 2 {
			vAssert(pp.p.Handle(pb.Message{Type: pb.RequestVoteResp, From: 1, To: 2, Term: pp.durable.Term}) == nil, "handle-ok")
			for pp.process() {
			}
			vAssert(pp.leaderID == 2, "is-leader")
			vReach("leader")
		} else {
			vReach("candidate")
		}
	}
	for pp.process() {
	}
	pp.check()
	pp.sent = nil
	t0 := pp.durable.Term
	// one arbitrary event
	switch vChoose("event", 3) {
	case 0:
		m := pb.Message{Type: vInboundTypes[vChoose("type", len(vInboundTypes))], To: 2}
		m.From = 1 + 2*uint64(vChoose("from", 2))
		m.Term = vU64("term")
		vAssume(m.Term < 8)
		m.LogIndex, m.LogTerm, m.Commit = vU64("logIndex"), vU64("logTerm"), vU64("commit")
		vAssume(m.LogIndex < 16)
		vAssume(m.LogTerm < 8)
		vAssume(m.Commit < 16)
		vAssume((m.LogIndex == 0) == (m.LogTerm == 0)) // what any sender's log satisfies
		vAssume(m.LogTerm <= m.Term)
		m.Reject = vBool("reject")
		m.Hint = vU64("hint")
		vAssume(m.Hint < 16)
		if m.Type == pb.Propose {
			m.From, m.Term = 2, 0
			m.Entries = []pb.Entry{{Cmd: []byte{1}}}
		}
		if m.Type == pb.Replicate && vBool("withEntry") {
			et := vU64("entryTerm")
			vAssume(et >= m.LogTerm && et <= m.Term)
			m.Entries = []pb.Entry{{Index: m.LogIndex + 1, Term: et, Cmd: []byte{2}}}
		}
		if m.Type == pb.InstallSnapshot {
			m.Snapshot = pb.Snapshot{ShardID: 1, Index: m.LogIndex, Term: m.LogTerm, Membership: pb.Membership{Addresses: map[uint64]string{1: "a1", 2: "a2", 3: "a3"}}}
			vAssume(m.LogIndex >= 1)
			vAssume(m.LogTerm >= 1 && m.LogTerm <= m.Term)
		}
		vAssert(pp.p.Handle(m) == nil, "handle-ok")
	case 1:
		vAssert(pp.p.Handle(pb.Message{Type: pb.TimeoutNow, From: 1, To: 2, Term: pp.durable.Term}) == nil, "handle-ok")
	case 2:
		for i := 0; i < 3; i++ {
			vAssert(pp.p.Tick() == nil, "tick-ok")
		}
	}
	for pp.process() {
	}
	if pp.durable.Term > t0 {
		vReach("term-bump")
	}
	pp.check()
	vReach("done")
}
