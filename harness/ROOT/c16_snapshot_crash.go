package dragonboat

//vcheck:bounds C16: one replica; the real snapshotter (Save, Commit, Compact, Shrink, processOrphans), server.SSEnv, fileutil and the rsm snapshot writer/reader over the real lni/vfs strict in-memory FS; workload = save+commit of a snapshot at index 10, then save+commit at index 20 (regular or on-disk state machine type), then Compact(10) or Shrink(20) (on-disk), optionally a snapshot received from a leader (index 30: temp dir in receiving mode, file, metadata, finalize, record, flag removal) in place of the second local one; payload of 3 concrete bytes; a crash placed before a symbolic fsync (0..64) of this workload, everything not synced dropped; then start-up cleanup (processOrphans) on a fresh snapshotter
//vcheck:stub C16: file system = the real lni/vfs strict in-memory FS behind lni/vfs ErrorFS (crash clock), with Stat(path).Name() corrected to the last element of path (MemFS keeps a renamed node's new name after ResetToSyncedState restores the old directory entry); log store = harness ILogDB whose snapshot record is durable exactly when SaveSnapshots returns before the crash instant (its own crash behaviour is the subject of C10); state machine = ISavable writing the session bytes and 3 payload bytes; engine-side orchestration (which worker calls Save/Commit/Compact and when the received snapshot's flag is removed, engine.go:1343-1348,1406-1417) is replayed by the harness in the documented order
//vcheck:assume C16: a crash drops exactly the data not covered by a completed fsync of the file (contents) or of its directory (names), as lni/vfs StrictMem defines it; concurrent local save vs. incoming snapshot interleavings are outside

import (
	"bytes"
	"io"
	"os"

	"github.com/lni/dragonboat/v4/config"
	"github.com/lni/dragonboat/v4/internal/fileutil"
	"github.com/lni/dragonboat/v4/internal/logdb"
	"github.com/lni/dragonboat/v4/internal/rsm"
	"github.com/lni/dragonboat/v4/internal/server"
	"github.com/lni/dragonboat/v4/raftio"
	pb "github.com/lni/dragonboat/v4/raftpb"
	sm "github.com/lni/dragonboat/v4/statemachine"
	gvfs "github.com/lni/vfs"
)

// vNameFixFS corrects an artifact of lni/vfs MemFS: a node keeps the name of
// its last Rename even when ResetToSyncedState moves it back under its old
// name, so Stat(path).Name() could differ from the last element of path,
// which no real file system does.
type vNameFixFS struct{ gvfs.FS }

type vFileInfo struct {
	os.FileInfo
	name string
}

func (i vFileInfo) Name() string { return i.name }

func (f vNameFixFS) Stat(name string) (os.FileInfo, error) {
	fi, err := f.FS.Stat(name)
	if err != nil {
		return nil, err
	}
	return vFileInfo{FileInfo: fi, name: f.FS.PathBase(name)}, nil
}

type vCrashClock struct {
	mem     *gvfs.MemFS
	syncs   int
	crashAt int
	crashed bool
}

func (j *vCrashClock) MaybeError(op gvfs.Op) error {
	if op == gvfs.OpSync {
		if !j.crashed && j.crashAt >= 0 && j.syncs == j.crashAt {
			j.crashed = true
			j.mem.SetIgnoreSyncs(true)
		}
		j.syncs++
	}
	return nil
}

// vSSLogDB keeps the snapshot record; a record written after the crash instant
// never reached the disk.
type vSSLogDB struct {
	raftio.ILogDB
	clock   *vCrashClock
	current pb.Snapshot // what the running process sees
	durable pb.Snapshot // what a restarted process sees
}

func (l *vSSLogDB) SaveSnapshots(uds []pb.Update) error {
	for _, ud := range uds {
		if ud.Snapshot.Index > l.current.Index {
			l.current = ud.Snapshot
			if !l.clock.crashed {
				l.durable = ud.Snapshot
			}
		}
	}
	return nil
}
func (l *vSSLogDB) GetSnapshot(uint64, uint64) (pb.Snapshot, error) { return l.current, nil }

type vSavable struct{ dummy bool }

func (s *vSavable) Save(meta rsm.SSMeta, w io.Writer, session []byte, c sm.ISnapshotFileCollection) (bool, error) {
	if _, err := w.Write(session); err != nil {
		return false, err
	}
	if _, err := w.Write([]byte{7, 8, 9}); err != nil {
		return false, err
	}
	return s.dummy, nil
}

const vSSRoot = "/data/snapshot-1-1"

func vSSRootFn(uint64, uint64) string { return vSSRoot }

// vSaveAndCommit does what node.save does: Save, then Commit; it reports
// whether Commit returned (acknowledged) before the crash instant.
func vSaveAndCommit(s *snapshotter, clock *vCrashClock, index uint64, smType pb.StateMachineType) bool {
	meta := rsm.SSMeta{Index: index, Term: 2, From: 1, Type: smType, OnDiskIndex: index,
		Membership: pb.Membership{Addresses: map[uint64]string{1: "a1"}}, Session: vSessionBuf()}
	ss, env, err := s.Save(&vSavable{}, meta)
	vAssert(err == nil, "save-ok")
	_ = env
	vAssert(s.Commit(ss, rsm.SSRequest{}) == nil, "commit-ok")
	return !clock.crashed
}

// vReceive does what transport.Chunk + engine do for a snapshot streamed by
// the leader: temp dir in receiving mode, file, metadata, flag, rename, record
// in the log store, flag removal.
func vReceive(s *snapshotter, ldb *vSSLogDB, clock *vCrashClock, index uint64) bool {
	env := server.NewSSEnv(vSSRootFn, 1, 1, index, 2, server.ReceivingMode, s.fs)
	vAssert(env.CreateTempDir() == nil, "recv-tempdir-ok")
	w, err := rsm.NewSnapshotWriter(env.GetTempFilepath(), pb.NoCompression, s.fs)
	vAssert(err == nil, "recv-writer-ok")
	_, err = w.Write(append(vSessionBuf().Bytes(), 1, 2, 3))
	vAssert(err == nil && w.Close() == nil, "recv-write-ok")
	ss := pb.Snapshot{ShardID: 1, Index: index, Term: 3, Filepath: env.GetFilepath(), Membership: pb.Membership{Addresses: map[uint64]string{1: "a1"}}}
	vAssert(env.SaveSSMetadata(&ss) == nil, "recv-metadata-ok")
	vAssert(env.FinalizeSnapshot(&ss) == nil, "recv-finalize-ok")
	// engine: SaveRaftState with the snapshot record, then the flag goes
	vAssert(ldb.SaveSnapshots([]pb.Update{{ShardID: 1, ReplicaID: 1, Snapshot: ss}}) == nil, "recv-record-ok")
	acked := !clock.crashed
	vAssert(s.removeFlagFile(index) == nil, "recv-flag-removed")
	return acked
}

// two 8-byte size fields, as the session image starts
func vSessionBuf() *bytes.Buffer {
	return bytes.NewBuffer([]byte{1, 0, 0, 0, 0, 0, 0, 0, 2, 0, 0, 0, 0, 0, 0, 0})
}

// C16: crash anywhere in the save / commit / compact / shrink / receive
// sequences; after the start-up cleanup only complete snapshots remain, the
// recorded snapshot exists with a valid file, temporary and orphaned
// directories are gone, and nothing acknowledged was lost.
//vcheck: reach=crashed-mid-way,no-crash,recorded-snapshot-valid,nothing-recorded,done workers=16 forbid="."
func VHarness_C16_SnapshotCrash() {
	mem := gvfs.NewStrictMem()
	clock := &vCrashClock{mem: mem, crashAt: -1}
	var fs gvfs.FS = vNameFixFS{gvfs.Wrap(mem, clock)}
	vAssert(fileutil.MkdirAll(vSSRoot, fs) == nil, "mkdir-root")
	ldb := &vSSLogDB{clock: clock}
	s := newSnapshotter(1, 1, vSSRootFn, ldb, logdb.NewLogReader(1, 1, ldb), fs)
	clock.crashAt = clock.syncs + vChoose("crashAtSync", 65)
	smType := pb.RegularStateMachine
	onDisk := vBool("onDiskSM")
	if onDisk {
		smType = pb.OnDiskStateMachine
	}
	acked := uint64(0)
	step := func(ok bool, index uint64) {
		if ok && index > acked {
			acked = index
		}
	}
	step(vSaveAndCommit(s, clock, 10, smType), 10)
	last := uint64(20)
	if !clock.crashed {
		if vBool("secondIsReceived") {
			last = 30
			step(vReceive(s, ldb, clock, 30), 30)
		} else {
			step(vSaveAndCommit(s, clock, 20, smType), 20)
		}
	}
	if !clock.crashed {
		if onDisk && vBool("shrink") {
			vAssert(s.Shrink(last) == nil, "shrink-ok")
		} else {
			vAssert(s.Compact(10) == nil, "compact-ok")
		}
	}
	if clock.crashed {
		vReach("crashed-mid-way")
	} else {
		vReach("no-crash")
	}
	// power failure
	mem.SetIgnoreSyncs(true)
	mem.ResetToSyncedState()
	mem.SetIgnoreSyncs(false)
	clock.crashAt, clock.crashed = -1, false
	ldb2 := &vSSLogDB{clock: clock, current: ldb.durable, durable: ldb.durable}
	s2 := newSnapshotter(1, 1, vSSRootFn, ldb2, logdb.NewLogReader(1, 1, ldb2), fs)
	vAssert(s2.processOrphans() == nil, "startup-cleanup-ok")
	rec := ldb2.durable
	vAssert(rec.Index >= acked, "recorded-snapshot-not-older-than-acknowledged")
	names, err := fs.List(vSSRoot)
	vAssert(err == nil, "list-ok")
	for _, n := range names {
		vAssert(!server.GenSnapshotDirNameRe.MatchString(n) && !server.RecvSnapshotDirNameRe.MatchString(n), "no-temporary-directory-left")
		if server.SnapshotDirNameRe.MatchString(n) {
			vAssert(rec.Index != 0 && n == server.GetSnapshotDirName(rec.Index), "only-the-recorded-snapshot-remains")
			vAssert(!fileutil.HasFlagFile(fs.PathJoin(vSSRoot, n), fileutil.SnapshotFlagFilename, fs), "no-flag-file-left")
		}
	}
	if rec.Index != 0 {
		fp := s2.getFilePath(rec.Index)
		vAssert(fp == rec.Filepath, "recorded-path-is-the-final-path")
		shrunk, err := rsm.IsShrunkSnapshotFile(fp, fs)
		vAssert(err == nil, "recorded-snapshot-file-exists")
		if err == nil && !shrunk {
			r, h, err := rsm.NewSnapshotReader(fp, fs)
			vAssert(err == nil, "recorded-snapshot-file-opens")
			if err == nil {
				_ = h
				buf := make([]byte, 64)
				n, _ := io.ReadFull(r, buf)
				vAssert(n >= 3, "recorded-snapshot-file-has-its-payload")
				vAssert(r.Close() == nil, "recorded-snapshot-file-validates")
			}
		}
		vReach("recorded-snapshot-valid")
	} else {
		vReach("nothing-recorded")
	}
	// a new snapshot can be taken after the restart
	vAssert(vSaveAndCommit(s2, clock, 40, smType), "save-after-restart-ok")
	vReach("done")
}

// ---------------------------------------------------------------------------
// C16: "comes back at a state no older than the recorded snapshot" for an
// on-disk state machine recovering from a received snapshot (node.recover).

// vDiskSM is an on-disk managed state machine whose data is just the index it
// reflects; Sync makes the current index durable (unless the power is gone).
type vDiskSM struct {
	clock   *vCrashClock
	current uint64
	durable uint64
	opened  bool
}

func (s *vDiskSM) Open() (uint64, error) { s.opened = true; return s.current, nil }
func (s *vDiskSM) Update(e sm.Entry) (sm.Result, error) {
	s.current = e.Index
	return sm.Result{}, nil
}
func (s *vDiskSM) BatchedUpdate(es []sm.Entry) ([]sm.Entry, error) {
	for _, e := range es {
		s.current = e.Index
	}
	return es, nil
}
func (s *vDiskSM) Lookup(interface{}) (interface{}, error)           { return nil, nil }
func (s *vDiskSM) ConcurrentLookup(interface{}) (interface{}, error) { return nil, nil }
func (s *vDiskSM) NALookup([]byte) ([]byte, error)                   { return nil, nil }
func (s *vDiskSM) NAConcurrentLookup([]byte) ([]byte, error)         { return nil, nil }
func (s *vDiskSM) Sync() error {
	// a durability event of its own: the power may fail right before it
	_ = s.clock.MaybeError(gvfs.OpSync)
	if !s.clock.crashed {
		s.durable = s.current
	}
	return nil
}
func (s *vDiskSM) GetHash() (uint64, error)      { return s.current, nil }
func (s *vDiskSM) Prepare() (interface{}, error) { return nil, nil }
func (s *vDiskSM) Save(rsm.SSMeta, io.Writer, []byte, sm.ISnapshotFileCollection) (bool, error) {
	return true, nil
}
func (s *vDiskSM) Recover(r io.Reader, fs []sm.SnapshotFile) error {
	b := make([]byte, 8)
	if _, err := io.ReadFull(r, b); err != nil {
		return err
	}
	s.current = uint64(b[0]) // (indexes of this harness are below 256)
	return nil
}
func (s *vDiskSM) Stream(interface{}, io.Writer) error { return nil }
func (s *vDiskSM) Offloaded() bool                     { return false }
func (s *vDiskSM) Loaded()                             {}
func (s *vDiskSM) Close() error                        { return nil }
func (s *vDiskSM) DestroyedC() <-chan struct{}         { return nil }
func (s *vDiskSM) Concurrent() bool                    { return true }
func (s *vDiskSM) OnDisk() bool                        { return true }
func (s *vDiskSM) Type() pb.StateMachineType           { return pb.OnDiskStateMachine }

type vRsmNode struct{}

func (vRsmNode) StepReady()                                            {}
func (vRsmNode) RestoreRemotes(pb.Snapshot) error                      { return nil }
func (vRsmNode) ApplyUpdate(pb.Entry, sm.Result, bool, bool, bool)     {}
func (vRsmNode) ApplyConfigChange(pb.ConfigChange, uint64, bool) error { return nil }
func (vRsmNode) ReplicaID() uint64                                     { return 1 }
func (vRsmNode) ShardID() uint64                                       { return 1 }
func (vRsmNode) ShouldStop() <-chan struct{}                           { return nil }

func vNewDiskNode(clock *vCrashClock, ldb *vSSLogDB, fs gvfs.FS, usm *vDiskSM) *node {
	lr := logdb.NewLogReader(1, 1, ldb)
	s := newSnapshotter(1, 1, vSSRootFn, ldb, lr, fs)
	lr.SetCompactor(s) // as nodehost.startShard does
	if !pb.IsEmptySnapshot(ldb.current) {
		vAssert(lr.ApplySnapshot(ldb.current) == nil, "logreader-snapshot")
	}
	cfg := config.Config{ShardID: 1, ReplicaID: 1, CompactionOverhead: 5}
	return &node{shardID: 1, replicaID: 1, config: cfg, snapshotter: s, logReader: lr,
		sm:        rsm.NewStateMachine(usm, s, cfg, vRsmNode{}, fs),
		sysEvents: newSysEventListener(nil, nil)}
}

// C16 (on-disk state machines): a follower recovers from a snapshot streamed
// by the leader through the real node.recover (rsm recover, Sync, Shrink,
// compaction bookkeeping); power fails before a symbolic durability event (an
// fsync of the file system or the state machine's own Sync).  After the
// restart through the real start-up path (processOrphans, OpenOnDiskStateMachine,
// initial recover) the replica is not older than the snapshot recorded in its
// log store: either its own data covers the snapshot or the snapshot still
// carries the data.
//vcheck: reach=crashed-mid-way,no-crash,restarted-from-own-data,restarted-from-snapshot,second-life-crashed-mid-way,done workers=16 forbid="."
func VHarness_C16_OnDiskRecoverCrash() {
	mem := gvfs.NewStrictMem()
	clock := &vCrashClock{mem: mem, crashAt: -1}
	var fs gvfs.FS = vNameFixFS{gvfs.Wrap(mem, clock)}
	vAssert(fileutil.MkdirAll(vSSRoot, fs) == nil, "mkdir-root")
	ldb := &vSSLogDB{clock: clock}
	usm := &vDiskSM{clock: clock, current: 10, durable: 10}
	n := vNewDiskNode(clock, ldb, fs, usm)
	_, err := n.recover(rsm.Task{Recover: true, Initial: true})
	vAssert(err == nil && usm.opened, "initial-recover-ok")
	// the streamed snapshot (index 50) arrives: file = session image + data
	env := server.NewSSEnv(vSSRootFn, 1, 1, 50, 2, server.ReceivingMode, fs)
	vAssert(env.CreateTempDir() == nil, "recv-tempdir-ok")
	w, err := rsm.NewSnapshotWriter(env.GetTempFilepath(), pb.NoCompression, fs)
	vAssert(err == nil, "recv-writer-ok")
	var img bytes.Buffer
	vAssert(rsm.NewSessionManager().SaveSessions(&img) == nil, "session-image-ok")
	img.Write([]byte{50, 0, 0, 0, 0, 0, 0, 0})
	_, err = w.Write(img.Bytes())
	vAssert(err == nil && w.Close() == nil, "recv-write-ok")
	ss := pb.Snapshot{ShardID: 1, Index: 50, Term: 3, OnDiskIndex: 50, Type: pb.OnDiskStateMachine, Filepath: env.GetFilepath(),
		Membership: pb.Membership{Addresses: map[uint64]string{1: "a1"}}}
	vAssert(env.SaveSSMetadata(&ss) == nil, "recv-metadata-ok")
	vAssert(env.FinalizeSnapshot(&ss) == nil, "recv-finalize-ok")
	vAssert(ldb.SaveSnapshots([]pb.Update{{ShardID: 1, ReplicaID: 1, Snapshot: ss}}) == nil, "recv-record-ok")
	vAssert(n.logReader.ApplySnapshot(ss) == nil, "logreader-snapshot")
	vAssert(n.snapshotter.removeFlagFile(50) == nil, "recv-flag-removed")
	// from here on the power may fail
	firstCrash := vChoose("crashAtEvent", 17)
	clock.crashAt = clock.syncs + firstCrash
	idx, err := n.recover(rsm.Task{Recover: true, Index: 50})
	vAssert(err == nil && idx == 50, "recover-ok")
	vAssert(usm.current == 50, "recovered-data-in-place")
	if clock.crashed {
		vReach("crashed-mid-way")
	} else {
		vReach("no-crash")
	}
	// power failure and restart
	mem.SetIgnoreSyncs(true)
	mem.ResetToSyncedState()
	mem.SetIgnoreSyncs(false)
	clock.crashAt, clock.crashed = -1, false
	ldb2 := &vSSLogDB{clock: clock, current: ldb.durable, durable: ldb.durable}
	usm2 := &vDiskSM{clock: clock, current: usm.durable, durable: usm.durable}
	n2 := vNewDiskNode(clock, ldb2, fs, usm2)
	vAssert(n2.snapshotter.processOrphans() == nil, "startup-cleanup-ok")
	// when the first life ended right after the snapshot was recorded (nothing of
	// the recovery durable), the second life loads the full snapshot in its
	// initial recovery - and the power may fail again during that
	secondCrash := firstCrash == 0
	if secondCrash {
		clock.crashAt = clock.syncs + vChoose("crashAtEventOfSecondLife", 9)
	}
	_, err = n2.recover(rsm.Task{Recover: true, Initial: true})
	vAssert(err == nil, "restart-recover-ok")
	vAssert(ldb2.durable.Index == 50, "record-was-durable-before-recovery-started")
	vAssert(usm2.current >= ldb2.durable.Index, "not-older-than-the-recorded-snapshot")
	if secondCrash {
		mem.SetIgnoreSyncs(true)
		mem.ResetToSyncedState()
		mem.SetIgnoreSyncs(false)
		if clock.crashed {
			vReach("second-life-crashed-mid-way")
		}
		clock.crashAt, clock.crashed = -1, false
		ldb3 := &vSSLogDB{clock: clock, current: ldb2.durable, durable: ldb2.durable}
		usm3 := &vDiskSM{clock: clock, current: usm2.durable, durable: usm2.durable}
		n3 := vNewDiskNode(clock, ldb3, fs, usm3)
		vAssert(n3.snapshotter.processOrphans() == nil, "second-startup-cleanup-ok")
		_, err = n3.recover(rsm.Task{Recover: true, Initial: true})
		vAssert(err == nil, "second-restart-recover-ok")
		vAssert(usm3.current >= ldb3.durable.Index, "not-older-than-the-recorded-snapshot-after-the-second-restart")
	}
	if usm.durable >= 50 {
		vReach("restarted-from-own-data")
	} else {
		vReach("restarted-from-snapshot")
	}
	vReach("done")
}
