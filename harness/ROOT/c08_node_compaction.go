package dragonboat

//vcheck:tags noasm
//vcheck:bounds C08 node: snapshot files written without compression or with Snappy stream compression (golang/snappy's pure-Go encoder/decoder, build tag noasm, stands in for the amd64 assembly of the production build); one replica with a concurrent in-memory or an on-disk state machine model behind the real rsm.StateMachine, the real snapshotter / SSEnv / snapshot writer over the real lni/vfs in-memory FS, the real logdb.LogReader; 8..10 applied entries, then one real node.save -> doSave (periodic, or user requested with a symbolic compaction overhead / compaction index override, or exported) during which 0..3 more entries are applied (concurrent state machines keep applying while a snapshot is written), then the real node.removeLog; CompactionOverhead 2
//vcheck:stub C08 node: log store = harness ILogDB holding entry terms, the snapshot record and the RemoveEntriesTo watermark; user state machine = counter of applied entries whose snapshot is the count captured by PrepareSnapshot

import (
	"io"

	"github.com/lni/dragonboat/v4/config"
	"github.com/lni/dragonboat/v4/internal/fileutil"
	"github.com/lni/dragonboat/v4/internal/logdb"
	"github.com/lni/dragonboat/v4/internal/raft"
	"github.com/lni/dragonboat/v4/internal/rsm"
	"github.com/lni/dragonboat/v4/raftio"
	pb "github.com/lni/dragonboat/v4/raftpb"
	sm "github.com/lni/dragonboat/v4/statemachine"
	gvfs "github.com/lni/vfs"
)

type vEntStore struct {
	raftio.ILogDB
	last      uint64 // entries 1..last exist (term 1), minus the removed prefix
	removedTo uint64
	ss        pb.Snapshot
}

func (l *vEntStore) IterateEntries(ents []pb.Entry, size uint64, shardID uint64, replicaID uint64, low uint64, high uint64, maxSize uint64) ([]pb.Entry, uint64, error) {
	for i := low; i < high && i <= l.last; i++ {
		if i <= l.removedTo {
			continue
		}
		e := pb.Entry{Index: i, Term: 1}
		ents = append(ents, e)
		size += uint64(e.SizeUpperLimit())
		if size > maxSize {
			break
		}
	}
	return ents, size, nil
}
func (l *vEntStore) RemoveEntriesTo(shardID uint64, replicaID uint64, index uint64) error {
	if index > l.removedTo {
		l.removedTo = index
	}
	return nil
}
func (l *vEntStore) SaveSnapshots(uds []pb.Update) error {
	for _, ud := range uds {
		if ud.Snapshot.Index > l.ss.Index {
			l.ss = ud.Snapshot
		}
	}
	return nil
}
func (l *vEntStore) GetSnapshot(uint64, uint64) (pb.Snapshot, error) { return l.ss, nil }

// vCountSM: the user data is the number of entries applied.
type vCountSM struct {
	onDisk  bool
	count   uint64
	synced  uint64
	during  func() // runs while the snapshot is being written
	savedAt uint64
}

func (s *vCountSM) Open() (uint64, error) { return s.count, nil }
func (s *vCountSM) Update(e sm.Entry) (sm.Result, error) {
	s.count = e.Index
	return sm.Result{}, nil
}
func (s *vCountSM) BatchedUpdate(es []sm.Entry) ([]sm.Entry, error) {
	for _, e := range es {
		s.count = e.Index
	}
	return es, nil
}
func (s *vCountSM) Lookup(interface{}) (interface{}, error)           { return nil, nil }
func (s *vCountSM) ConcurrentLookup(interface{}) (interface{}, error) { return nil, nil }
func (s *vCountSM) NALookup([]byte) ([]byte, error)                   { return nil, nil }
func (s *vCountSM) NAConcurrentLookup([]byte) ([]byte, error)         { return nil, nil }
func (s *vCountSM) Sync() error                                       { s.synced = s.count; return nil }
func (s *vCountSM) GetHash() (uint64, error)                          { return s.count, nil }
func (s *vCountSM) Prepare() (interface{}, error)                     { return s.count, nil }
func (s *vCountSM) Save(meta rsm.SSMeta, w io.Writer, session []byte, c sm.ISnapshotFileCollection) (bool, error) {
	if _, err := w.Write(session); err != nil {
		return false, err
	}
	if s.during != nil {
		s.during()
	}
	captured, _ := meta.Ctx.(uint64)
	s.savedAt = captured
	if _, err := w.Write([]byte{byte(captured), 0, 0, 0, 0, 0, 0, 0}); err != nil {
		return false, err
	}
	return false, nil
}
func (s *vCountSM) Recover(r io.Reader, fs []sm.SnapshotFile) error {
	b := make([]byte, 8)
	if _, err := io.ReadFull(r, b); err != nil {
		return err
	}
	s.count = uint64(b[0])
	return nil
}
func (s *vCountSM) Stream(interface{}, io.Writer) error { return nil }
func (s *vCountSM) Offloaded() bool                     { return false }
func (s *vCountSM) Loaded()                             {}
func (s *vCountSM) Close() error                        { return nil }
func (s *vCountSM) DestroyedC() <-chan struct{}         { return nil }
func (s *vCountSM) Concurrent() bool                    { return true }
func (s *vCountSM) OnDisk() bool                        { return s.onDisk }
func (s *vCountSM) Type() pb.StateMachineType {
	if s.onDisk {
		return pb.OnDiskStateMachine
	}
	return pb.ConcurrentStateMachine
}

func vApply(n *node, from, to uint64) {
	var es []pb.Entry
	for i := from; i <= to; i++ {
		es = append(es, pb.Entry{Type: pb.ApplicationEntry, Index: i, Term: 1, ClientID: 77, Cmd: []byte{byte(i)}})
	}
	n.sm.TaskQ().Add(rsm.Task{Entries: es})
	_, err := n.sm.Handle(make([]rsm.Task, 0), make([]sm.Entry, 0))
	vAssert(err == nil, "apply-ok")
}

// C08: "Log compaction never removes an entry that is not covered by a
// snapshot the replica can durably recover from", decided on the real
// node.doSave -> removeLog path: whatever the request type, the compaction
// overhead / index override and however far the state machine has moved on
// while the snapshot was being written, everything above the recorded
// snapshot is still in the log afterwards, the recorded snapshot is labelled
// with the index of the state it captured, and a restarted replica (snapshot +
// remaining entries) reaches the state of the running one.
//vcheck: reach=compressed,periodic,user-overhead,user-index,exported,applied-during-save,compacted,restart-equal,done workers=16 forbid="."
func VHarness_C08_NodeSaveCompaction() {
	mem := gvfs.NewStrictMem()
	var fs gvfs.FS = vNameFixFS{mem}
	vAssert(fileutil.MkdirAll(vSSRoot, fs) == nil, "mkdir-root")
	store := &vEntStore{}
	usm := &vCountSM{onDisk: vBool("onDisk")}
	lr := logdb.NewLogReader(1, 1, store)
	ssr := newSnapshotter(1, 1, vSSRootFn, store, lr, fs)
	lr.SetCompactor(ssr)
	cfg := config.Config{ShardID: 1, ReplicaID: 1, CompactionOverhead: 2, DisableAutoCompactions: true}
	if vBool("snappy") {
		cfg.SnapshotCompressionType = config.Snappy
		vReach("compressed")
	}
	n := &node{shardID: 1, replicaID: 1, config: cfg, snapshotter: ssr, logReader: lr, logdb: store,
		sm: rsm.NewStateMachine(usm, ssr, cfg, vRsmNode{}, fs), sysEvents: newSysEventListener(nil, nil)}
	ssC := make(chan rsm.SSRequest, 1)
	n.pendingSnapshot = newPendingSnapshot(ssC)
	if usm.onDisk {
		_, err := n.sm.OpenOnDiskStateMachine()
		vAssert(err == nil, "open-ok")
	}
	// membership is needed for a snapshot to be taken
	n.sm.TaskQ().Add(rsm.Task{Entries: []pb.Entry{{Type: pb.ConfigChangeEntry, Index: 1, Term: 1,
		Cmd: pb.MustMarshal(&pb.ConfigChange{Type: pb.AddNode, ReplicaID: 1, Address: "a1", Initialize: true})}}})
	_, err := n.sm.Handle(make([]rsm.Task, 0), make([]sm.Entry, 0))
	vAssert(err == nil, "bootstrap-apply-ok")
	applied := uint64(8 + vChoose("applied", 3))
	extra := uint64(vChoose("appliedDuringSave", 4))
	store.last = applied + extra
	lr.SetRange(1, store.last)
	vApply(n, 2, applied)
	if extra > 0 {
		usm.during = func() {
			usm.during = nil
			vApply(n, applied+1, applied+extra)
			vReach("applied-during-save")
		}
	}
	req := rsm.SSRequest{Type: rsm.Periodic}
	switch vChoose("request", 4) {
	case 0:
		vReach("periodic")
	case 1:
		req = rsm.SSRequest{Type: rsm.UserRequested, OverrideCompaction: true, CompactionOverhead: vU64("overhead")}
		vAssume(req.CompactionOverhead < 64)
		vReach("user-overhead")
	case 2:
		req = rsm.SSRequest{Type: rsm.UserRequested, OverrideCompaction: true, CompactionIndex: vU64("compactionIndex")}
		vAssume(req.CompactionIndex >= 1 && req.CompactionIndex < 64)
		vReach("user-index")
	case 3:
		vAssert(fileutil.MkdirAll("/export", fs) == nil, "mkdir-export")
		req = rsm.SSRequest{Type: rsm.Exported, Path: "/export"}
		vReach("exported")
	}
	// the snapshot worker's entry point (node.save -> doSave -> compactLog)
	err = n.save(rsm.Task{Save: true, SSRequest: req})
	vAssert(err == nil, "save-ok")
	vAssert(usm.during == nil, "entries-applied-during-save")
	if req.Type != rsm.Exported {
		vAssert(n.ss.getIndex() == applied, "snapshot-index-is-the-index-captured-at-prepare")
	}
	vAssert(usm.onDisk || usm.savedAt == applied, "snapshot-data-is-the-state-at-its-index")
	if req.Type == rsm.Exported {
		vAssert(store.ss.Index == 0 && !n.ss.hasCompactLogTo(), "exported-snapshot-neither-recorded-nor-compacting")
		vReach("done")
		return
	}
	vAssert(store.ss.Index == applied, "snapshot-recorded-in-the-log-store")
	vAssert(n.removeLog() == nil, "remove-log-ok")
	first, last := lr.GetRange()
	vAssert(last == store.last, "compaction-keeps-the-end")
	// nothing above the durable snapshot was removed
	vAssert(first <= store.ss.Index+1, "entries-above-the-recorded-snapshot-kept-in-logreader")
	vAssert(store.removedTo <= store.ss.Index, "entries-above-the-recorded-snapshot-kept-in-store")
	if req.OverrideCompaction && req.CompactionIndex > 0 {
		vAssert(store.removedTo <= req.CompactionIndex, "compaction-index-override-respected")
	} else if req.OverrideCompaction {
		vAssert(store.removedTo == 0 || store.removedTo+req.CompactionOverhead <= store.ss.Index, "compaction-overhead-override-respected")
	} else {
		vAssert(store.removedTo == 0 || store.removedTo+cfg.CompactionOverhead <= store.ss.Index, "configured-compaction-overhead-respected")
	}
	if store.removedTo > 0 {
		vReach("compacted")
	}
	// restart: snapshot + the entries after it
	if !usm.onDisk {
		usm2 := &vCountSM{}
		lr2 := logdb.NewLogReader(1, 1, store)
		ssr2 := newSnapshotter(1, 1, vSSRootFn, store, lr2, fs)
		lr2.SetCompactor(ssr2)
		vAssert(lr2.ApplySnapshot(store.ss) == nil, "restart-logreader-snapshot")
		lr2.SetRange(store.removedTo+1, store.last-store.removedTo)
		n2 := &node{shardID: 1, replicaID: 1, config: cfg, snapshotter: ssr2, logReader: lr2, logdb: store,
			sm: rsm.NewStateMachine(usm2, ssr2, cfg, vRsmNode{}, fs), sysEvents: newSysEventListener(nil, nil)}
		ridx, err := n2.recover(rsm.Task{Recover: true, Initial: true})
		vAssert(err == nil && ridx == store.ss.Index, "restart-recover-ok")
		vAssert(usm2.count == store.ss.Index, "restart-state-is-the-snapshot-state")
		ents, err := lr2.Entries(store.ss.Index+1, store.last+1, 1<<40)
		if store.last > store.ss.Index {
			vAssert(err == nil && uint64(len(ents)) == store.last-store.ss.Index, "restart-remaining-entries-available")
			vApply(n2, store.ss.Index+1, store.last)
		} else {
			vAssert(err == nil || err == raft.ErrCompacted || len(ents) == 0, "restart-nothing-left")
		}
		vAssert(usm2.count == usm.count && n2.sm.GetLastApplied() == n.sm.GetLastApplied(), "restarted-replica-reaches-the-running-state")
		vReach("restart-equal")
	} else {
		vReach("restart-equal")
	}
	vReach("done")
}
