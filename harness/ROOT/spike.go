package dragonboat

//vcheck:init github.com/lni/dragonboat/v4/internal/settings,github.com/lni/dragonboat/v4/raftpb,github.com/lni/dragonboat/v4

import (
	"sync"

	"github.com/lni/dragonboat/v4/client"
	"github.com/lni/dragonboat/v4/config"
	sm "github.com/lni/dragonboat/v4/statemachine"
)


//vcheck: reach=completed,timeout,terminated,done workers=16
func VHarness_C12_Proposal() {
	pool := &sync.Pool{}
	pool.New = func() interface{} {
		obj := &RequestState{}
		obj.CompletedC = make(chan RequestResult, 1)
		obj.pool = pool
		return obj
	}
	q := newEntryQueue(4, 0)
	p := newPendingProposalShard(config.Config{ShardID: 1, ReplicaID: 1}, false, pool, q)
	p.gcTick = 1
	tick0 := vU64("tick0")
	vAssume(tick0 < 1<<40)
	p.tick(tick0)
	cs := &client.Session{ShardID: 1, ClientID: vU64("cid"), SeriesID: vU64("sid")}
	to := vU64("timeout")
	vAssume(to >= 1 && to < 100)
	key := vU64("key")
	rs, err := p.propose(cs, nil, key, to)
	vAssert(err == nil && rs != nil, "accepted")
	nops := 3
	closed := false
	delivered := 0
	var got RequestResult
	for i := 0; i < nops; i++ {
		switch vChoose("op", 4) {
		case 0:
			res := vU64("res")
			p.applied(vU64("acid"), vU64("asid"), vU64("akey"), sm.Result{Value: res}, vBool("rej"))
		case 1:
			p.dropped(vU64("dcid"), vU64("dsid"), vU64("dkey"))
		case 2:
			t := vU64("tick")
			vAssume(t >= p.getTick() && t < 1<<41)
			p.tick(t)
			p.gc()
		case 3:
			vAssume(!closed)
			closed = true
			p.close()
		}
		for len(rs.CompletedC) > 0 {
			got = <-rs.CompletedC
			delivered++
		}
	}
	vAssert(delivered <= 1, "at-most-one-result")
	if delivered == 1 && got.code == requestCompleted {
		vReach("completed")
	}
	if delivered == 1 && got.code == requestTimeout {
		vReach("timeout")
	}
	if delivered == 1 && got.code == requestTerminated {
		vReach("terminated")
	}
	vReach("done")
}


// F5: commit notification vs timeout + Release + pool reuse
//vcheck: reach=done replay=symbolic
func VHarness_C12_CommitCrossTalk() {
	pool := &sync.Pool{}
	pool.New = func() interface{} {
		obj := &RequestState{}
		obj.CompletedC = make(chan RequestResult, 1)
		obj.pool = pool
		return obj
	}
	q := newEntryQueue(4, 0)
	p := newPendingProposalShard(config.Config{ShardID: 1, ReplicaID: 1}, true, pool, q)
	p.gcTick = 1
	p.tick(10)
	rs1, err := p.propose(&client.Session{ShardID: 1, ClientID: 1, SeriesID: 1}, nil, 100, 5)
	vAssert(err == nil, "accepted1")
	var rs2 *RequestState
	vSpawn(func() {
		p.committed(1, 1, 100)
	})
	vSpawn(func() {
		p.tick(20)
		p.gc()
		if len(rs1.CompletedC) == 1 {
			r := <-rs1.CompletedC
			if r.code == requestTimeout {
				rs1.Release()
				rs2, _ = p.propose(&client.Session{ShardID: 1, ClientID: 2, SeriesID: 1}, nil, 200, 5)
			}
		}
	})
	vRunThreads()
	if rs2 != nil {
		vReach("second-request-made")
		if rs2 == rs1 {
			vReach("object-reused")
		}
		vAssert(len(rs2.committedC) == 0, "no-spurious-committed")
	}
	vReach("done")
}
