package dragonboat

// C12: the pending-request tables of request.go.

//vcheck:bounds requests: <= 4 operations per run on one proposal shard / read-index table / config-change / snapshot table, <= 3 live requests, symbolic keys, client/series ids, ticks, deadlines and results; sync.Pool may hand back any released object (LIFO) or a new one
//vcheck:assume requests: random 64-bit keys and read contexts of live requests are pairwise distinct; node.close() (and therefore every table's close()) happens once
//vcheck:stub requests: sync.Pool = LIFO list of released objects falling back to New; logicalClock ticks are symbolic non-decreasing values

import (
	"sync"

	"github.com/lni/dragonboat/v4/client"
	"github.com/lni/dragonboat/v4/config"
	"github.com/lni/dragonboat/v4/internal/rsm"
	pb "github.com/lni/dragonboat/v4/raftpb"
	sm "github.com/lni/dragonboat/v4/statemachine"
)

func vPool() *sync.Pool {
	pool := &sync.Pool{}
	pool.New = func() interface{} {
		obj := &RequestState{}
		obj.CompletedC = make(chan RequestResult, 1)
		obj.pool = pool
		return obj
	}
	return pool
}

// vLedger follows one accepted request: how many terminal results and
// Committed notifications it has received.
type vLedger struct {
	rs        *RequestState
	key       uint64
	cid, sid  uint64
	deadline  uint64
	terminal  int
	committed int
	last      RequestResult
	live      bool // not released yet
	noRead    bool // the client never reads the result channel (it only counts as delivered)
	counted   bool
}

func (l *vLedger) drain() {
	if !l.live {
		return
	}
	if l.noRead {
		// a second delivery would find the channel full and panic ("is full")
		if len(l.rs.CompletedC) > 0 && !l.counted {
			l.counted = true
			l.terminal++
			l.last = RequestResult{code: 255}
		}
		return
	}
	for len(l.rs.CompletedC) > 0 {
		l.last = <-l.rs.CompletedC
		l.terminal++
	}
	if l.rs.committedC != nil {
		for len(l.rs.committedC) > 0 {
			<-l.rs.committedC
			l.committed++
			vAssert(l.terminal == 0, "committed-only-before-terminal")
		}
	}
}

// C12: proposals. Arbitrary op sequences incl. Release without reading the
// result and reuse of the pooled object by a later proposal.
//vcheck: reach=completed,timeout,terminated,dropped,reused,done workers=16 forbid="is full"
func VHarness_C12_ProposalLedger() {
	pool := vPool()
	notify := vBool("notifyCommit")
	p := newPendingProposalShard(config.Config{ShardID: 1, ReplicaID: 1}, notify, pool, newEntryQueue(8, 0))
	p.gcTick = 1
	tick := vU64("tick0")
	vAssume(tick < 1<<40)
	p.tick(tick)
	var reqs []*vLedger
	var committedKeys []uint64
	closed := false
	nops := 4 + vTier()
	for i := 0; i < nops; i++ {
		op := 0
		if i < 4 {
			op = vChoose("op", 7)
		} else {
			// thorough tier: a fifth operation out of applied / time passes+gc /
			// release (a full seven-way fifth step is ~2 million paths)
			op = []int{1, 4, 6}[vChoose("op5", 3)]
		}
		switch op {
		case 0: // propose
			vAssume(!closed && len(reqs) < 3)
			cs := &client.Session{ShardID: 1, ClientID: vU64("cid"), SeriesID: vU64("sid")}
			to := vU64("timeout")
			vAssume(to >= 1)
			vAssume(to < 100)
			key := vU64("key")
			for _, l := range reqs {
				vAssume(l.key != key)
			}
			rs, err := p.propose(cs, nil, key, to)
			vAssert(err == nil && rs != nil, "accepted")
			// a freshly accepted request carries no result of anybody else
			vAssert(len(rs.CompletedC) == 0, "fresh-request-has-no-result")
			vAssert(rs.committedC == nil || len(rs.committedC) == 0, "fresh-request-has-no-committed-notification")
			for _, l := range reqs {
				if l.rs == rs {
					vAssert(!l.live, "live-request-object-never-handed-out-again")
					vReach("reused")
				}
			}
			reqs = append(reqs, &vLedger{rs: rs, key: key, cid: cs.ClientID, sid: cs.SeriesID, deadline: tick + to, live: true, noRead: vBool("clientNeverReads")})
		case 1: // applied
			res := vU64("res")
			rej := vBool("rej")
			ck, cc, csid := vU64("akey"), vU64("acid"), vU64("asid")
			p.applied(cc, csid, ck, sm.Result{Value: res}, rej)
			for _, l := range reqs {
				before := l.terminal
				l.drain()
				if l.terminal > before {
					vAssert(l.key == ck && l.cid == cc && l.sid == csid, "result-goes-to-the-matching-request-only")
					if l.last.code == 255 {
						// unread
					} else if l.last.code == requestCompleted {
						vReach("completed")
						vAssert(l.last.result.Value == res && !rej, "completed-carries-the-applied-value")
					} else {
						vAssert(l.last.code == requestRejected && rej || l.last.code == requestTimeout, "applied-result-code")
					}
				}
			}
		case 2: // dropped
			ck, cc, csid := vU64("dkey"), vU64("dcid"), vU64("dsid")
			p.dropped(cc, csid, ck)
			for _, l := range reqs {
				before := l.terminal
				l.drain()
				if l.terminal > before {
					vReach("dropped")
					vAssert(l.key == ck && l.cid == cc && l.sid == csid && (l.last.code == requestDropped || l.noRead), "dropped-goes-to-the-matching-request-only")
				}
			}
		case 3: // committed (the commit worker reports every committed entry once)
			vAssume(notify)
			ck, cc, csid := vU64("ckey"), vU64("ccid"), vU64("csid")
			for _, k := range committedKeys {
				vAssume(k != ck)
			}
			committedKeys = append(committedKeys, ck)
			p.committed(cc, csid, ck)
			for _, l := range reqs {
				before := l.committed
				l.drain()
				if l.committed > before {
					vAssert(l.key == ck && l.cid == cc && l.sid == csid, "committed-goes-to-the-matching-request-only")
				}
			}
		case 4: // time passes, gc
			t := vU64("tick")
			vAssume(t >= tick)
			vAssume(t < 1<<41)
			tick = t
			p.tick(t)
			p.gc()
			for _, l := range reqs {
				before := l.terminal
				l.drain()
				if l.terminal > before {
					vReach("timeout")
					vAssert((l.last.code == requestTimeout || l.noRead) && l.deadline < t, "timeout-only-after-deadline")
				}
			}
		case 5: // shard stops
			vAssume(!closed)
			closed = true
			p.close()
			for _, l := range reqs {
				before := l.terminal
				l.drain()
				if l.terminal > before {
					vReach("terminated")
					vAssert(l.last.code == requestTerminated || l.noRead, "close-terminates")
				}
			}
		case 6: // client releases a notified request (possibly WITHOUT having read its result)
			vAssume(len(reqs) > 0)
			l := reqs[vChoose("which", len(reqs))]
			vAssume(l.live)
			if l.rs.readyToRelease.ready() {
				l.drain()
				l.live = false
				l.rs.Release()
			}
		}
		for _, l := range reqs {
			l.drain()
			vAssert(l.terminal <= 1, "at-most-one-terminal-result")
			vAssert(l.committed <= 1, "at-most-one-committed-notification")
		}
	}
	// never zero: once the shard is closed, or once gc ran after the deadline, the result is there
	for _, l := range reqs {
		if closed {
			vAssert(l.terminal == 1, "exactly-one-result-after-close")
		}
	}
	vReach("done")
}

// C12/C06-R6: ReadIndex requests. Batches are pipelined (several get()+add()
// rounds before the first confirmation arrives); every request is answered
// exactly once, Completed only when its own batch was confirmed and applied
// in time, nothing is answered on behalf of another batch.
//vcheck: props=C06 reach=completed,timeout,dropped,terminated,pipelined,done workers=16 forbid="is full"
func VHarness_C12_ReadIndexLedger() {
	pool := vPool()
	q := newReadIndexQueue(4)
	p := newPendingReadIndex(pool, q)
	p.gcTick = 1
	tick := vU64("tick0")
	vAssume(tick < 1<<40)
	p.tick(tick)
	type batch struct {
		ctx       pb.SystemCtx
		reqs      []*vLedger
		readyIdx  uint64
		confirmed bool
		gone      bool
	}
	var pendingReqs []*vLedger // accepted, not yet flushed into a batch
	var batches []*batch
	var all []*vLedger
	closed := false
	nops := 6 + vTier()
	for i := 0; i < nops; i++ {
		switch vChoose("op", 7) {
		case 0: // read
			vAssume(!closed && len(all) < 4)
			to := vU64("timeout")
			vAssume(to >= 1)
			vAssume(to < 100)
			rs, err := p.read(to)
			vAssert(err == nil && rs != nil, "accepted")
			vAssert(len(rs.CompletedC) == 0, "fresh-request-has-no-result")
			for _, l := range all {
				vAssert(l.rs != rs || !l.live, "live-request-object-never-handed-out-again")
			}
			l := &vLedger{rs: rs, deadline: tick + to, live: true}
			pendingReqs = append(pendingReqs, l)
			all = append(all, l)
		case 1: // the step worker collects the queue into a new batch (node.handleReadIndex)
			vAssume(!closed && len(pendingReqs) > 0 && len(batches) < 3)
			reqs := q.get()
			vAssert(len(reqs) == len(pendingReqs), "queue-returns-what-was-added")
			ctx := pb.SystemCtx{Low: vU64("ctxlow"), High: tick + 30}
			vAssume(ctx.Low != 0)
			for _, b := range batches {
				vAssume(b.ctx.Low != ctx.Low)
			}
			p.add(ctx, reqs)
			batches = append(batches, &batch{ctx: ctx, reqs: pendingReqs})
			pendingReqs = nil
			if len(batches) == 3 {
				vReach("pipelined")
			}
		case 2: // raft confirmed a context
			vAssume(len(batches) > 0)
			b := batches[vChoose("whichbatch", len(batches))]
			idx := vU64("readyindex")
			vAssume(idx >= 1)
			vAssume(idx < 1<<40)
			p.addReady([]pb.ReadyToRead{{Index: idx, SystemCtx: b.ctx}})
			if !b.gone {
				b.confirmed, b.readyIdx = true, idx
			}
		case 3: // apply progress
			applied := vU64("applied")
			vAssume(applied < 1<<40)
			p.applied(applied)
			for _, b := range batches {
				for _, l := range b.reqs {
					before := l.terminal
					l.drain()
					if l.terminal > before && l.last.code == requestCompleted {
						vReach("completed")
						vAssert(b.confirmed && b.readyIdx <= applied, "R6-completed-only-when-own-batch-confirmed-and-applied")
						vAssert(l.deadline > tick, "R6-completed-only-before-deadline")
						vAssert(l.rs.readyToRead.ready(), "R6-ready-flag-set")
					}
				}
				if b.confirmed && b.readyIdx <= applied {
					b.gone = true
				}
			}
		case 4: // dropped by raft
			vAssume(len(batches) > 0)
			b := batches[vChoose("dropbatch", len(batches))]
			p.dropped(b.ctx)
			for _, l := range b.reqs {
				before := l.terminal
				l.drain()
				if l.terminal > before {
					vReach("dropped")
					vAssert(l.last.code == requestDropped, "dropped-code")
				}
			}
			b.gone = true
		case 5: // time passes (gc runs from applied())
			t := vU64("tick")
			vAssume(t >= tick)
			vAssume(t < 1<<41)
			tick = t
			p.tick(t)
			p.applied(0)
		case 6:
			vAssume(!closed)
			closed = true
			p.close()
		}
		for _, l := range all {
			before := l.terminal
			l.drain()
			if l.terminal > before {
				switch l.last.code {
				case requestTimeout:
					vReach("timeout")
				case requestTerminated:
					vReach("terminated")
					vAssert(closed, "terminated-only-on-close")
				}
			}
			vAssert(l.terminal <= 1, "at-most-one-terminal-result")
		}
	}
	if closed {
		for _, l := range all {
			vAssert(l.terminal == 1, "exactly-one-result-after-close")
		}
	}
	vReach("done")
}

// C12: membership-change and snapshot requests (one pending at a time).
// (request keys come from the process-wide random source, which a native run
// cannot be told to reproduce: counterexamples are replayed symbolically)
//vcheck: reach=cc-completed,cc-timeout,ss-completed,ss-terminated,done workers=8 forbid="is full" replay=symbolic
func VHarness_C12_SingleSlotTables() {
	tick := vU64("tick0")
	vAssume(tick < 1<<40)
	if vBool("snapshotTable") {
		ssC := make(chan rsm.SSRequest, 1)
		p := newPendingSnapshot(ssC)
		p.gcTick = 1
		p.tick(tick)
		to := vU64("timeout")
		vAssume(to >= 1)
		vAssume(to < 100)
		rs, err := p.request(rsm.UserRequested, "", false, 0, 0, to)
		vAssert(err == nil, "accepted")
		req := <-ssC
		l := &vLedger{rs: rs, key: req.Key, deadline: tick + to, live: true}
		_, err = p.request(rsm.UserRequested, "", false, 0, 0, to)
		vAssert(err == ErrSystemBusy, "second-request-refused-while-pending")
		closed := false
		for i := 0; i < 3; i++ {
			switch vChoose("op", 3) {
			case 0:
				k := vU64("akey")
				ign, ab := vBool("ignored"), vBool("aborted")
				vAssume(!(ign && ab))
				idx := vU64("ssindex")
				p.apply(k, ign, ab, idx)
				before := l.terminal
				l.drain()
				if l.terminal > before {
					vAssert(k == l.key, "snapshot-result-for-own-key-only")
					if l.last.code == requestCompleted {
						vReach("ss-completed")
						vAssert(!ign && !ab && l.last.result.Value == idx, "snapshot-completed-carries-index")
					}
				}
			case 1:
				t := vU64("tick")
				vAssume(t >= tick)
				vAssume(t < 1<<41)
				tick = t
				p.tick(t)
				p.gc()
				before := l.terminal
				l.drain()
				if l.terminal > before {
					vAssert(l.last.code == requestTimeout && l.deadline < t, "timeout-only-after-deadline")
				}
			case 2:
				vAssume(!closed)
				closed = true
				p.close()
				before := l.terminal
				l.drain()
				if l.terminal > before {
					vReach("ss-terminated")
					vAssert(l.last.code == requestTerminated, "close-terminates")
				}
			}
			l.drain()
			vAssert(l.terminal <= 1, "at-most-one-terminal-result")
		}
		if closed {
			vAssert(l.terminal == 1, "exactly-one-result-after-close")
		}
		vReach("done")
		return
	}
	ccC := make(chan configChangeRequest, 1)
	notify := vBool("notifyCommit")
	p := newPendingConfigChange(ccC, notify)
	p.gcTick = 1
	p.tick(tick)
	to := vU64("timeout")
	vAssume(to >= 1)
	vAssume(to < 100)
	rs, err := p.request(pb.ConfigChange{Type: pb.AddNode, ReplicaID: 4, Address: "a4"}, to)
	vAssert(err == nil, "accepted")
	req := <-ccC
	l := &vLedger{rs: rs, key: req.key, deadline: tick + to, live: true}
	_, err = p.request(pb.ConfigChange{Type: pb.AddNode, ReplicaID: 5, Address: "a5"}, to)
	vAssert(err == ErrSystemBusy, "second-request-refused-while-pending")
	closed := false
	committedOnce := false
	for i := 0; i < 3; i++ {
		switch vChoose("op", 5) {
		case 0:
			k := vU64("akey")
			rej := vBool("rejected")
			p.apply(k, rej)
			before := l.terminal
			l.drain()
			if l.terminal > before {
				vAssert(k == l.key, "cc-result-for-own-key-only")
				if l.last.code == requestCompleted {
					vReach("cc-completed")
					vAssert(!rej, "cc-completed-means-accepted")
				} else {
					vAssert(l.last.code == requestRejected && rej, "cc-rejected")
				}
			}
		case 1:
			k := vU64("dkey")
			p.dropped(k)
			before := l.terminal
			l.drain()
			if l.terminal > before {
				vAssert(k == l.key && l.last.code == requestDropped, "cc-dropped-own-key")
			}
		case 2:
			vAssume(notify && !committedOnce) // an entry is reported committed once
			committedOnce = true
			k := vU64("ckey")
			p.committed(k)
			before := l.committed
			l.drain()
			if l.committed > before {
				vAssert(k == l.key, "cc-committed-own-key")
			}
		case 3:
			t := vU64("tick")
			vAssume(t >= tick)
			vAssume(t < 1<<41)
			tick = t
			p.tick(t)
			p.gc()
			before := l.terminal
			l.drain()
			if l.terminal > before {
				vReach("cc-timeout")
				vAssert(l.last.code == requestTimeout && l.deadline < t, "timeout-only-after-deadline")
			}
		case 4:
			vAssume(!closed)
			closed = true
			p.close()
		}
		l.drain()
		vAssert(l.terminal <= 1 && l.committed <= 1, "at-most-one-result")
	}
	if closed {
		vAssert(l.terminal == 1, "exactly-one-result-after-close")
	}
	vReach("done")
}
