package tools

//vcheck:init github.com/lni/dragonboat/v4/internal/settings,github.com/lni/dragonboat/v4/raftpb,github.com/lni/dragonboat/v4/internal/fileutil,github.com/lni/dragonboat/v4/internal/server,github.com/lni/dragonboat/v4/internal/rsm,github.com/lni/dragonboat/v4/tools
//vcheck:bounds import: previous membership over replica ids 1..3 (each id: voter / non-voting / witness / removed / unknown), new member list of 1-2 entries with fully symbolic replica ids and addresses among a1..a3, importing replica id symbolic
//vcheck:stub import: file system = the real lni/vfs strict in-memory FS; log store = recording raftio.ILogDB supplied through NodeHostConfig.Expert.LogDBFactory

import (
	pb "github.com/lni/dragonboat/v4/raftpb"
	"github.com/lni/dragonboat/v4/config"
	"github.com/lni/dragonboat/v4/internal/vfs"
)

var vAddrs = []string{"a1", "a2", "a3", "a4", "a5"}

func vOldMembership() pb.Membership {
	m := pb.Membership{Addresses: map[uint64]string{}, NonVotings: map[uint64]string{}, Witnesses: map[uint64]string{}, Removed: map[uint64]bool{}}
	for id := uint64(1); id <= 3; id++ {
		switch vChoose("oldkind", 5) {
		case 1:
			m.Addresses[id] = vAddrs[id-1]
		case 2:
			m.NonVotings[id] = vAddrs[id-1]
		case 3:
			m.Witnesses[id] = vAddrs[id-1]
		case 4:
			m.Removed[id] = true
		}
	}
	return m
}

// vNewMembers: 1-2 entries whose replica ids are symbolic (any 64-bit value,
// pairwise distinct) and whose addresses are chosen among three.
func vNewMembers() map[uint64]string {
	m := map[uint64]string{}
	n := vChoose("nmembers", 2) + 1
	var ids []uint64
	for i := 0; i < n; i++ {
		id := vU64("memberid")
		vAssume(id >= 1)
		for _, o := range ids {
			vAssume(o != id)
		}
		ids = append(ids, id)
		m[id] = vAddrs[vChoose("addr", 3)]
	}
	return m
}

// C20: the member-list validation and the rewritten snapshot record.
//vcheck: reach=accepted,refused-self,refused-members,done workers=16
func VHarness_C20_MemberValidation() {
	old := vOldMembership()
	vAssume(len(old.Addresses) >= 1)
	members := vNewMembers()
	self := vU64("self")
	host := vAddrs[vChoose("hostaddr", 3)]
	nh := config.NodeHostConfig{RaftAddress: host}
	err1 := checkImportSettings(nh, members, self)
	addr, listed := members[self]
	if !listed || addr != host {
		vReach("refused-self")
		vAssert(err1 != nil, "refused-unless-importing-replica-listed-at-own-address")
		vReach("done")
		return
	}
	vAssert(err1 == nil, "self-listed-accepted")
	err2 := checkMembers(old, members)
	bad := false
	for id, a := range members {
		if old.Removed[id] {
			bad = true
		}
		if _, ok := old.NonVotings[id]; ok {
			bad = true
		}
		if _, ok := old.Witnesses[id]; ok {
			bad = true
		}
		if v, ok := old.Addresses[id]; ok && v != a {
			bad = true
		}
	}
	if bad {
		vReach("refused-members")
		vAssert(err2 != nil, "refused-readmission-or-kind-or-address-change")
		vReach("done")
		return
	}
	vAssert(err2 == nil, "valid-member-list-accepted")
	vReach("accepted")
	fs := vfs.NewMemFS()
	oldss := pb.Snapshot{Filepath: "/export/snapshot-0000000000000064.gbsnap", FileSize: 99, Index: 100, Term: 5, Membership: old,
		Checksum: []byte{1, 2, 3, 4}, ShardID: 7, Type: pb.RegularStateMachine,
		Files: []*pb.SnapshotFile{{Filepath: "/export/external-file-1", FileSize: 3, FileId: 1}}}
	ss := getProcessedSnapshotRecord("/final", oldss, members, fs)
	vAssert(len(ss.Membership.Addresses) == len(members), "members-exactly-the-given-list")
	for id, a := range members {
		vAssert(ss.Membership.Addresses[id] == a, "members-exactly-the-given-list")
	}
	vAssert(len(ss.Membership.NonVotings) == 0 && len(ss.Membership.Witnesses) == 0, "no-nonvoting-or-witness-after-import")
	for id := uint64(1); id <= 3; id++ {
		_, wasV := old.Addresses[id]
		_, wasN := old.NonVotings[id]
		_, wasW := old.Witnesses[id]
		_, nowListed := members[id]
		if old.Removed[id] || ((wasV || wasN || wasW) && !nowListed) {
			vAssert(ss.Membership.Removed[id], "unlisted-previous-members-recorded-removed")
		}
		if nowListed {
			vAssert(!ss.Membership.Removed[id], "listed-member-not-removed")
		}
	}
	vAssert(ss.Membership.ConfigChangeId == 100 && ss.Imported && ss.Index == 100 && ss.Term == 5 && ss.ShardID == 7, "record-fields")
	vAssert(ss.Filepath == "/final/snapshot-0000000000000064.gbsnap" && ss.Files[0].Filepath == "/final/external-file-1", "paths-re-rooted")
	vAssert(ss.FileSize == 99 && len(ss.Checksum) == 4, "file-size-and-checksum-kept")
	vReach("done")
}
