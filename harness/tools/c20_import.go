package tools

//vcheck:init github.com/lni/dragonboat/v4/internal/settings,github.com/lni/dragonboat/v4/raftpb,github.com/lni/dragonboat/v4/internal/fileutil,github.com/lni/dragonboat/v4/internal/server,github.com/lni/dragonboat/v4/internal/rsm,github.com/lni/dragonboat/v4/tools
//vcheck:bounds import: previous membership over replica ids 1..3 (each id: voter / non-voting / witness / removed / unknown), new member list of 1-2 entries with fully symbolic replica ids and addresses among a1..a3, importing replica id symbolic
//vcheck:stub import: file system = the real lni/vfs strict in-memory FS; log store = recording raftio.ILogDB supplied through NodeHostConfig.Expert.LogDBFactory

import (
	"github.com/lni/dragonboat/v4/config"
	"github.com/lni/dragonboat/v4/internal/fileutil"
	"github.com/lni/dragonboat/v4/internal/rsm"
	"github.com/lni/dragonboat/v4/internal/server"
	"github.com/lni/dragonboat/v4/internal/vfs"
	"github.com/lni/dragonboat/v4/raftio"
	pb "github.com/lni/dragonboat/v4/raftpb"
)

var vAddrs = []string{"a1", "a2", "a3", "a4", "a5"}

func vOldMembership() pb.Membership {
	m := pb.Membership{Addresses: map[uint64]string{}, NonVotings: map[uint64]string{}, Witnesses: map[uint64]string{}, Removed: map[uint64]bool{}}
	for id := uint64(1); id <= 3; id++ {
		switch vChoose("oldkind", 5) {
		case 1:
			m.Addresses[id] = vAddrs[id-1]
		case 2:
			m.NonVotings[id] = vAddrs[id-1]
		case 3:
			m.Witnesses[id] = vAddrs[id-1]
		case 4:
			m.Removed[id] = true
		}
	}
	return m
}

// vNewMembers: 1-2 entries whose replica ids are symbolic (any 64-bit value,
// pairwise distinct) and whose addresses are chosen among three.
func vNewMembers() map[uint64]string {
	m := map[uint64]string{}
	n := vChoose("nmembers", 2) + 1
	var ids []uint64
	for i := 0; i < n; i++ {
		id := vU64("memberid")
		vAssume(id >= 1)
		for _, o := range ids {
			vAssume(o != id)
		}
		ids = append(ids, id)
		m[id] = vAddrs[vChoose("addr", 3)]
	}
	return m
}

// C20: the member-list validation and the rewritten snapshot record.
//vcheck: reach=accepted,refused-self,refused-members,done workers=16
func VHarness_C20_MemberValidation() {
	old := vOldMembership()
	vAssume(len(old.Addresses) >= 1)
	members := vNewMembers()
	self := vU64("self")
	host := vAddrs[vChoose("hostaddr", 3)]
	nh := config.NodeHostConfig{RaftAddress: host}
	err1 := checkImportSettings(nh, members, self)
	addr, listed := members[self]
	if !listed || addr != host {
		vReach("refused-self")
		vAssert(err1 != nil, "refused-unless-importing-replica-listed-at-own-address")
		vReach("done")
		return
	}
	vAssert(err1 == nil, "self-listed-accepted")
	err2 := checkMembers(old, members)
	bad := false
	for id, a := range members {
		if old.Removed[id] {
			bad = true
		}
		if _, ok := old.NonVotings[id]; ok {
			bad = true
		}
		if _, ok := old.Witnesses[id]; ok {
			bad = true
		}
		if v, ok := old.Addresses[id]; ok && v != a {
			bad = true
		}
	}
	if bad {
		vReach("refused-members")
		vAssert(err2 != nil, "refused-readmission-or-kind-or-address-change")
		vReach("done")
		return
	}
	vAssert(err2 == nil, "valid-member-list-accepted")
	vReach("accepted")
	fs := vfs.NewMemFS()
	oldss := pb.Snapshot{Filepath: "/export/snapshot-0000000000000064.gbsnap", FileSize: 99, Index: 100, Term: 5, Membership: old,
		Checksum: []byte{1, 2, 3, 4}, ShardID: 7, Type: pb.RegularStateMachine,
		Files: []*pb.SnapshotFile{{Filepath: "/export/external-file-1", FileSize: 3, FileId: 1}}}
	ss := getProcessedSnapshotRecord("/final", oldss, members, fs)
	vAssert(len(ss.Membership.Addresses) == len(members), "members-exactly-the-given-list")
	for id, a := range members {
		vAssert(ss.Membership.Addresses[id] == a, "members-exactly-the-given-list")
	}
	vAssert(len(ss.Membership.NonVotings) == 0 && len(ss.Membership.Witnesses) == 0, "no-nonvoting-or-witness-after-import")
	for id := uint64(1); id <= 3; id++ {
		_, wasV := old.Addresses[id]
		_, wasN := old.NonVotings[id]
		_, wasW := old.Witnesses[id]
		_, nowListed := members[id]
		if old.Removed[id] || ((wasV || wasN || wasW) && !nowListed) {
			vAssert(ss.Membership.Removed[id], "unlisted-previous-members-recorded-removed")
		}
		if nowListed {
			vAssert(!ss.Membership.Removed[id], "listed-member-not-removed")
		}
	}
	vAssert(ss.Membership.ConfigChangeId == 100 && ss.Imported && ss.Index == 100 && ss.Term == 5 && ss.ShardID == 7, "record-fields")
	vAssert(ss.Filepath == "/final/snapshot-0000000000000064.gbsnap" && ss.Files[0].Filepath == "/final/external-file-1", "paths-re-rooted")
	vAssert(ss.FileSize == 99 && len(ss.Checksum) == 4, "file-size-and-checksum-kept")
	vReach("done")
}

// ---------------------------------------------------------------------------
// whole ImportSnapshot over the in-memory FS with a recording log store

type vLogDBFactory struct {
	db         *vImportLogDB
	dirs, wals []string
}

func (f *vLogDBFactory) Create(c config.NodeHostConfig, cb config.LogDBCallback, dirs []string, wals []string) (raftio.ILogDB, error) {
	f.dirs, f.wals = dirs, wals
	return f.db, nil
}
func (f *vLogDBFactory) Name() string { return "vlogdb" }

type vImportLogDB struct {
	imported []pb.Snapshot
	replica  []uint64
	closed   bool
}

func (l *vImportLogDB) Name() string                                 { return "vlogdb" }
func (l *vImportLogDB) Close() error                                 { l.closed = true; return nil }
func (l *vImportLogDB) BinaryFormat() uint32                         { return raftio.PlainLogDBBinVersion }
func (l *vImportLogDB) ListNodeInfo() ([]raftio.NodeInfo, error)     { return nil, nil }
func (l *vImportLogDB) SaveBootstrapInfo(uint64, uint64, pb.Bootstrap) error { return nil }
func (l *vImportLogDB) GetBootstrapInfo(uint64, uint64) (pb.Bootstrap, error) {
	return pb.Bootstrap{}, raftio.ErrNoBootstrapInfo
}
func (l *vImportLogDB) SaveRaftState([]pb.Update, uint64) error { return nil }
func (l *vImportLogDB) IterateEntries([]pb.Entry, uint64, uint64, uint64, uint64, uint64, uint64) ([]pb.Entry, uint64, error) {
	return nil, 0, nil
}
func (l *vImportLogDB) ReadRaftState(uint64, uint64, uint64) (raftio.RaftState, error) {
	return raftio.RaftState{}, raftio.ErrNoSavedLog
}
func (l *vImportLogDB) RemoveEntriesTo(uint64, uint64, uint64) error { return nil }
func (l *vImportLogDB) CompactEntriesTo(uint64, uint64, uint64) (<-chan struct{}, error) {
	return nil, nil
}
func (l *vImportLogDB) SaveSnapshots([]pb.Update) error                       { return nil }
func (l *vImportLogDB) GetSnapshot(uint64, uint64) (pb.Snapshot, error)       { return pb.Snapshot{}, nil }
func (l *vImportLogDB) RemoveNodeData(uint64, uint64) error                   { return nil }
func (l *vImportLogDB) ImportSnapshot(ss pb.Snapshot, replicaID uint64) error {
	l.imported = append(l.imported, ss)
	l.replica = append(l.replica, replicaID)
	return nil
}

func vExport(fs vfs.IFS, dir string, old pb.Membership, payload []byte) pb.Snapshot {
	if err := fs.MkdirAll(dir, 0755); err != nil {
		panic(err)
	}
	fp := fs.PathJoin(dir, "snapshot-0000000000000064.gbsnap")
	w, err := rsm.NewSnapshotWriter(fp, pb.NoCompression, fs)
	if err != nil {
		panic(err)
	}
	if _, err := w.Write(payload); err != nil {
		panic(err)
	}
	if err := w.Close(); err != nil {
		panic(err)
	}
	st, _ := fs.Stat(fp)
	ss := pb.Snapshot{Filepath: fp, FileSize: uint64(st.Size()), Index: 100, Term: 5, Membership: old, ShardID: 7,
		Checksum: w.GetPayloadChecksum(), Type: pb.RegularStateMachine}
	if err := fileutil.CreateFlagFile(dir, server.MetadataFilename, &ss, fs); err != nil {
		panic(err)
	}
	return ss
}

// C20: ImportSnapshot end to end on one host: a valid request finalizes the
// image and records exactly the given membership in the log store; a refused
// request (bad member list, importing replica not listed at its address,
// checksum mismatch, missing file) leaves existing snapshot data untouched.
//vcheck: reach=imported,refused,existing-kept,separate-wal,done workers=8
func VHarness_C20_ImportEndToEnd() {
	fs := vfs.NewMemFS()
	old := pb.Membership{Addresses: map[uint64]string{1: "a1", 2: "a2"}, NonVotings: map[uint64]string{}, Witnesses: map[uint64]string{3: "a3"}, Removed: map[uint64]bool{4: true}}
	vExport(fs, "/export", old, []byte{1, 2, 3})
	db := &vImportLogDB{}
	nh := config.NodeHostConfig{NodeHostDir: "/nh", RaftAddress: "a1", RTTMillisecond: 100, DeploymentID: 9}
	nh.Expert.FS = fs
	fac := &vLogDBFactory{db: db}
	nh.Expert.LogDBFactory = fac
	if vBool("separateWALDir") {
		nh.WALDir = "/wal"
	}
	members := map[uint64]string{1: "a1"}
	switch vChoose("request", 5) {
	case 0: // valid: keep replica 1, drop the others
	case 1: // re-admit a removed replica
		members[4] = "a4"
	case 2: // change the address of a voter
		members[2] = "a9"
	case 3: // turn the witness into a voter
		members[3] = "a3"
	case 4: // importing replica listed at somebody else's address
		members[1] = "a2"
	}
	valid := len(members) == 1 && members[1] == "a1"
	// existing data of the replica on this host: an earlier, valid import of an older image
	haveExisting := vBool("existingData")
	var before []string
	if haveExisting {
		oldMembers := map[uint64]string{1: "a1", 2: "a2"}
		ss0 := vExport(fs, "/export0", old, []byte{9})
		_ = ss0
		vAssert(ImportSnapshot(nh, "/export0", oldMembers, 1) == nil, "first-import-ok")
		db.imported, db.replica = nil, nil
		before = vTree(fs, "/nh")
	}
	switch vChoose("damage", 3) {
	case 1: // the recorded checksum does not match the file
		vAssume(valid)
		valid = false
		vCorruptRecord(fs, "/export")
	case 2: // the snapshot file is missing
		vAssume(valid)
		valid = false
		if err := fs.Remove("/export/snapshot-0000000000000064.gbsnap"); err != nil {
			panic(err)
		}
	}
	err := ImportSnapshot(nh, "/export", members, 1)
	if valid {
		vReach("imported")
		vAssert(err == nil, "valid-import-succeeds")
		vAssert(len(db.imported) == 1 && db.replica[0] == 1, "log-store-import-called-once")
		// the record went into the log store the restarted NodeHost opens
		env2, eerr := server.NewEnv(nh, fs)
		vAssert(eerr == nil, "env")
		if eerr == nil {
			d, w := env2.GetLogDBDirs(nh.DeploymentID)
			vAssert(len(fac.dirs) == 1 && len(fac.wals) == 1 && fac.dirs[0] == d && fac.wals[0] == w, "imported-into-the-log-store-directories-the-nodehost-opens")
			if nh.WALDir != "" {
				vAssert(d != w, "separate-wal-dir-in-effect")
				vReach("separate-wal")
			}
		}
		ss := db.imported[0]
		vAssert(ss.Imported && ss.Index == 100 && len(ss.Membership.Addresses) == 1 && ss.Membership.Addresses[1] == "a1", "imported-record-membership")
		vAssert(ss.Membership.Removed[2] && ss.Membership.Removed[3] && ss.Membership.Removed[4], "imported-record-removed")
		_, serr := fs.Stat(ss.Filepath)
		vAssert(serr == nil, "imported-file-in-place")
	} else {
		vReach("refused")
		vAssert(err != nil, "invalid-import-refused")
		vAssert(len(db.imported) == 0, "refused-import-never-reaches-the-log-store")
		if haveExisting {
			vReach("existing-kept")
			after := vTree(fs, "/nh")
			vAssert(len(after) == len(before), "refused-import-leaves-existing-data-untouched")
			if len(after) == len(before) {
				for i := range after {
					vAssert(after[i] == before[i], "refused-import-leaves-existing-data-untouched")
				}
			}
		}
	}
	vReach("done")
}

// vTree lists every file and directory below root (sorted walk) with sizes.
func vTree(fs vfs.IFS, root string) []string {
	var out []string
	names, err := fs.List(root)
	if err != nil {
		return out
	}
	// insertion sort: List order is not specified
	for i := 1; i < len(names); i++ {
		for j := i; j > 0 && names[j] < names[j-1]; j-- {
			names[j], names[j-1] = names[j-1], names[j]
		}
	}
	for _, n := range names {
		p := fs.PathJoin(root, n)
		st, err := fs.Stat(p)
		if err != nil {
			continue
		}
		if st.IsDir() {
			out = append(out, p+"/")
			out = append(out, vTree(fs, p)...)
		} else {
			out = append(out, p+":"+string(rune('0'+st.Size()%10))+string(rune('0'+(st.Size()/10)%10)))
		}
	}
	return out
}

func vCorruptRecord(fs vfs.IFS, dir string) {
	var ss pb.Snapshot
	if err := fileutil.GetFlagFileContent(dir, server.MetadataFilename, &ss, fs); err != nil {
		panic(err)
	}
	ss.Checksum = append([]byte(nil), ss.Checksum...)
	ss.Checksum[0] ^= 0x40
	if err := fs.Remove(fs.PathJoin(dir, server.MetadataFilename)); err != nil {
		panic(err)
	}
	if err := fileutil.CreateFlagFile(dir, server.MetadataFilename, &ss, fs); err != nil {
		panic(err)
	}
}
