package raftpb

// C13: the length-dependent part of every Size()/MarshalTo pair.  The field
// sweeps (c13_more.go) use strings and byte slices of length 0, 1, 3; the
// length prefixes of strings, byte slices, map entries and nested messages are
// varints whose width changes at 128 (and at 16384, which is outside the bounds used here), and a map entry's own length
// prefix depends on key width + value length.  Here the lengths are chosen
// from the boundary sets while the numeric key of a map entry stays fully
// symbolic (all ten varint widths).

//vcheck:bounds lengths: string / byte-slice lengths in {0, 1, 2, 112..130} (thorough: also 100..111, 131, 132, 255..257); lengths from 16384 up (3-byte length prefixes) are outside the claim; one map entry with a fully symbolic 64-bit key per map; contents concrete ('a' / 0x5a); one length-carrying field of one type at a time (the others empty)

import "strings"

func vLenChoice() int {
	var b []int
	b = append(b, 0, 1, 2)
	for i := 112; i <= 130; i++ {
		b = append(b, i)
	}
	if vTier() > 0 {
		for i := 100; i < 112; i++ {
			b = append(b, i)
		}
		b = append(b, 131, 132, 255, 256, 257)
	}
	return b[vChoose("len", len(b))]
}

func vStrN(n int) string { return strings.Repeat("a", n) }
func vBytesN(n int) []byte {
	if n == 0 {
		return nil
	}
	b := make([]byte, n)
	for i := range b {
		b[i] = 0x5a
	}
	return b
}

//vcheck: reach=bootstrap,membership,entry,message,snapshot,chunk,misc,done workers=16 steps=4000000
func VHarness_C13_LengthBoundaries() {
	n := vLenChoice()
	switch vChoose("ltype", 12) {
	case 0:
		vReach("bootstrap")
		b := Bootstrap{Addresses: map[uint64]string{vU64("id"): vStrN(n)}, Join: vBool("join")}
		var d Bootstrap
		vRoundTrip(&b, &d, "bootstrap")
		vSameStrMap(b.Addresses, d.Addresses, "bootstrap-addresses")
	case 1:
		vReach("membership")
		m := Membership{ConfigChangeId: 1}
		id := vU64("id")
		switch vChoose("mmap", 3) {
		case 0:
			m.Addresses = map[uint64]string{id: vStrN(n)}
		case 1:
			m.NonVotings = map[uint64]string{id: vStrN(n)}
		default:
			m.Witnesses = map[uint64]string{id: vStrN(n)}
		}
		var d Membership
		vRoundTrip(&m, &d, "membership")
		vSameMembership(m, d, "membership")
	case 2:
		vReach("entry")
		e := Entry{Index: vU64("index"), Term: 1, Cmd: vBytesN(n)}
		var d Entry
		sz := vRoundTrip(&e, &d, "entry")
		vAssert(e.SizeUpperLimit() >= sz, "entry-upper-limit")
		vAssert(d.Index == e.Index && len(d.Cmd) == n, "entry-roundtrip")
	case 3:
		vReach("message")
		m := Message{Type: Replicate, To: 1, From: 2, Term: vU64("term"), Entries: []Entry{{Index: 1, Term: 1, Cmd: vBytesN(n)}}}
		var d Message
		sz := vRoundTrip(&m, &d, "message")
		vAssert(m.SizeUpperLimit() >= sz, "message-upper-limit")
		vAssert(d.Term == m.Term && len(d.Entries) == 1 && len(d.Entries[0].Cmd) == n, "message-roundtrip")
		mb := MessageBatch{Requests: []Message{m}, DeploymentId: 1, SourceAddress: vStrN(n), BinVer: 1}
		var db MessageBatch
		sz = vRoundTrip(&mb, &db, "messagebatch")
		vAssert(mb.SizeUpperLimit() >= sz, "messagebatch-upper-limit")
		vAssert(db.SourceAddress == mb.SourceAddress && len(db.Requests) == 1 && len(db.Requests[0].Entries[0].Cmd) == n, "messagebatch-roundtrip")
	case 4:
		vReach("snapshot")
		ss := Snapshot{Index: vU64("index"), Term: 1}
		switch vChoose("ssfield", 4) {
		case 0:
			ss.Filepath = vStrN(n)
		case 1:
			ss.Checksum = vBytesN(n)
		case 2:
			ss.Files = []*SnapshotFile{{Filepath: vStrN(n), FileId: 1}}
		default:
			ss.Membership.Addresses = map[uint64]string{vU64("id"): vStrN(n)}
		}
		var d Snapshot
		vRoundTrip(&ss, &d, "snapshot")
		vSameSnapshot(ss, d, "snapshot")
		// a snapshot travels inside InstallSnapshot messages and Tan records
		m := Message{Type: InstallSnapshot, To: 1, From: 2, Snapshot: ss}
		var dm Message
		sz := vRoundTrip(&m, &dm, "ssmessage")
		vAssert(m.SizeUpperLimit() >= sz, "ssmessage-upper-limit")
		vSameSnapshot(ss, dm.Snapshot, "ssmessage")
	case 5:
		vReach("chunk")
		c := Chunk{ShardID: 1, ReplicaID: 2, ChunkId: vU64("chunkid")}
		switch vChoose("chfield", 3) {
		case 0:
			c.Data = vBytesN(n)
		case 1:
			c.Filepath = vStrN(n)
		default:
			c.Membership.Addresses = map[uint64]string{vU64("id"): vStrN(n)}
		}
		var d Chunk
		vRoundTrip(&c, &d, "chunk")
		vAssert(d.ChunkId == c.ChunkId && d.Filepath == c.Filepath && len(d.Data) == len(c.Data), "chunk-roundtrip")
		vSameMembership(c.Membership, d.Membership, "chunk-membership")
	case 6:
		vReach("misc")
		cc := ConfigChange{ConfigChangeId: vU64("ccid"), ReplicaID: 1, Address: vStrN(n)}
		var d ConfigChange
		vRoundTrip(&cc, &d, "cc")
		vAssert(d.ConfigChangeId == cc.ConfigChangeId && d.Address == cc.Address, "cc-roundtrip")
	case 7:
		vReach("misc")
		f := SnapshotFile{FileId: vU64("fid")}
		if vBool("meta") {
			f.Metadata = vBytesN(n)
		} else {
			f.Filepath = vStrN(n)
		}
		var d SnapshotFile
		vRoundTrip(&f, &d, "ssfile")
		vAssert(d.FileId == f.FileId && d.Filepath == f.Filepath && len(d.Metadata) == len(f.Metadata), "ssfile-roundtrip")
	case 8:
		vReach("misc")
		h := SnapshotHeader{SessionSize: vU64("ss"), GitVersion: vStrN(n)}
		var d SnapshotHeader
		vRoundTrip(&h, &d, "ssheader")
		vAssert(d.SessionSize == h.SessionSize && d.GitVersion == h.GitVersion, "ssheader-roundtrip")
	case 9:
		vReach("misc")
		r := RaftDataStatus{HardHash: vU64("hh")}
		switch vChoose("dsfield", 3) {
		case 0:
			r.Address = vStrN(n)
		case 1:
			r.LogdbType = vStrN(n)
		default:
			r.Hostname = vStrN(n)
		}
		var d RaftDataStatus
		vRoundTrip(&r, &d, "datastatus")
		vAssert(d.HardHash == r.HardHash && d.Address == r.Address && d.LogdbType == r.LogdbType && d.Hostname == r.Hostname, "datastatus-roundtrip")
	case 10:
		vReach("misc")
		eb := EntryBatch{Entries: []Entry{{Index: vU64("index"), Term: 1, Cmd: vBytesN(n)}, {Index: 2, Term: 1}}}
		var d EntryBatch
		sz := vRoundTrip(&eb, &d, "entrybatch")
		vAssert(eb.SizeUpperLimit() >= sz, "entrybatch-upper-limit")
		vAssert(len(d.Entries) == 2 && d.Entries[0].Index == eb.Entries[0].Index && len(d.Entries[0].Cmd) == n, "entrybatch-roundtrip")
	default:
		vReach("misc")
		// the Tan record
		u := Update{ShardID: 1, ReplicaID: 1, State: State{Term: vU64("term"), Vote: 1, Commit: 1},
			EntriesToSave: []Entry{{Index: 1, Term: 1, Cmd: vBytesN(n)}}}
		if vBool("withss") {
			u.Snapshot = Snapshot{Index: 1, Term: 1, Filepath: vStrN(n)}
		}
		buf := make([]byte, u.SizeUpperLimit())
		k, err := u.MarshalTo(buf)
		vAssert(err == nil && k <= len(buf), "update-upper-limit")
		var d Update
		vAssert(d.Unmarshal(buf[:k]) == nil, "update-unmarshal-ok")
		vAssert(d.State.Term == u.State.Term && len(d.EntriesToSave) == 1 && len(d.EntriesToSave[0].Cmd) == n && d.Snapshot.Filepath == u.Snapshot.Filepath, "update-roundtrip")
	}
	vReach("done")
}
