package raftpb

//vcheck:bounds raftpb codecs (field sweep): for each type one scalar field is fully symbolic (64-bit, or 32-bit where the field is) while all others are at one of three presets (zero / one / all-ones), plus selected pairs; strings <= 3 concrete bytes, byte payloads <= 2 symbolic bytes, <= 2 nested entries / map items / files. Three or more simultaneously symbolic fields are outside the claim (the presets put every other field at its longest encoding at once).

var vPresets = [3]uint64{0, 1, ^uint64(0)}

// vF returns the i-th scalar of a value under construction: fully symbolic when
// i is the chosen field, a preset otherwise.
type vSweep struct {
	which, preset, n         int
	emptyChosen, emptyNonNil bool
}

func vNewSweep(nfields int) *vSweep {
	return &vSweep{which: vChoose("field", nfields), preset: vChoose("preset", 3)}
}
func (s *vSweep) u64(name string) uint64 {
	i := s.n
	s.n++
	if i == s.which {
		return vU64(name)
	}
	return vPresets[s.preset]
}
func (s *vSweep) u32(name string) uint32 { return uint32(s.u64(name)) }
func (s *vSweep) b(name string) bool {
	i := s.n
	s.n++
	if i == s.which {
		return vBool(name)
	}
	return s.preset != 0
}
func (s *vSweep) str() string {
	return [3]string{"", "a", "abc"}[s.preset]
}
func (s *vSweep) bytes(name string) []byte {
	switch s.preset {
	case 0:
		// absent, or present and empty (a non-nil zero-length slice is encoded
		// as a zero-length field by the hand-written codecs)
		if !s.emptyChosen {
			s.emptyChosen = true
			s.emptyNonNil = vBool("emptyButNotNil")
		}
		if s.emptyNonNil {
			return []byte{}
		}
		return nil
	case 1:
		return []byte{vU8(name)}
	}
	return []byte{vU8(name), vU8(name)}
}

func vSameBytes(a, b []byte, id string) {
	vAssert(len(a) == len(b), id+"-len")
	if len(a) == len(b) {
		for i := range a {
			vAssert(a[i] == b[i], id)
		}
	}
}

func vSameStrMap(a, b map[uint64]string, id string) {
	vAssert(len(a) == len(b), id+"-len")
	for k, v := range a {
		w, ok := b[k]
		vAssert(ok && v == w, id)
	}
}

func vMembership(s *vSweep) Membership {
	m := Membership{ConfigChangeId: s.u64("ccid")}
	if s.preset > 0 {
		m.Addresses = map[uint64]string{s.u64("addrid"): s.str()}
		m.Removed = map[uint64]bool{s.u64("removedid"): true}
		m.NonVotings = map[uint64]string{s.u64("nvid"): s.str()}
		m.Witnesses = map[uint64]string{s.u64("wid"): s.str()}
	} else {
		s.n += 4
	}
	return m
}

func vSameMembership(a, b Membership, id string) {
	vAssert(a.ConfigChangeId == b.ConfigChangeId, id+"-ccid")
	vSameStrMap(a.Addresses, b.Addresses, id+"-addresses")
	vSameStrMap(a.NonVotings, b.NonVotings, id+"-nonvotings")
	vSameStrMap(a.Witnesses, b.Witnesses, id+"-witnesses")
	vAssert(len(a.Removed) == len(b.Removed), id+"-removed-len")
	for k := range a.Removed {
		vAssert(b.Removed[k], id+"-removed")
	}
}

const vMembershipFields = 5

func vSnapshotFile(s *vSweep) *SnapshotFile {
	return &SnapshotFile{Filepath: s.str(), FileSize: s.u64("fsize"), FileId: s.u64("fid"), Metadata: s.bytes("meta")}
}

func vSnapshot(s *vSweep) Snapshot {
	ss := Snapshot{Filepath: s.str(), FileSize: s.u64("filesize"), Index: s.u64("index"), Term: s.u64("term"),
		ShardID: s.u64("shard"), OnDiskIndex: s.u64("ondisk"), Type: StateMachineType(s.u64("smtype")),
		Dummy: s.b("dummy"), Imported: s.b("imported"), Witness: s.b("witness"), Checksum: s.bytes("cks")}
	ss.Membership = vMembership(s)
	if s.preset == 2 {
		ss.Files = []*SnapshotFile{vSnapshotFile(s)}
	} else {
		s.n += 2
	}
	return ss
}

const vSnapshotFields = 10 + vMembershipFields + 2

func vSameSnapshot(a, b Snapshot, id string) {
	vAssert(a.Filepath == b.Filepath && a.FileSize == b.FileSize && a.Index == b.Index && a.Term == b.Term, id+"-scalars1")
	vAssert(a.ShardID == b.ShardID && a.OnDiskIndex == b.OnDiskIndex && a.Type == b.Type, id+"-scalars2")
	vAssert(a.Dummy == b.Dummy && a.Imported == b.Imported && a.Witness == b.Witness, id+"-flags")
	vSameBytes(a.Checksum, b.Checksum, id+"-checksum")
	vSameMembership(a.Membership, b.Membership, id+"-membership")
	vAssert(len(a.Files) == len(b.Files), id+"-files-len")
	if len(a.Files) == len(b.Files) {
		for i := range a.Files {
			vAssert(a.Files[i].Filepath == b.Files[i].Filepath && a.Files[i].FileSize == b.Files[i].FileSize && a.Files[i].FileId == b.Files[i].FileId, id+"-file")
			vSameBytes(a.Files[i].Metadata, b.Files[i].Metadata, id+"-file-meta")
		}
	}
}

type vCodec interface {
	Size() int
	MarshalTo([]byte) (int, error)
	Unmarshal([]byte) error
}

// vRoundTrip encodes v into a buffer of exactly Size() bytes (an index out of
// range there is a buffer overrun = violation) and decodes it into out.
func vRoundTrip(v, out vCodec, id string) int {
	sz := v.Size()
	buf := make([]byte, sz)
	n, err := v.MarshalTo(buf)
	vAssert(err == nil, id+"-marshal-ok")
	vAssert(n == sz, id+"-size-exact")
	err = out.Unmarshal(buf[:n])
	vAssert(err == nil, id+"-unmarshal-ok")
	return sz
}

//vcheck: reach=done workers=16
func VHarness_C13_Membership() {
	s := vNewSweep(vMembershipFields)
	m := vMembership(s)
	var d Membership
	vRoundTrip(&m, &d, "membership")
	vSameMembership(m, d, "membership")
	vReach("done")
}

//vcheck: reach=done workers=16
func VHarness_C13_Snapshot() {
	s := vNewSweep(vSnapshotFields)
	ss := vSnapshot(s)
	var d Snapshot
	vRoundTrip(&ss, &d, "snapshot")
	vSameSnapshot(ss, d, "snapshot")
	vReach("done")
}

//vcheck: reach=done workers=8
func VHarness_C13_ConfigChange() {
	s := vNewSweep(4)
	cc := ConfigChange{ConfigChangeId: s.u64("ccid"), Type: ConfigChangeType(s.u64("cctype")), ReplicaID: s.u64("rid"), Initialize: s.b("init"), Address: s.str()}
	var d ConfigChange
	vRoundTrip(&cc, &d, "cc")
	vAssert(d.ConfigChangeId == cc.ConfigChangeId && d.Type == cc.Type && d.ReplicaID == cc.ReplicaID && d.Initialize == cc.Initialize && d.Address == cc.Address, "cc-roundtrip")
	vReach("done")
}

//vcheck: reach=done workers=8
func VHarness_C13_SnapshotFileHeaderBootstrap() {
	switch vChoose("type", 4) {
	case 0:
		s := vNewSweep(2)
		f := vSnapshotFile(s)
		var d SnapshotFile
		vRoundTrip(f, &d, "ssfile")
		vAssert(d.Filepath == f.Filepath && d.FileSize == f.FileSize && d.FileId == f.FileId, "ssfile-roundtrip")
		vSameBytes(f.Metadata, d.Metadata, "ssfile-meta")
	case 1:
		s := vNewSweep(6)
		h := SnapshotHeader{SessionSize: s.u64("ss"), DataStoreSize: s.u64("ds"), UnreliableTime: s.u64("t"), Version: s.u64("v"),
			ChecksumType: ChecksumType(s.u64("ct")), CompressionType: CompressionType(s.u64("cmp")), GitVersion: s.str(),
			HeaderChecksum: s.bytes("hc"), PayloadChecksum: s.bytes("pc")}
		var d SnapshotHeader
		vRoundTrip(&h, &d, "ssheader")
		vAssert(d.SessionSize == h.SessionSize && d.DataStoreSize == h.DataStoreSize && d.UnreliableTime == h.UnreliableTime && d.Version == h.Version, "ssheader-roundtrip1")
		vAssert(d.ChecksumType == h.ChecksumType && d.CompressionType == h.CompressionType && d.GitVersion == h.GitVersion, "ssheader-roundtrip2")
		vSameBytes(h.HeaderChecksum, d.HeaderChecksum, "ssheader-hc")
		vSameBytes(h.PayloadChecksum, d.PayloadChecksum, "ssheader-pc")
	case 2:
		s := vNewSweep(3)
		b := Bootstrap{Join: s.b("join"), Type: StateMachineType(s.u64("type"))}
		if s.preset > 0 {
			b.Addresses = map[uint64]string{s.u64("id"): s.str()}
		}
		var d Bootstrap
		vRoundTrip(&b, &d, "bootstrap")
		vAssert(d.Join == b.Join && d.Type == b.Type, "bootstrap-roundtrip")
		vSameStrMap(b.Addresses, d.Addresses, "bootstrap-addresses")
	case 3:
		s := vNewSweep(8)
		r := RaftDataStatus{Address: s.str(), BinVer: s.u32("binver"), HardHash: s.u64("hh"), LogdbType: s.str(), Hostname: s.str(),
			DeploymentId: s.u64("did"), StepWorkerCount: s.u64("swc"), LogdbShardCount: s.u64("lsc"), MaxSessionCount: s.u64("msc"),
			EntryBatchSize: s.u64("ebs"), AddressByNodeHostId: s.b("abn")}
		var d RaftDataStatus
		vRoundTrip(&r, &d, "datastatus")
		vAssert(d.Address == r.Address && d.BinVer == r.BinVer && d.HardHash == r.HardHash && d.LogdbType == r.LogdbType && d.Hostname == r.Hostname, "datastatus-roundtrip1")
		vAssert(d.DeploymentId == r.DeploymentId && d.StepWorkerCount == r.StepWorkerCount && d.LogdbShardCount == r.LogdbShardCount &&
			d.MaxSessionCount == r.MaxSessionCount && d.EntryBatchSize == r.EntryBatchSize && d.AddressByNodeHostId == r.AddressByNodeHostId, "datastatus-roundtrip2")
	}
	vReach("done")
}

func vSweepEntry(s *vSweep) Entry {
	return Entry{Term: s.u64("term"), Index: s.u64("index"), Type: EntryType(s.u64("type")), Key: s.u64("key"),
		ClientID: s.u64("cid"), SeriesID: s.u64("sid"), RespondedTo: s.u64("rt"), Cmd: s.bytes("cmd")}
}

func vSameEntry(a, b Entry, id string) {
	vAssert(a.Term == b.Term && a.Index == b.Index && a.Type == b.Type && a.Key == b.Key, id+"-fields1")
	vAssert(a.ClientID == b.ClientID && a.SeriesID == b.SeriesID && a.RespondedTo == b.RespondedTo, id+"-fields2")
	vSameBytes(a.Cmd, b.Cmd, id+"-cmd")
}

// Entry: every single field symbolic against the three presets of the others
// (complements VHarness_C13_EntryPair which has zero presets only).
//vcheck: reach=done workers=16
func VHarness_C13_EntrySweep() {
	s := vNewSweep(7)
	e := vSweepEntry(s)
	sz := e.Size()
	vAssert(sz <= e.SizeUpperLimit(), "entry-upper-limit")
	var d Entry
	vRoundTrip(&e, &d, "entry")
	vSameEntry(e, d, "entry")
	vReach("done")
}

//vcheck: reach=done workers=16
func VHarness_C13_EntryBatch() {
	s := vNewSweep(14)
	b := EntryBatch{}
	n := vChoose("n", 3)
	for i := 0; i < n; i++ {
		b.Entries = append(b.Entries, vSweepEntry(s))
	}
	sz := b.Size()
	vAssert(sz <= b.SizeUpperLimit(), "entrybatch-upper-limit")
	var d EntryBatch
	vRoundTrip(&b, &d, "entrybatch")
	vAssert(len(d.Entries) == len(b.Entries), "entrybatch-len")
	if len(d.Entries) == len(b.Entries) {
		for i := range b.Entries {
			vSameEntry(b.Entries[i], d.Entries[i], "entrybatch-entry")
		}
	}
	vReach("done")
}

func vSweepMessage(s *vSweep, withSnapshot bool, nents int) Message {
	m := Message{Type: MessageType(s.u64("type")), To: s.u64("to"), From: s.u64("from"), ShardID: s.u64("shard"), Term: s.u64("term"),
		LogTerm: s.u64("logterm"), LogIndex: s.u64("logindex"), Commit: s.u64("commit"), Hint: s.u64("hint"), HintHigh: s.u64("hinthigh"), Reject: s.b("reject")}
	for i := 0; i < nents; i++ {
		m.Entries = append(m.Entries, vSweepEntry(s))
	}
	if withSnapshot {
		m.Snapshot = vSnapshot(s)
	}
	return m
}

func vSameMessage(a, b Message, id string) {
	vAssert(a.Type == b.Type && a.To == b.To && a.From == b.From && a.ShardID == b.ShardID && a.Term == b.Term, id+"-fields1")
	vAssert(a.LogTerm == b.LogTerm && a.LogIndex == b.LogIndex && a.Commit == b.Commit && a.Hint == b.Hint && a.HintHigh == b.HintHigh && a.Reject == b.Reject, id+"-fields2")
	vAssert(len(a.Entries) == len(b.Entries), id+"-entries-len")
	if len(a.Entries) == len(b.Entries) {
		for i := range a.Entries {
			vSameEntry(a.Entries[i], b.Entries[i], id+"-entry")
		}
	}
	vSameSnapshot(a.Snapshot, b.Snapshot, id+"-snapshot")
}

//vcheck: reach=done workers=16
func VHarness_C13_Message() {
	nents := vChoose("nents", 3)
	withSS := vBool("withSnapshot")
	nf := 11 + 7*nents
	if withSS {
		nf += vSnapshotFields
	}
	s := vNewSweep(nf)
	m := vSweepMessage(s, withSS, nents)
	sz := m.Size()
	vAssert(sz <= m.SizeUpperLimit(), "message-upper-limit")
	var d Message
	vRoundTrip(&m, &d, "message")
	vSameMessage(m, d, "message")
	vReach("done")
}

//vcheck: reach=done workers=16
func VHarness_C13_MessageBatch() {
	nmsg := vChoose("nmsg", 3)
	s := vNewSweep(2 + 18*nmsg)
	b := MessageBatch{DeploymentId: s.u64("did"), BinVer: s.u32("binver"), SourceAddress: s.str()}
	for i := 0; i < nmsg; i++ {
		b.Requests = append(b.Requests, vSweepMessage(s, false, 1))
	}
	sz := b.Size()
	vAssert(sz <= b.SizeUpperLimit(), "messagebatch-upper-limit")
	var d MessageBatch
	vRoundTrip(&b, &d, "messagebatch")
	vAssert(d.DeploymentId == b.DeploymentId && d.BinVer == b.BinVer && d.SourceAddress == b.SourceAddress, "messagebatch-fields")
	vAssert(len(d.Requests) == len(b.Requests), "messagebatch-len")
	if len(d.Requests) == len(b.Requests) {
		for i := range b.Requests {
			vSameMessage(b.Requests[i], d.Requests[i], "messagebatch-msg")
		}
	}
	vReach("done")
}

//vcheck: reach=done workers=16
func VHarness_C13_Chunk() {
	s := vNewSweep(16 + vMembershipFields + 2)
	c := Chunk{ShardID: s.u64("shard"), ReplicaID: s.u64("replica"), From: s.u64("from"), ChunkId: s.u64("chunkid"), ChunkSize: s.u64("chunksize"),
		ChunkCount: s.u64("chunkcount"), Index: s.u64("index"), Term: s.u64("term"), FileSize: s.u64("filesize"), DeploymentId: s.u64("did"),
		FileChunkId: s.u64("fcid"), FileChunkCount: s.u64("fcc"), OnDiskIndex: s.u64("ondisk"), BinVer: s.u32("binver"),
		HasFileInfo: s.b("hasfi"), Witness: s.b("witness"), Filepath: s.str(), Data: s.bytes("data")}
	c.Membership = vMembership(s)
	c.FileInfo = *vSnapshotFile(s)
	var d Chunk
	vRoundTrip(&c, &d, "chunk")
	vAssert(d.ShardID == c.ShardID && d.ReplicaID == c.ReplicaID && d.From == c.From && d.ChunkId == c.ChunkId && d.ChunkSize == c.ChunkSize, "chunk-fields1")
	vAssert(d.ChunkCount == c.ChunkCount && d.Index == c.Index && d.Term == c.Term && d.FileSize == c.FileSize && d.DeploymentId == c.DeploymentId, "chunk-fields2")
	vAssert(d.FileChunkId == c.FileChunkId && d.FileChunkCount == c.FileChunkCount && d.OnDiskIndex == c.OnDiskIndex && d.BinVer == c.BinVer, "chunk-fields3")
	vAssert(d.HasFileInfo == c.HasFileInfo && d.Witness == c.Witness && d.Filepath == c.Filepath, "chunk-fields4")
	vSameBytes(c.Data, d.Data, "chunk-data")
	vSameMembership(c.Membership, d.Membership, "chunk-membership")
	vAssert(d.FileInfo.Filepath == c.FileInfo.Filepath && d.FileInfo.FileSize == c.FileInfo.FileSize && d.FileInfo.FileId == c.FileInfo.FileId, "chunk-fileinfo")
	vReach("done")
}

// Update (the record Tan persists): MarshalTo never writes beyond
// SizeUpperLimit() bytes and Unmarshal returns what was written.
//vcheck: reach=done,snapshot,entries workers=16
func VHarness_C13_Update() {
	nents := vChoose("nents", 3)
	withSS := vBool("withSnapshot")
	nf := 5 + 7*nents
	if withSS {
		nf += vSnapshotFields
	}
	s := vNewSweep(nf)
	u := Update{ShardID: s.u64("shard"), ReplicaID: s.u64("replica"), State: State{Term: s.u64("term"), Vote: s.u64("vote"), Commit: s.u64("commit")}}
	for i := 0; i < nents; i++ {
		u.EntriesToSave = append(u.EntriesToSave, vSweepEntry(s))
		vReach("entries")
	}
	if withSS {
		u.Snapshot = vSnapshot(s)
		if !IsEmptySnapshot(u.Snapshot) {
			vReach("snapshot")
		}
	}
	lim := u.SizeUpperLimit()
	buf := make([]byte, lim)
	n, err := u.MarshalTo(buf) // a write beyond lim panics with index out of range: violation
	vAssert(err == nil, "update-marshal-ok")
	vAssert(n <= lim, "update-within-upper-limit")
	var d Update
	err = d.Unmarshal(buf[:n])
	vAssert(err == nil, "update-unmarshal-ok")
	vAssert(d.ShardID == u.ShardID && d.ReplicaID == u.ReplicaID, "update-ids")
	vAssert(d.State.Term == u.State.Term && d.State.Vote == u.State.Vote && d.State.Commit == u.State.Commit, "update-state")
	vAssert(len(d.EntriesToSave) == len(u.EntriesToSave), "update-entries-len")
	if len(d.EntriesToSave) == len(u.EntriesToSave) {
		for i := range u.EntriesToSave {
			vSameEntry(u.EntriesToSave[i], d.EntriesToSave[i], "update-entry")
		}
	}
	if !IsEmptySnapshot(u.Snapshot) {
		vSameSnapshot(u.Snapshot, d.Snapshot, "update-snapshot")
	}
	vReach("done")
}

// Update with both replica ids symbolic at once (the two leading uvarints).
//vcheck: reach=done workers=16
func VHarness_C13_UpdateIDs() {
	// the sections of the record are sized independently (a section that is
	// empty is left out): the presets of the state, the snapshot and the entry
	// are chosen independently, so e.g. a snapshot-only update with an empty
	// state (what SaveSnapshots writes) is covered
	s := &vSweep{which: -1, preset: vChoose("preset", 3)}
	ss := &vSweep{which: -1, preset: vChoose("snapshotPreset", 3)}
	se := &vSweep{which: -1, preset: vChoose("entryPreset", 3)}
	u := Update{ShardID: vU64("shard"), ReplicaID: vU64("replica"), State: State{Term: s.u64("term"), Vote: s.u64("vote"), Commit: s.u64("commit")}}
	if vBool("withSnapshot") {
		u.Snapshot = vSnapshot(ss)
	}
	if vBool("withEntry") {
		u.EntriesToSave = []Entry{vSweepEntry(se)}
	}
	lim := u.SizeUpperLimit()
	buf := make([]byte, lim)
	n, err := u.MarshalTo(buf)
	vAssert(err == nil && n <= lim, "update-within-upper-limit")
	var d Update
	vAssert(d.Unmarshal(buf[:n]) == nil, "update-unmarshal-ok")
	vAssert(d.ShardID == u.ShardID && d.ReplicaID == u.ReplicaID, "update-ids")
	vReach("done")
}
