package raftpb

//vcheck:init github.com/lni/dragonboat/v4/internal/settings,github.com/lni/dragonboat/v4/raftpb
//vcheck:bounds raftpb codecs: each harness makes the stated fields fully symbolic (64-bit), byte payloads <= 2 symbolic bytes (quick)

//vcheck: reach=done
func VHarness_C13_State() {
	s := State{Term: vU64("term"), Vote: vU64("vote"), Commit: vU64("commit")}
	sz := s.Size()
	buf := make([]byte, sz)
	n, err := s.MarshalTo(buf)
	vAssert(err == nil, "marshal-ok")
	vAssert(n == sz, "size-exact")
	vAssert(sz <= s.SizeUpperLimit(), "upper")
	var d State
	err = d.Unmarshal(buf[:n])
	vAssert(err == nil, "unmarshal-ok")
	vAssert(d.Term == s.Term && d.Vote == s.Vote && d.Commit == s.Commit, "roundtrip")
	vReach("done")
}

func entryWith(which int, v uint64, base Entry) Entry {
	switch which {
	case 0:
		base.Term = v
	case 1:
		base.Index = v
	case 2:
		base.Type = EntryType(int32(v))
	case 3:
		base.Key = v
	case 4:
		base.ClientID = v
	case 5:
		base.SeriesID = v
	case 6:
		base.RespondedTo = v
	}
	return base
}

//vcheck: reach=done workers=16
func VHarness_C13_EntryPair() {
	a := vChoose("fa", 7)
	b := vChoose("fb", 7)
	vAssume(a < b)
	e := entryWith(a, vU64("va"), Entry{})
	e = entryWith(b, vU64("vb"), e)
	nc := vChoose("ncmd", 3)
	if nc > 0 {
		e.Cmd = make([]byte, nc)
		for i := range e.Cmd {
			e.Cmd[i] = vU8("c")
		}
	}
	sz := e.Size()
	vAssert(sz <= e.SizeUpperLimit(), "upper")
	buf := make([]byte, sz)
	n, _ := e.MarshalTo(buf)
	vAssert(n == sz, "size-exact")
	var d Entry
	err := d.Unmarshal(buf[:n])
	vAssert(err == nil, "unmarshal-ok")
	vAssert(d.Term == e.Term && d.Index == e.Index && d.Type == e.Type && d.Key == e.Key &&
		d.ClientID == e.ClientID && d.SeriesID == e.SeriesID && d.RespondedTo == e.RespondedTo, "roundtrip")
	vAssert(len(d.Cmd) == len(e.Cmd), "cmdlen")
	for i := range e.Cmd {
		vAssert(d.Cmd[i] == e.Cmd[i], "cmd")
	}
	vReach("done")
}
