package rsm

//vcheck:init github.com/lni/dragonboat/v4/internal/settings,github.com/lni/dragonboat/v4/raftpb,github.com/lni/dragonboat/v4/internal/rsm

import (
	"bytes"
	"io"

	pb "github.com/lni/dragonboat/v4/raftpb"
	sm "github.com/lni/dragonboat/v4/statemachine"
)


func kindOf(m *pb.Membership, id uint64) int {
	k := 0
	if _, ok := m.Addresses[id]; ok {
		k = 1
	}
	if _, ok := m.NonVotings[id]; ok {
		if k != 0 {
			return -1
		}
		k = 2
	}
	if _, ok := m.Witnesses[id]; ok {
		if k != 0 {
			return -1
		}
		k = 3
	}
	if _, ok := m.Removed[id]; ok {
		if k != 0 {
			return -1
		}
		k = 4
	}
	return k
}

//vcheck: reach=accepted,rejected,done workers=16
func VHarness_C07_Membership() {
	m := newMembership(1, vU64("rid"), vBool("ordered"))
	addrs := []string{"a1", "a2", "a3"}
	for id := uint64(1); id <= 3; id++ {
		switch vChoose("kind", 5) {
		case 1:
			m.members.Addresses[id] = addrs[id-1]
		case 2:
			m.members.NonVotings[id] = addrs[id-1]
		case 3:
			m.members.Witnesses[id] = addrs[id-1]
		case 4:
			m.members.Removed[id] = true
		}
	}
	m.members.ConfigChangeId = vU64("ccid")
	cc := pb.ConfigChange{
		Type:           pb.ConfigChangeType(vChoose("cctype", 4)),
		ReplicaID:      uint64(vChoose("ccrid", 4)) + 1,
		ConfigChangeId: vU64("reqccid"),
		Initialize:     vBool("init"),
	}
	cand := []string{"a1", "a2", "a3", "a9", " A1 "}
	cc.Address = cand[vChoose("ccaddr", 5)]
	pre := m.get()
	nvoters := len(pre.Addresses)
	idx := vU64("index")
	ok := m.handleConfigChange(cc, idx)
	post := m.members
	// invariant: kinds disjoint
	for id := uint64(1); id <= 4; id++ {
		kpre, kpost := kindOf(&pre, id), kindOf(&post, id)
		vAssert(kpost >= 0, "kinds-disjoint")
		if kpre == 4 {
			vAssert(kpost == 4, "removed-stays-removed")
		}
		if kpre != kpost && kpost != 4 && kpre != 0 {
			vAssert(kpre == 2 && kpost == 1, "only-promotion")
		}
		if !ok {
			vAssert(kpre == kpost, "rejected-unchanged")
		}
	}
	if nvoters >= 1 {
		vAssert(len(post.Addresses) >= 1, "last-voter-stays")
	}
	if ok {
		vReach("accepted")
		vAssert(post.ConfigChangeId == idx, "ccid-updated")
		vAssert(!m.ordered || cc.Initialize || cc.ConfigChangeId == pre.ConfigChangeId, "ordered-ccid")
	} else {
		vReach("rejected")
		vAssert(post.ConfigChangeId == pre.ConfigChangeId, "rejected-ccid-unchanged")
	}
	// address uniqueness
	seen := 0
	for _, mp := range []map[uint64]string{post.Addresses, post.NonVotings, post.Witnesses} {
		for id1, a1 := range mp {
			for _, mp2 := range []map[uint64]string{post.Addresses, post.NonVotings, post.Witnesses} {
				for id2, a2 := range mp2 {
					if id1 != id2 {
						seen++
						vAssert(!addressEqual(a1, a2), "address-unique")
					}
				}
			}
		}
	}
	vReach("done")
}

// ---- session harnesses ----

type vNode struct {
	updates  int
	lastRes  uint64
	lastRej  bool
	lastIgn  bool
	applied  int
}

func (n *vNode) StepReady()                                  {}
func (n *vNode) RestoreRemotes(pb.Snapshot) error             { return nil }
func (n *vNode) ApplyConfigChange(pb.ConfigChange, uint64, bool) error { return nil }
func (n *vNode) ReplicaID() uint64                            { return 1 }
func (n *vNode) ShardID() uint64                              { return 1 }
func (n *vNode) ShouldStop() <-chan struct{}                  { return nil }
func (n *vNode) ApplyUpdate(e pb.Entry, r sm.Result, rejected bool, ignored bool, last bool) {
	n.applied++
	n.lastRes = r.Value
	n.lastRej = rejected
	n.lastIgn = ignored
}

type vSM struct {
	calls   int
	lastIdx uint64
}

func (s *vSM) Open() (uint64, error) { return 0, nil }
func (s *vSM) Update(e sm.Entry) (sm.Result, error) {
	s.calls++
	s.lastIdx = e.Index
	return sm.Result{Value: vU64("smres")}, nil
}
func (s *vSM) BatchedUpdate(es []sm.Entry) ([]sm.Entry, error)   { return es, nil }
func (s *vSM) Lookup(q interface{}) (interface{}, error)          { return nil, nil }
func (s *vSM) ConcurrentLookup(q interface{}) (interface{}, error) { return nil, nil }
func (s *vSM) NALookup(q []byte) ([]byte, error)                  { return nil, nil }
func (s *vSM) NAConcurrentLookup(q []byte) ([]byte, error)        { return nil, nil }
func (s *vSM) Sync() error                                        { return nil }
func (s *vSM) GetHash() (uint64, error)                           { return 0, nil }
func (s *vSM) Prepare() (interface{}, error)                      { return nil, nil }
func (s *vSM) Save(SSMeta, io.Writer, []byte, sm.ISnapshotFileCollection) (bool, error) {
	return false, nil
}
func (s *vSM) Recover(io.Reader, []sm.SnapshotFile) error { return nil }
func (s *vSM) Stream(interface{}, io.Writer) error        { return nil }
func (s *vSM) Offloaded() bool                            { return false }
func (s *vSM) Loaded()                                    {}
func (s *vSM) Close() error                               { return nil }
func (s *vSM) DestroyedC() <-chan struct{}                { return nil }
func (s *vSM) Concurrent() bool                           { return false }
func (s *vSM) OnDisk() bool                               { return false }
func (s *vSM) Type() pb.StateMachineType                  { return pb.RegularStateMachine }

//vcheck: reach=unregistered,responded,cached,fresh,done
func VHarness_C05_Session() {
	node := &vNode{}
	usm := &vSM{}
	s := &StateMachine{
		node:     node,
		sm:       usm,
		sessions: &SessionManager{lru: newLRUSession(2)},
		members:  newMembership(1, 1, false),
	}
	s.index = vU64("idx0")
	vAssume(s.index < 1<<40)
	s.term = 1
	// register clients 10 and 20 through the real path
	s.sessions.RegisterClientID(10)
	s.sessions.RegisterClientID(20)
	// arbitrary history for client 10
	s10, _ := s.sessions.ClientRegistered(10)
	s10.RespondedUpTo = RaftSeriesID(vU64("upto"))
	h1 := vU64("h1")
	vAssume(h1 > uint64(s10.RespondedUpTo) && h1 < 1<<62)
	h1res := vU64("h1res")
	if vBool("hasH1") {
		s10.History[RaftSeriesID(h1)] = sm.Result{Value: h1res}
	}
	hasH1 := len(s10.History) == 1
	upto0 := uint64(s10.RespondedUpTo)
	// symbolic update entry
	e := pb.Entry{Type: pb.ApplicationEntry, Index: s.index + 1, Term: 1, Key: 7,
		ClientID: uint64(vChoose("cid", 3))*10 + 10, SeriesID: vU64("series"), RespondedTo: vU64("respto")}
	vAssume(e.SeriesID >= 1 && e.SeriesID < 1<<62 && e.RespondedTo < 1<<62)
	err := s.handleEntry(e, true)
	vAssert(err == nil, "noerr")
	vAssert(s.index == e.Index, "index-advanced")
	if e.ClientID == 30 {
		vReach("unregistered")
		vAssert(usm.calls == 0 && node.applied == 1 && node.lastRej, "unregistered-rejected")
	}
	if e.ClientID == 10 {
		u := upto0
		if e.RespondedTo > u {
			u = e.RespondedTo
		}
		if e.SeriesID <= u {
			vReach("responded")
			vAssert(usm.calls == 0 && node.applied == 0, "acked-ignored")
		} else if hasH1 && e.SeriesID == h1 {
			vReach("cached")
			vAssert(usm.calls == 0 && node.applied == 1 && !node.lastRej && node.lastRes == h1res, "dup-cached-result")
		} else {
			vReach("fresh")
			vAssert(usm.calls == 1 && node.applied == 1 && !node.lastRej, "fresh-applied-once")
			// apply the same entry again at next index: must not call Update again and return same result
			res1 := node.lastRes
			e2 := e
			e2.Index = e.Index + 1
			err = s.handleEntry(e2, true)
			vAssert(err == nil && usm.calls == 1 && node.applied == 2 && node.lastRes == res1 && !node.lastRej, "retry-same-result")
		}
	}
	vReach("done")
}

// ---- block writer/reader harness ----

func vBlockWrite(n int, bs uint64, cut int, data []byte) []byte {
	var out []byte
	bw := newBlockWriter(bs, func(d []byte, crc []byte) error {
		out = append(out, d...)
		out = append(out, crc...)
		return nil
	}, pb.CRC32IEEE)
	if _, err := bw.Write(data[:cut]); err != nil {
		panic(err)
	}
	if _, err := bw.Write(data[cut:]); err != nil {
		panic(err)
	}
	if err := bw.Close(); err != nil {
		panic(err)
	}
	return out
}

//vcheck: reach=done
func VHarness_C14_BlockRoundTrip() {
	n := vChoose("n", 8)
	data := make([]byte, n)
	for i := range data {
		data[i] = vU8("d")
	}
	cut := vChoose("cut", n+1)
	out := vBlockWrite(n, 3, cut, data)
	vAssert(uint64(len(out)) == getV2PayloadSize(uint64(n), 3), "payload-size")
	total := len(out) - 16
	br := newBlockReader(bytes.NewReader(out[:total]), 3, pb.CRC32IEEE)
	got := make([]byte, n)
	rcut := vChoose("rcut", n+1)
	m1, err1 := io.ReadFull(br, got[:rcut])
	m2, err2 := io.ReadFull(br, got[rcut:])
	vAssert(err1 == nil && err2 == nil && m1+m2 == n, "read-ok")
	for i := range data {
		vAssert(got[i] == data[i], "bytes-identical")
	}
	vReach("done")
}

//vcheck: reach=detected,done
func VHarness_C14_BlockFlip() {
	n := vChoose("n", 6) + 1
	data := make([]byte, n)
	for i := range data {
		data[i] = vU8("d")
	}
	out := vBlockWrite(n, 3, n, data)
	total := len(out) - 16
	pos := vChoose("pos", total)
	mask := vU8("mask")
	vAssume(mask != 0)
	bad := make([]byte, total)
	copy(bad, out[:total])
	bad[pos] ^= mask
	br := newBlockReader(bytes.NewReader(bad), 3, pb.CRC32IEEE)
	got := make([]byte, n)
	panicked := false
	var rerr error
	func() {
		defer func() {
			if r := recover(); r != nil {
				panicked = true
			}
		}()
		_, rerr = io.ReadFull(br, got)
	}()
	if !panicked && rerr == nil {
		vReach("undetected-read")
		for i := range data {
			vAssert(got[i] == data[i], "flip-undetected-but-identical")
		}
	} else {
		vReach("detected")
	}
	vReach("done")
}

// ---- thread harness: NativeSM Lookup vs Close (F2) ----


type vUserSM struct {
	inLookup int
	inClose  bool
	closed   bool
}

func (u *vUserSM) Open(<-chan struct{}) (uint64, error) { return 0, nil }
func (u *vUserSM) Update(es []sm.Entry) ([]sm.Entry, error) { return es, nil }
func (u *vUserSM) Lookup(q interface{}) (interface{}, error) {
	vAssert(!u.closed, "lookup-after-close")
	u.inLookup++
	vYield()
	vAssert(!u.inClose, "lookup-overlaps-close")
	u.inLookup--
	return nil, nil
}
func (u *vUserSM) NALookup(q []byte) ([]byte, error) { return nil, nil }
func (u *vUserSM) Sync() error                       { return nil }
func (u *vUserSM) Prepare() (interface{}, error)     { return nil, nil }
func (u *vUserSM) Save(interface{}, io.Writer, sm.ISnapshotFileCollection, <-chan struct{}) error {
	return nil
}
func (u *vUserSM) Recover(io.Reader, []sm.SnapshotFile, <-chan struct{}) error { return nil }
func (u *vUserSM) Close() error {
	u.inClose = true
	vYield()
	vAssert(u.inLookup == 0, "close-overlaps-lookup")
	u.inClose = false
	u.closed = true
	return nil
}
func (u *vUserSM) GetHash() (uint64, error)  { return 0, nil }
func (u *vUserSM) Concurrent() bool          { return false }
func (u *vUserSM) OnDisk() bool              { return false }
func (u *vUserSM) Type() pb.StateMachineType { return pb.RegularStateMachine }

//vcheck: reach=done replay=symbolic
func VHarness_C11_LookupVsClose() {
	u := &vUserSM{}
	ds := &NativeSM{sm: u}
	ds.OffloadedStatus.DestroyedC = make(chan struct{})
	vSpawn(func() {
		_, err := ds.Lookup(nil)
		_ = err
	})
	vSpawn(func() {
		if err := ds.Close(); err != nil {
			panic(err)
		}
	})
	vRunThreads()
	vReach("done")
}
