package raft

import "testing"

func TestVReplay(t *testing.T) {
	defer func() {
		if r := recover(); r != nil {
			t.Fatalf("REPRODUCED: %v", r)
		}
	}()
	VHarness_RequestVote()
}
