package raft

import (
	"github.com/lni/dragonboat/v4/internal/server"
	pb "github.com/lni/dragonboat/v4/raftpb"
)


var vSeq int
var vVals = map[int]uint64{1:0,2:0,3:0,4:0,5:0,6:1,7:0,8:1,9:0,10:1,11:0,12:1,13:1,14:0,16:0,17:16,18:0,19:2,20:1,21:1}
func vNext() uint64 { vSeq++; return vVals[vSeq] }
func vU64(name string) uint64 { return vNext() }
func vU8(name string) uint8   { return uint8(vNext()) }
func vBool(name string) bool  { return vNext() != 0 }
func vAssume(c bool)          { if !c { panic("replay violates assumption") } }
func vAssert(c bool, id string) {
	if !c {
		panic("VASSERT " + id)
	}
}
func vReach(l string)                {}
func vChoose(name string, n int) int { return int(vNext()) }

type vLogDB struct {
	marker     uint64
	markerTerm uint64
	ents       []pb.Entry
	state      pb.State
	ss         pb.Snapshot
}

func (l *vLogDB) GetRange() (uint64, uint64) {
	return l.marker + 1, l.marker + uint64(len(l.ents))
}
func (l *vLogDB) SetRange(index uint64, length uint64)    {}
func (l *vLogDB) NodeState() (pb.State, pb.Membership)    { return l.state, l.ss.Membership }
func (l *vLogDB) SetState(ps pb.State)                    { l.state = ps }
func (l *vLogDB) CreateSnapshot(ss pb.Snapshot) error     { l.ss = ss; return nil }
func (l *vLogDB) ApplySnapshot(ss pb.Snapshot) error      { l.ss = ss; return nil }
func (l *vLogDB) Snapshot() pb.Snapshot                   { return l.ss }
func (l *vLogDB) Compact(index uint64) error              { return nil }
func (l *vLogDB) Append(entries []pb.Entry) error         { return nil }
func (l *vLogDB) Term(index uint64) (uint64, error) {
	if index == l.marker {
		return l.markerTerm, nil
	}
	if index < l.marker {
		return 0, ErrCompacted
	}
	if index > l.marker+uint64(len(l.ents)) {
		return 0, ErrUnavailable
	}
	return l.ents[index-l.marker-1].Term, nil
}
func (l *vLogDB) Entries(low uint64, high uint64, maxSize uint64) ([]pb.Entry, error) {
	if low <= l.marker {
		return nil, ErrCompacted
	}
	if high > l.marker+uint64(len(l.ents))+1 {
		return nil, ErrUnavailable
	}
	return l.ents[low-l.marker-1 : high-l.marker-1], nil
}

// vRaftS3 builds an arbitrary raft state for a 3-voter cluster, local id 1.
func vRaftS3() *raft {
	n := vChoose("loglen", 4)
	ents := make([]pb.Entry, n)
	prev := uint64(1)
	for i := 0; i < n; i++ {
		t := vU64("eterm")
		vAssume(t >= prev && t < 1<<40)
		prev = t
		ents[i] = pb.Entry{Index: uint64(i + 1), Term: t}
	}
	rl := server.NewInMemRateLimiter(0)
	l := &entryLog{logdb: &vLogDB{}, inmem: inMemory{markerIndex: 1, entries: ents, rl: rl}}
	l.inmem.savedTo = vU64("savedTo")
	vAssume(l.inmem.savedTo <= uint64(n))
	l.committed = vU64("committed")
	vAssume(l.committed <= uint64(n))
	l.processed = vU64("processed")
	vAssume(l.processed <= l.committed)
	r := &raft{
		replicaID:        1,
		shardID:          1,
		log:              l,
		rl:               rl,
		remotes:          make(map[uint64]*remote),
		nonVotings:       make(map[uint64]*remote),
		witnesses:        make(map[uint64]*remote),
		votes:            make(map[uint64]bool),
		readIndex:        newReadIndex(),
		electionTimeout:  10,
		heartbeatTimeout: 1,
		msgs:             make([]pb.Message, 0),
	}
	for id := uint64(1); id <= 3; id++ {
		rm := &remote{match: vU64("match"), next: vU64("next")}
		vAssume(rm.match < rm.next && rm.match <= uint64(n) && rm.next <= uint64(n)+1)
		r.remotes[id] = rm
	}
	r.applied = vU64("applied")
	vAssume(r.applied <= l.processed)
	r.term = vU64("term")
	vAssume(r.term >= prev && r.term < 1<<40)
	r.vote = vU64("vote")
	vAssume(r.vote <= 3)
	r.leaderID = vU64("leaderID")
	vAssume(r.leaderID <= 3)
	r.checkQuorum = vBool("checkQuorum")
	r.electionTick = vU64("etick")
	vAssume(r.electionTick < 20)
	r.randomizedElectionTimeout = vU64("ret")
	vAssume(r.randomizedElectionTimeout >= 10 && r.randomizedElectionTimeout < 20)
	switch vChoose("state", 3) {
	case 0:
		r.state = follower
	case 1:
		r.state = candidate
		vAssume(r.vote == 1)
		r.votes[1] = true
	case 2:
		r.state = leader
		vAssume(r.vote == 1 && r.leaderID == 1)
		vAssume(r.remotes[1].match == uint64(n))
	}
	r.initializeHandlerMap()
	r.handle = defaultHandle
	return r
}

func lastIT(r *raft) (uint64, uint64) {
	n := len(r.log.inmem.entries)
	if n == 0 {
		return 0, 0
	}
	return uint64(n), r.log.inmem.entries[n-1].Term
}

func VHarness_RequestVote() {
	r := vRaftS3()
	term0, vote0 := r.term, r.vote
	li, lt := lastIT(r)
	m := pb.Message{Type: pb.RequestVote, To: 1, From: vU64("from"), Term: vU64("mterm"),
		LogTerm: vU64("mlogterm"), LogIndex: vU64("mlogindex"), Hint: vU64("hint")}
	vAssume(m.From == 2 || m.From == 3)
	vAssume(m.Term >= 1 && m.Term < 1<<40)
	err := r.Handle(m)
	vAssert(err == nil, "noerr")
	vAssert(r.term >= term0, "V1-term-monotone")
	vAssert(!(r.term == term0 && vote0 != 0) || r.vote == vote0, "V1-vote-once")
	for _, out := range r.msgs {
		if out.Type == pb.RequestVoteResp && !out.Reject {
			vReach("granted")
			vAssert(r.vote == out.To && out.Term == r.term && out.To == m.From, "V2-grant-recorded")
			vAssert(m.LogTerm > lt || (m.LogTerm == lt && m.LogIndex >= li), "V3-up-to-date")
		}
		if out.Type == pb.RequestVoteResp && out.Reject {
			vReach("rejected")
		}
	}
	vReach("done")
}

func VHarness_Replicate() {
	r := vRaftS3()
	vAssume(r.state == follower)
	n := len(r.log.inmem.entries)
	var t0 [4]uint64
	for i := 0; i < n; i++ {
		t0[i] = r.log.inmem.entries[i].Term
	}
	c0 := r.log.committed
	m := pb.Message{Type: pb.Replicate, To: 1, From: vU64("from"), Term: vU64("mterm"),
		LogTerm: vU64("mlogterm"), LogIndex: vU64("mlogindex"), Commit: vU64("mcommit")}
	vAssume(m.From == 2 || m.From == 3)
	vAssume(m.Term >= 1 && m.Term < 1<<40 && m.LogIndex < 8)
	vAssume(m.LogTerm != 0 || m.LogIndex == 0)
	k := vChoose("nents", 3)
	prev := m.LogTerm
	for i := 0; i < k; i++ {
		t := vU64("met")
		vAssume(t >= prev && t <= m.Term && t >= 1)
		prev = t
		m.Entries = append(m.Entries, pb.Entry{Index: m.LogIndex + uint64(i) + 1, Term: t})
	}
	vAssume(m.Commit <= m.LogIndex+uint64(k))
	err := r.Handle(m)
	vAssert(err == nil, "noerr")
	// L1: committed prefix immutable
	vAssert(r.log.committed >= c0, "L1-commit-monotone")
	ents := r.log.inmem.entries
	for i := 0; i < n; i++ {
		if uint64(i+1) <= c0 {
			vAssert(len(ents) > i && ents[i].Term == t0[i] && ents[i].Index == uint64(i+1), "L1-committed-prefix")
		}
	}
	vAssert(r.log.committed <= uint64(len(ents)), "L3-commit-le-last")
	for _, out := range r.msgs {
		if out.Type == pb.ReplicateResp && !out.Reject && m.LogIndex >= c0 {
			vReach("accepted")
			// L2: prev matched in pre state
			if m.LogIndex > 0 {
				vAssert(m.LogIndex <= uint64(n) && t0[m.LogIndex-1] == m.LogTerm, "L2-prev-matched")
			}
			for i := 0; i < k; i++ {
				idx := m.Entries[i].Index
				vAssert(uint64(len(ents)) >= idx && ents[idx-1].Term == m.Entries[i].Term, "L2-entries-present")
			}
			for i := 0; i < n; i++ {
				if uint64(i+1) <= m.LogIndex {
					vAssert(ents[i].Term == t0[i], "L2-prefix-unchanged")
				}
			}
		}
		if out.Type == pb.ReplicateResp && out.Reject {
			vReach("rejected")
		}
	}
	vReach("done")
}
