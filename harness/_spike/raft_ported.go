package raft

//vcheck:init github.com/lni/dragonboat/v4/internal/settings,github.com/lni/dragonboat/v4/raftpb,github.com/lni/dragonboat/v4/internal/raft

import (
	"github.com/lni/dragonboat/v4/internal/server"
	pb "github.com/lni/dragonboat/v4/raftpb"
)


type vLogDB struct {
	marker     uint64
	markerTerm uint64
	ents       []pb.Entry
	state      pb.State
	ss         pb.Snapshot
}

func (l *vLogDB) GetRange() (uint64, uint64) {
	return l.marker + 1, l.marker + uint64(len(l.ents))
}
func (l *vLogDB) SetRange(index uint64, length uint64)    {}
func (l *vLogDB) NodeState() (pb.State, pb.Membership)    { return l.state, l.ss.Membership }
func (l *vLogDB) SetState(ps pb.State)                    { l.state = ps }
func (l *vLogDB) CreateSnapshot(ss pb.Snapshot) error     { l.ss = ss; return nil }
func (l *vLogDB) ApplySnapshot(ss pb.Snapshot) error      { l.ss = ss; return nil }
func (l *vLogDB) Snapshot() pb.Snapshot                   { return l.ss }
func (l *vLogDB) Compact(index uint64) error              { return nil }
func (l *vLogDB) Append(entries []pb.Entry) error         { return nil }
func (l *vLogDB) Term(index uint64) (uint64, error) {
	if index == l.marker {
		return l.markerTerm, nil
	}
	if index < l.marker {
		return 0, ErrCompacted
	}
	if index > l.marker+uint64(len(l.ents)) {
		return 0, ErrUnavailable
	}
	return l.ents[index-l.marker-1].Term, nil
}
func (l *vLogDB) Entries(low uint64, high uint64, maxSize uint64) ([]pb.Entry, error) {
	if low <= l.marker {
		return nil, ErrCompacted
	}
	if high > l.marker+uint64(len(l.ents))+1 {
		return nil, ErrUnavailable
	}
	return l.ents[low-l.marker-1 : high-l.marker-1], nil
}

// vRaftS3 builds an arbitrary raft state for a 3-voter cluster, local id 1.
func vRaftS3() *raft {
	n := vChoose("loglen", 4)
	ents := make([]pb.Entry, n)
	prev := uint64(1)
	for i := 0; i < n; i++ {
		t := vU64("eterm")
		vAssume(t >= prev && t < 1<<40)
		prev = t
		ents[i] = pb.Entry{Index: uint64(i + 1), Term: t}
	}
	rl := server.NewInMemRateLimiter(0)
	l := &entryLog{logdb: &vLogDB{}, inmem: inMemory{markerIndex: 1, entries: ents, rl: rl}}
	l.inmem.savedTo = vU64("savedTo")
	vAssume(l.inmem.savedTo <= uint64(n))
	l.committed = vU64("committed")
	vAssume(l.committed <= uint64(n))
	l.processed = vU64("processed")
	vAssume(l.processed <= l.committed)
	r := &raft{
		replicaID:        1,
		shardID:          1,
		log:              l,
		rl:               rl,
		remotes:          make(map[uint64]*remote),
		nonVotings:       make(map[uint64]*remote),
		witnesses:        make(map[uint64]*remote),
		votes:            make(map[uint64]bool),
		readIndex:        newReadIndex(),
		electionTimeout:  10,
		heartbeatTimeout: 1,
		msgs:             make([]pb.Message, 0),
	}
	for id := uint64(1); id <= 3; id++ {
		rm := &remote{match: vU64("match"), next: vU64("next")}
		vAssume(rm.match < rm.next && rm.match <= uint64(n) && rm.next <= uint64(n)+1)
		r.remotes[id] = rm
	}
	r.applied = vU64("applied")
	vAssume(r.applied <= l.processed)
	r.term = vU64("term")
	vAssume(r.term >= prev && r.term < 1<<40)
	r.vote = vU64("vote")
	vAssume(r.vote <= 3)
	r.leaderID = vU64("leaderID")
	vAssume(r.leaderID <= 3)
	r.checkQuorum = vBool("checkQuorum")
	r.electionTick = vU64("etick")
	vAssume(r.electionTick < 20)
	r.randomizedElectionTimeout = vU64("ret")
	vAssume(r.randomizedElectionTimeout >= 10 && r.randomizedElectionTimeout < 20)
	switch vChoose("state", 3) {
	case 0:
		r.state = follower
	case 1:
		r.state = candidate
		vAssume(r.vote == 1)
		r.votes[1] = true
	case 2:
		r.state = leader
		vAssume(r.vote == 1 && r.leaderID == 1)
		vAssume(r.remotes[1].match == uint64(n))
	}
	r.initializeHandlerMap()
	r.handle = defaultHandle
	return r
}

func lastIT(r *raft) (uint64, uint64) {
	n := len(r.log.inmem.entries)
	if n == 0 {
		return 0, 0
	}
	return uint64(n), r.log.inmem.entries[n-1].Term
}

//vcheck: reach=granted,rejected,done workers=8
func VHarness_C03_RequestVote() {
	r := vRaftS3()
	term0, vote0 := r.term, r.vote
	li, lt := lastIT(r)
	m := pb.Message{Type: pb.RequestVote, To: 1, From: vU64("from"), Term: vU64("mterm"),
		LogTerm: vU64("mlogterm"), LogIndex: vU64("mlogindex"), Hint: vU64("hint")}
	vAssume(m.From == 2 || m.From == 3)
	vAssume(m.Term >= 1 && m.Term < 1<<40)
	err := r.Handle(m)
	vAssert(err == nil, "noerr")
	vAssert(r.term >= term0, "V1-term-monotone")
	vAssert(!(r.term == term0 && vote0 != 0) || r.vote == vote0, "V1-vote-once")
	for _, out := range r.msgs {
		if out.Type == pb.RequestVoteResp && !out.Reject {
			vReach("granted")
			vAssert(r.vote == out.To && out.Term == r.term && out.To == m.From, "V2-grant-recorded")
			vAssert(m.LogTerm > lt || (m.LogTerm == lt && m.LogIndex >= li), "V3-up-to-date")
		}
		if out.Type == pb.RequestVoteResp && out.Reject {
			vReach("rejected")
		}
	}
	vReach("done")
}

//vcheck: reach=accepted,rejected,done workers=16
func VHarness_C02_Replicate() {
	r := vRaftS3()
	vAssume(r.state == follower)
	n := len(r.log.inmem.entries)
	var t0 [4]uint64
	for i := 0; i < n; i++ {
		t0[i] = r.log.inmem.entries[i].Term
	}
	c0 := r.log.committed
	m := pb.Message{Type: pb.Replicate, To: 1, From: vU64("from"), Term: vU64("mterm"),
		LogTerm: vU64("mlogterm"), LogIndex: vU64("mlogindex"), Commit: vU64("mcommit")}
	vAssume(m.From == 2 || m.From == 3)
	vAssume(m.Term >= 1 && m.Term < 1<<40 && m.LogIndex < 8)
	vAssume(m.LogTerm != 0 || m.LogIndex == 0)
	k := vChoose("nents", 3)
	prev := m.LogTerm
	for i := 0; i < k; i++ {
		t := vU64("met")
		vAssume(t >= prev && t <= m.Term && t >= 1)
		prev = t
		m.Entries = append(m.Entries, pb.Entry{Index: m.LogIndex + uint64(i) + 1, Term: t})
	}
	vAssume(m.Commit <= m.LogIndex+uint64(k))
	err := r.Handle(m)
	vAssert(err == nil, "noerr")
	// L1: committed prefix immutable
	vAssert(r.log.committed >= c0, "L1-commit-monotone")
	ents := r.log.inmem.entries
	for i := 0; i < n; i++ {
		if uint64(i+1) <= c0 {
			vAssert(len(ents) > i && ents[i].Term == t0[i] && ents[i].Index == uint64(i+1), "L1-committed-prefix")
		}
	}
	vAssert(r.log.committed <= uint64(len(ents)), "L3-commit-le-last")
	for _, out := range r.msgs {
		if out.Type == pb.ReplicateResp && !out.Reject && m.LogIndex >= c0 {
			vReach("accepted")
			// L2: prev matched in pre state
			if m.LogIndex > 0 {
				vAssert(m.LogIndex <= uint64(n) && t0[m.LogIndex-1] == m.LogTerm, "L2-prev-matched")
			}
			for i := 0; i < k; i++ {
				idx := m.Entries[i].Index
				vAssert(uint64(len(ents)) >= idx && ents[idx-1].Term == m.Entries[i].Term, "L2-entries-present")
			}
			for i := 0; i < n; i++ {
				if uint64(i+1) <= m.LogIndex {
					vAssert(ents[i].Term == t0[i], "L2-prefix-unchanged")
				}
			}
		}
		if out.Type == pb.ReplicateResp && out.Reject {
			vReach("rejected")
		}
	}
	vReach("done")
}

// ---- C19: entryLog vs logical log ----

type vAlpha struct {
	base     uint64 // index of marker
	baseTerm uint64
	terms    []uint64 // terms of base+1 ...
}

func (a *vAlpha) last() uint64 { return a.base + uint64(len(a.terms)) }
func (a *vAlpha) term(i uint64) (uint64, bool) {
	if i == a.base {
		return a.baseTerm, true
	}
	if i < a.base || i > a.last() {
		return 0, false
	}
	return a.terms[i-a.base-1], true
}

func vEntryLogFull() (*entryLog, *vAlpha) {
	pm := vU64("pm")
	vAssume(pm < 1<<40)
	pt := vU64("pt")
	vAssume(pt < 1<<40 && (pt != 0 || pm == 0))
	np := vChoose("np", 3)
	db := &vLogDB{marker: pm, markerTerm: pt}
	a := &vAlpha{base: pm, baseTerm: pt}
	prev := pt
	if prev == 0 {
		prev = 1
	}
	for i := 0; i < np; i++ {
		t := vU64("pterm")
		vAssume(t >= prev && t < 1<<40)
		prev = t
		db.ents = append(db.ents, pb.Entry{Index: pm + uint64(i) + 1, Term: t})
	}
	nm := vChoose("nm", 3)
	off := np // window starts right after persisted entries by default
	if nm > 0 {
		off = vChoose("off", np+1) // markerIndex = pm+1+off, shadows persisted entries >= that index
	}
	mi := pm + 1 + uint64(off)
	// logical log: persisted entries below mi, then window
	for i := 0; i < off; i++ {
		a.terms = append(a.terms, db.ents[i].Term)
	}
	tb := pt
	if off > 0 {
		tb = db.ents[off-1].Term
	}
	if tb == 0 {
		tb = 1
	}
	var ents []pb.Entry
	for i := 0; i < nm; i++ {
		t := vU64("wterm")
		vAssume(t >= tb && t < 1<<40)
		tb = t
		ents = append(ents, pb.Entry{Index: mi + uint64(i), Term: t})
		a.terms = append(a.terms, t)
	}
	rl := server.NewInMemRateLimiter(0)
	l := &entryLog{logdb: db, inmem: inMemory{markerIndex: mi, entries: ents, rl: rl}}
	last := a.last()
	l.inmem.savedTo = vU64("savedTo")
	vAssume(l.inmem.savedTo+1 >= mi && l.inmem.savedTo <= last)
	l.committed = vU64("committed")
	vAssume(l.committed >= pm && l.committed <= last)
	l.processed = vU64("processed")
	vAssume(l.processed >= pm && l.processed <= l.committed)
	if vBool("hasApplied") {
		ai := vU64("appliedTo")
		vAssume(ai >= pm && ai < mi && ai <= l.processed && ai > 0)
		at, ok := a.term(ai)
		vAssume(ok && at > 0)
		l.inmem.appliedToIndex = ai
		l.inmem.appliedToTerm = at
	}
	return l, a
}

//vcheck: reach=in-range,out-of-range,done workers=8
func VHarness_C19_LogQueries() {
	l, a := vEntryLogFull()
	vAssert(l.lastIndex() == a.last(), "lastIndex")
	vAssert(l.firstIndex() == a.base+1, "firstIndex")
	i := vU64("i")
	t, err := l.term(i)
	at, ok := a.term(i)
	if ok {
		vReach("in-range")
		vAssert(err == nil && t == at, "term-in-range")
	} else {
		vReach("out-of-range")
		vAssert(err == nil && t == 0, "term-out-of-range-zero")
	}
	vReach("done")
}

//vcheck: reach=probe-new,probe-old,done workers=16 tier=thorough
func VHarness_C19_LogAppend() {
	l, a := vEntryLogFull()
	k := vChoose("k", 2) + 1
	first := vU64("first")
	vAssume(first > l.committed && first <= a.last()+1)
	pt, ok := a.term(first - 1)
	vAssume(ok)
	var es []pb.Entry
	prev := pt
	if prev == 0 {
		prev = 1
	}
	var nt [2]uint64
	for j := 0; j < k; j++ {
		t := vU64("nterm")
		vAssume(t >= prev && t < 1<<40)
		prev = t
		nt[j] = t
		es = append(es, pb.Entry{Index: first + uint64(j), Term: t})
	}
	c0 := l.committed
	l.append(es)
	// model: truncate at first, extend
	vAssert(l.lastIndex() == first+uint64(k)-1, "append-last")
	vAssert(l.committed == c0, "append-commit-unchanged")
	q := vU64("q")
	t, err := l.term(q)
	vAssert(err == nil, "append-term-noerr")
	if q >= first && q < first+uint64(k) {
		vReach("probe-new")
		vAssert(t == nt[q-first], "append-new-entries")
	} else if q >= a.base && q < first {
		vReach("probe-old")
		ot, _ := a.term(q)
		vAssert(t == ot, "append-prefix-kept")
	} else {
		vAssert(t == 0, "append-out-of-range")
	}
	// entries to save must include every new entry
	ts := l.entriesToSave()
	vAssert(len(ts) >= k && ts[len(ts)-k].Index == first, "append-new-entries-unsaved")
	vReach("done")
}
