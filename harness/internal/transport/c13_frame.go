package transport

//vcheck:bounds frame: one raft or snapshot frame with a payload of 1..5 symbolic bytes, the per-connection receive block size (package variable recvBufSize, 2 MiB in production) scaled to 2 so that the payload is received in one block, exactly one block, or several blocks; caller buffer smaller or larger than the payload; written by the real writeMessage into an in-memory connection; then nothing, one byte of the header or payload altered (symbolic position, symbolic non-zero xor mask), or the stream cut at a symbolic length; read back by the real readMagicNumber/readMessage
//vcheck:stub frame: net.Conn = byte buffer (deadlines ignored); crc32 = uninterpreted function with the one-byte-difference axiom (CRC-32 detects every error burst of at most 32 bits)

import (
	"io"
	"net"
	"time"
)

type vConn struct {
	data []byte
	pos  int
}

func (c *vConn) Read(p []byte) (int, error) {
	if c.pos >= len(c.data) {
		return 0, io.EOF
	}
	n := copy(p, c.data[c.pos:])
	c.pos += n
	return n, nil
}
func (c *vConn) Write(p []byte) (int, error)      { c.data = append(c.data, p...); return len(p), nil }
func (c *vConn) Close() error                     { return nil }
func (c *vConn) LocalAddr() net.Addr              { return nil }
func (c *vConn) RemoteAddr() net.Addr             { return nil }
func (c *vConn) SetDeadline(time.Time) error      { return nil }
func (c *vConn) SetReadDeadline(time.Time) error  { return nil }
func (c *vConn) SetWriteDeadline(time.Time) error { return nil }

// C13 (transport frames): an unaltered frame is delivered with exactly its
// payload and method; a frame whose header or payload was altered in one byte,
// or that was cut short anywhere, is rejected rather than delivered.
//vcheck: reach=delivered,altered-header,altered-payload,truncated,multi-block,done workers=8
func VHarness_C13_TransportFrame() {
	recvBufSize = 2
	n := 1 + vChoose("payloadLen", 5)
	payload := make([]byte, n)
	for i := range payload {
		payload[i] = vU8("p")
	}
	method := raftType
	if vBool("snapshotFrame") {
		method = snapshotType
	}
	out := &vConn{}
	vAssert(writeMessage(out, requestHeader{method: method}, payload, make([]byte, requestHeaderSize), false) == nil, "write-ok")
	wire := out.data
	vAssert(len(wire) == len(magicNumber)+requestHeaderSize+n, "frame-length")
	if n > 2 {
		vReach("multi-block")
	}
	mode := vChoose("perturbation", 3)
	in := &vConn{data: append([]byte(nil), wire...)}
	switch mode {
	case 1:
		pos := len(magicNumber) + vChoose("pos", requestHeaderSize+n)
		mask := vU8("mask")
		vAssume(mask != 0)
		in.data[pos] ^= mask
		if pos < len(magicNumber)+requestHeaderSize {
			vReach("altered-header")
		} else {
			vReach("altered-payload")
		}
	case 2:
		in.data = in.data[:vChoose("cut", len(wire))]
		vReach("truncated")
	}
	magic := make([]byte, len(magicNumber))
	err := readMagicNumber(in, magic)
	var h requestHeader
	var got []byte
	if err == nil {
		h, got, err = readMessage(in, make([]byte, requestHeaderSize), make([]byte, 2+6*vChoose("bigbuf", 2)), false)
	}
	if mode == 0 {
		vAssert(err == nil, "unaltered-frame-delivered")
		vAssert(h.method == method && len(got) == n, "method-and-length")
		for i := range got {
			vAssert(got[i] == payload[i], "payload-identical")
		}
		vReach("delivered")
	} else {
		vAssert(err != nil, "altered-or-truncated-frame-rejected")
	}
	vReach("done")
}
