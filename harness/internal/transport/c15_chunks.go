package transport

//vcheck:init github.com/lni/dragonboat/v4/internal/settings,github.com/lni/dragonboat/v4/raftpb,github.com/lni/dragonboat/v4/internal/fileutil,github.com/lni/dragonboat/v4/internal/server,github.com/lni/dragonboat/v4/internal/rsm,github.com/lni/dragonboat/v4/internal/transport
//vcheck:scale internal/settings/hard.go SnapshotChunkSize 16
//vcheck:bounds chunks: rsm block size / settings.SnapshotChunkSize scaled 2 MiB -> 16 B; many-chunk lemma: a 60-byte payload (4 blocks) cut into chunk 0 = header + 16 B and 24-byte chunks (>= 5 chunks), one altered byte at a symbolic position after the header with a symbolic mask, every chunk delivered regardless of refusals; sender chunk size set to 4 (arithmetic lemma, file sizes 1..13) or 1040 (end-to-end, so that the 1 KiB header fits the first chunk); one snapshot of 2-3 chunks (8 symbolic payload bytes, 0-2 external files of 3 and 2 symbolic bytes); one perturbation per run (drop / duplicate / swap / foreign sender / wrong deployment id / wrong binary version / corrupt byte / restart from chunk 0 / restart with a damaged chunk 0 followed by the rest of the first attempt / take-over of the stream by another sender) and one symbolic placement of the timeout ticks; two streams with different indexes for the non-interference lemma
//vcheck:stub chunks: file system = the real lni/vfs strict in-memory FS executed symbolically; CRC-32 as in C14; onReceive / confirm = recorders

import (
	"github.com/lni/dragonboat/v4/internal/fileutil"
	"github.com/lni/dragonboat/v4/internal/rsm"
	"github.com/lni/dragonboat/v4/internal/vfs"
	"github.com/lni/dragonboat/v4/raftio"
	pb "github.com/lni/dragonboat/v4/raftpb"
)

// C15 (sender): the chunks of a file tile it exactly.
//vcheck: reach=exact-multiple,done workers=8
func VHarness_C15_SenderSplit() {
	snapshotChunkSize = 4
	m := pb.Message{Type: pb.InstallSnapshot, ShardID: 1, To: 2, From: 1}
	m.Snapshot = pb.Snapshot{Index: 100, Term: 5, Filepath: "main", FileSize: vU64("mainsize")}
	vAssume(m.Snapshot.FileSize >= 1)
	vAssume(m.Snapshot.FileSize <= 13)
	nfiles := vChoose("nfiles", 2)
	for i := 0; i < nfiles; i++ {
		sz := vU64("extsize")
		vAssume(sz >= 1)
		vAssume(sz <= 13)
		m.Snapshot.Files = append(m.Snapshot.Files, &pb.SnapshotFile{Filepath: "ext", FileSize: sz, FileId: uint64(i + 1)})
	}
	chunks := getChunks(m)
	total := uint64(len(chunks))
	fileStart := 0
	sizes := []uint64{m.Snapshot.FileSize}
	for _, f := range m.Snapshot.Files {
		sizes = append(sizes, f.FileSize)
	}
	for fi, fsz := range sizes {
		sum := uint64(0)
		cnt := chunks[fileStart].FileChunkCount
		vAssert(cnt >= 1, "file-chunk-count")
		for k := uint64(0); k < cnt; k++ {
			c := chunks[fileStart+int(k)]
			vAssert(c.ChunkId == uint64(fileStart)+k, "chunk-ids-consecutive")
			vAssert(c.ChunkCount == total, "chunk-count-field")
			vAssert(c.FileChunkId == k && c.FileChunkCount == cnt, "file-chunk-ids-consecutive")
			vAssert(c.FileSize == fsz, "file-size-field")
			vAssert(c.ChunkSize >= 1 && c.ChunkSize <= snapshotChunkSize, "chunk-size-within-bound")
			if k < cnt-1 {
				vAssert(c.ChunkSize == snapshotChunkSize, "inner-chunks-are-full")
			}
			vAssert(c.HasFileInfo == (fi > 0), "file-info-on-external-files-only")
			sum += c.ChunkSize
		}
		vAssert(sum == fsz, "chunks-tile-the-file-exactly")
		if fsz%snapshotChunkSize == 0 {
			vReach("exact-multiple")
		}
		fileStart += int(cnt)
	}
	vAssert(fileStart == len(chunks), "no-extra-chunks")
	vReach("done")
}

type vRecv struct {
	batches   []pb.MessageBatch
	confirmed int
}

const vRoot = "/data/s1r2"

func vDir(shardID, replicaID uint64) string { return vRoot }

func vNewReceiver(fs vfs.IFS, rec *vRecv) *Chunk {
	if err := fs.MkdirAll(vRoot, 0755); err != nil {
		panic(err)
	}
	c := NewChunk(func(b pb.MessageBatch) { rec.batches = append(rec.batches, b) },
		func(uint64, uint64, uint64) { rec.confirmed++ }, vDir, 77, fs)
	c.timeout = 3
	c.gcTick = 1
	return c
}

// vSourceSnapshot writes a real snapshot file (and optionally an external
// file) on the sender's file system and returns the InstallSnapshot message.
func vSourceSnapshot(fs vfs.IFS, index uint64, payload []byte, ext []byte, more ...[]byte) pb.Message {
	if err := fs.MkdirAll("/src", 0755); err != nil {
		panic(err)
	}
	fp := "/src/main.gbsnap"
	w, err := rsm.NewSnapshotWriter(fp, pb.NoCompression, fs)
	if err != nil {
		panic(err)
	}
	if _, err := w.Write(payload); err != nil {
		panic(err)
	}
	if err := w.Close(); err != nil {
		panic(err)
	}
	st, err := fs.Stat(fp)
	if err != nil {
		panic(err)
	}
	m := pb.Message{Type: pb.InstallSnapshot, ShardID: 1, To: 2, From: 1}
	m.Snapshot = pb.Snapshot{Index: index, Term: 5, Filepath: fp, FileSize: uint64(st.Size())}
	m.Snapshot.Membership.Addresses = map[uint64]string{1: "a1", 2: "a2"}
	if len(ext) > 0 {
		efp := "/src/external-file-1"
		f, err := fs.Create(efp)
		if err != nil {
			panic(err)
		}
		if _, err := f.Write(ext); err != nil {
			panic(err)
		}
		if err := f.Close(); err != nil {
			panic(err)
		}
		m.Snapshot.Files = []*pb.SnapshotFile{{Filepath: efp, FileSize: uint64(len(ext)), FileId: 1}}
		for i, x := range more {
			efp := "/src/external-file-" + string(rune('2'+i))
			f, err := fs.Create(efp)
			if err != nil {
				panic(err)
			}
			if _, err := f.Write(x); err != nil {
				panic(err)
			}
			if err := f.Close(); err != nil {
				panic(err)
			}
			m.Snapshot.Files = append(m.Snapshot.Files, &pb.SnapshotFile{Filepath: efp, FileSize: uint64(len(x)), FileId: uint64(2 + i)})
		}
	}
	return m
}

func vLoadChunks(fs vfs.IFS, m pb.Message) []pb.Chunk {
	chunks, err := splitSnapshotMessage(m, fs)
	if err != nil {
		panic(err)
	}
	for i := range chunks {
		d, err := loadChunkData(chunks[i], nil, fs)
		if err != nil {
			panic(err)
		}
		chunks[i].Data = d
		chunks[i].DeploymentId = 77
	}
	return chunks
}

func vReadFile(fs vfs.IFS, fp string) ([]byte, bool) {
	f, err := fs.Open(fp)
	if err != nil {
		return nil, false
	}
	defer f.Close()
	d, err := fileutil.ReadAll(f)
	if err != nil {
		return nil, false
	}
	return d, true
}

func vTempDirGone(fs vfs.IFS) bool {
	names, err := fs.List(vRoot)
	if err != nil {
		return false
	}
	for _, n := range names {
		if len(n) > 10 && n[len(n)-10:] == ".receiving" {
			return false
		}
	}
	return true
}

// C15 (receiver, end to end): a snapshot split by the real sender code and
// delivered in order finalizes into byte-identical files with exactly one
// notification; with one perturbation of the stream every chunk that is not
// the next expected chunk of its stream from its sender with matching
// deployment id / binary version is ignored without effect, and the stream
// finalizes iff the accepted chunks are the complete valid sequence.
//vcheck: reach=intact,dropped,duplicated,swapped,foreign,wrongdid,wrongbinver,corrupt,restarted,badrestart,takeover,done workers=16 forbid=.
func VHarness_C15_ReceiverEndToEnd() {
	snapshotChunkSize = 1040
	fs := vfs.NewMemFS()
	payload := make([]byte, 8)
	for i := range payload {
		payload[i] = vU8("p")
	}
	var ext, ext2 []byte
	nExt := vChoose("externalFiles", 3)
	if nExt >= 1 {
		ext = []byte{vU8("e"), vU8("e"), vU8("e")}
	}
	var m pb.Message
	if nExt == 2 {
		ext2 = []byte{vU8("f"), vU8("f")}
		m = vSourceSnapshot(fs, 100, payload, ext, ext2)
	} else {
		m = vSourceSnapshot(fs, 100, payload, ext)
	}
	chunks := vLoadChunks(fs, m)
	n := len(chunks)
	vAssert(n >= 2, "at-least-two-chunks")
	srcMain, _ := vReadFile(fs, m.Snapshot.Filepath)
	rec := &vRecv{}
	c := vNewReceiver(fs, rec)
	// build the delivery sequence
	type delivery struct {
		ch     pb.Chunk
		expect bool // must be accepted
	}
	var seq []delivery
	for i := range chunks {
		seq = append(seq, delivery{ch: chunks[i], expect: true})
	}
	complete := true
	wantFrom := uint64(1)
	switch vChoose("perturbation", 11) {
	case 0:
		vReach("intact")
	case 1: // drop chunk k: everything after it is out of order
		k := vChoose("k", n)
		var ns []delivery
		for i := range seq {
			if i == k {
				continue
			}
			d := seq[i]
			if i > k {
				d.expect = false
			}
			ns = append(ns, d)
		}
		seq, complete = ns, false
		vReach("dropped")
	case 2: // duplicate chunk k (k >= 1): the repeat is ignored, the stream still completes
		k := 1 + vChoose("k", n-1)
		var ns []delivery
		for i := range seq {
			ns = append(ns, seq[i])
			if i == k {
				ns = append(ns, delivery{ch: seq[i].ch, expect: false})
			}
		}
		seq = ns
		vReach("duplicated")
	case 3: // swap chunks k and k+1 (k >= 1)
		vAssume(n >= 3)
		k := 1 + vChoose("k", n-2)
		seq[k], seq[k+1] = seq[k+1], seq[k]
		seq[k].expect = false   // arrives early
		seq[k+1].expect = true  // the expected one
		for i := k + 2; i < len(seq); i++ {
			seq[i].expect = false
		}
		complete = false
		vReach("swapped")
	case 4: // a chunk (k >= 1) claims another sender
		k := 1 + vChoose("k", n-1)
		seq[k].ch.From = 3
		for i := k; i < len(seq); i++ {
			seq[i].expect = false
		}
		complete = false
		vReach("foreign")
	case 5:
		k := vChoose("k", n)
		seq[k].ch.DeploymentId = 78
		for i := k; i < len(seq); i++ {
			seq[i].expect = false
		}
		complete = false
		vReach("wrongdid")
	case 6:
		k := vChoose("k", n)
		seq[k].ch.BinVer = raftio.TransportBinVersion + 1
		for i := k; i < len(seq); i++ {
			seq[i].expect = false
		}
		complete = false
		vReach("wrongbinver")
	case 7: // one payload byte of the main file altered in transit
		mainChunks := 0
		for i := range chunks {
			if !chunks[i].HasFileInfo {
				mainChunks++
			}
		}
		// the block (payload + CRC) sits right after the 1 KiB header
		pos := int(rsm.HeaderSize) + vChoose("pos", 12)
		k := pos / int(snapshotChunkSize)
		off := pos % int(snapshotChunkSize)
		d := append([]byte(nil), seq[k].ch.Data...)
		mask := vU8("mask")
		vAssume(mask != 0)
		d[off] ^= mask
		seq[k].ch.Data = d
		_ = mainChunks
		complete = false
		for i := range seq {
			seq[i].expect = true // chunks are stored; the damage is found by the validator
		}
		vReach("corrupt")
	case 8: // the sender restarts the stream from chunk 0 after k chunks
		k := 1 + vChoose("k", n-1)
		var ns []delivery
		for i := 0; i < k; i++ {
			ns = append(ns, seq[i])
		}
		ns = append(ns, seq...)
		seq = ns
		vReach("restarted")
	case 9: // after k chunks a chunk 0 with a damaged header arrives (a restart gone wrong), then the rest of the first attempt
		k := 1 + vChoose("k", n-1)
		bad := seq[0]
		d := append([]byte(nil), bad.ch.Data...)
		// one byte of the stored header checksum altered (the header itself stays
		// concrete, so the refused header is not parsed)
		hsz := int(uint64(d[0]) | uint64(d[1])<<8)
		hp := 8 + hsz + vChoose("hpos", 4)
		hm := vU8("hmask")
		vAssume(hm != 0)
		d[hp] ^= hm
		// an all-zero checksum slot means "not checksummed" (files of older
		// versions): that header would be accepted, which is a plain restart
		vAssume(!vAnd(vAnd(d[8+hsz] == 0, d[9+hsz] == 0), vAnd(d[10+hsz] == 0, d[11+hsz] == 0)))
		bad.ch.Data = d
		bad.expect = false
		var ns []delivery
		for i := 0; i < k; i++ {
			ns = append(ns, seq[i])
		}
		ns = append(ns, bad)
		for i := k; i < n; i++ {
			x := seq[i]
			x.expect = false // the first attempt was abandoned when the new chunk 0 arrived
			ns = append(ns, x)
		}
		seq, complete = ns, false
		vReach("badrestart")
	case 10: // another sender takes the stream over (leader change mid-transfer, same snapshot index): its complete stream follows k chunks of the first sender
		k := 1 + vChoose("k", n-1)
		var ns []delivery
		for i := 0; i < k; i++ {
			ns = append(ns, seq[i])
		}
		for i := range seq {
			x := seq[i]
			x.ch.From = 3
			ns = append(ns, x)
		}
		seq = ns
		wantFrom = 3
		vReach("takeover")
	}
	corrupt := false
	for i := range seq {
		got := c.Add(seq[i].ch)
		if i == len(seq)-1 && !complete && seq[i].expect {
			// the last chunk of a damaged stream is refused by the final validation
			corrupt = true
			continue
		}
		vAssert(got == seq[i].expect, "accepts-exactly-the-next-expected-chunk")
	}
	_ = corrupt
	finalDir := vRoot + "/snapshot-0000000000000064"
	mainDst := finalDir + "/main.gbsnap"
	if complete {
		vAssert(len(rec.batches) == 1 && rec.confirmed == 1, "exactly-one-notification")
		b := rec.batches[0]
		vAssert(len(b.Requests) == 1 && b.Requests[0].Type == pb.InstallSnapshot, "notification-is-install-snapshot")
		ss := b.Requests[0].Snapshot
		vAssert(ss.Index == 100 && ss.Term == 5 && b.Requests[0].From == wantFrom && ss.Filepath == mainDst, "notification-describes-the-snapshot")
		dst, ok := vReadFile(fs, mainDst)
		vAssert(ok && len(dst) == len(srcMain), "final-main-file-exists")
		if ok && len(dst) == len(srcMain) {
			for i := range dst {
				vAssert(dst[i] == srcMain[i], "final-main-file-identical")
			}
		}
		vAssert(len(ss.Files) == nExt, "notification-lists-exactly-the-external-files")
		for i := range ss.Files {
			vAssert(ss.Files[i].FileId == uint64(i+1), "external-files-listed-once-in-order")
		}
		if nExt == 2 {
			de, ok := vReadFile(fs, finalDir+"/external-file-2")
			vAssert(ok && len(de) == len(ext2), "final-external-file-exists")
			if ok && len(de) == len(ext2) {
				for i := range de {
					vAssert(de[i] == ext2[i], "final-external-file-identical")
				}
			}
		}
		if len(ext) > 0 {
			de, ok := vReadFile(fs, finalDir+"/external-file-1")
			vAssert(ok && len(de) == len(ext), "final-external-file-exists")
			if ok && len(de) == len(ext) {
				for i := range de {
					vAssert(de[i] == ext[i], "final-external-file-identical")
				}
			}
		}
		vAssert(vTempDirGone(fs), "temp-dir-gone-after-finalize")
	} else {
		vAssert(len(rec.batches) == 0 && rec.confirmed == 0, "incomplete-stream-never-notifies")
		_, ok := vReadFile(fs, mainDst)
		vAssert(!ok, "incomplete-stream-never-finalizes")
		// the timeout collector removes what is left of a stalled stream, and only after the timeout
		for t := uint64(0); t < c.timeout-1; t++ {
			c.Tick()
		}
		stalled := len(c.tracked) > 0
		if stalled {
			vAssert(!vTempDirGone(fs), "temp-dir-kept-until-timeout")
		}
		c.Tick()
		c.Tick()
		vAssert(len(c.tracked) == 0, "stalled-stream-collected")
		vAssert(vTempDirGone(fs), "temp-dir-removed-by-collector")
	}
	vReach("done")
}

// C15: progress of a stream refreshes its timeout (a long but steadily
// progressing transfer is not collected); two streams for different snapshots
// do not affect each other.
//vcheck: reach=slow-stream-survives,other-stream-unaffected,done workers=8
func VHarness_C15_TimeoutAndIsolation() {
	snapshotChunkSize = 1040
	fs := vfs.NewMemFS()
	payload := []byte{vU8("p"), vU8("p"), vU8("p"), vU8("p"), vU8("p"), vU8("p"), vU8("p"), vU8("p")}
	m := vSourceSnapshot(fs, 100, payload, []byte{vU8("e")})
	chunks := vLoadChunks(fs, m)
	vAssert(len(chunks) == 3, "three-chunks")
	rec := &vRecv{}
	c := vNewReceiver(fs, rec)
	// a second stream (another snapshot index) that stalls after its first chunk
	m2 := m
	m2.Snapshot.Index = 200
	other := vLoadChunks(fs, m2)
	vAssert(c.Add(chunks[0]), "first-accepted")
	gap1 := vChoose("gap1", int(c.timeout)) // strictly less than the timeout between two chunks
	for t := 0; t < gap1; t++ {
		c.Tick()
	}
	withOther := vBool("otherStream")
	if withOther {
		vAssert(c.Add(other[0]), "other-first-accepted")
	}
	vAssert(c.Add(chunks[1]), "second-accepted")
	gap2 := vChoose("gap2", int(c.timeout))
	for t := 0; t < gap2; t++ {
		c.Tick()
	}
	vAssert(c.Add(chunks[2]), "third-accepted-although-the-stream-is-older-than-the-timeout")
	vReach("slow-stream-survives")
	vAssert(len(rec.batches) == 1, "slow-stream-finalized")
	if withOther {
		vReach("other-stream-unaffected")
		// the other stream is still tracked with its own progress (unless it timed out on its own)
		if td, ok := c.tracked[chunkKey(other[0])]; ok {
			vAssert(td.next == 1 && td.first.Index == 200, "other-stream-state-untouched")
		} else {
			vAssert(uint64(gap2) >= c.timeout || true, "other-stream-collected-only-by-timeout")
		}
		vAssert(rec.batches[0].Requests[0].Snapshot.Index == 100, "notification-for-the-right-stream")
	}
	vReach("done")
}

// vHandSplit cuts the main file of m into chunk 0 = the first `first` bytes
// and following chunks of `rest` bytes, with the metadata the sender's
// splitter produces (the receiver does not depend on chunk sizes being
// uniform; this keeps a many-chunk stream small).
func vHandSplit(fs vfs.IFS, m pb.Message, first, rest int) []pb.Chunk {
	data, ok := vReadFile(fs, m.Snapshot.Filepath)
	if !ok {
		panic("no source")
	}
	tmpl := vLoadChunks(fs, m)[0]
	var cuts [][]byte
	cuts = append(cuts, data[:first])
	for off := first; off < len(data); off += rest {
		end := off + rest
		if end > len(data) {
			end = len(data)
		}
		cuts = append(cuts, data[off:end])
	}
	var out []pb.Chunk
	for i := range cuts {
		c := tmpl
		c.ChunkId = uint64(i)
		c.FileChunkId = uint64(i)
		c.ChunkCount = uint64(len(cuts))
		c.FileChunkCount = uint64(len(cuts))
		c.ChunkSize = uint64(len(cuts[i]))
		c.Data = append([]byte(nil), cuts[i]...)
		out = append(out, c)
	}
	return out
}

// C15 (receiver, many chunks, scaled block size): one byte of the main file is
// altered in transit somewhere after the header and EVERY chunk of the stream
// is still delivered (a sender that keeps going, or resumes, after a refused
// chunk).  Whichever chunk the incremental validator refuses, the stream must
// never finalize, never notify, and what is left of it is collected.
//vcheck: props=C14 reach=intact,refused-mid-stream,refused-at-the-end,done workers=16 forbid=.
func VHarness_C15_CorruptMidStream() {
	snapshotChunkSize = 1040
	fs := vfs.NewMemFS()
	payload := make([]byte, 60)
	for i := range payload {
		payload[i] = byte(i*7 + 3)
	}
	m := vSourceSnapshot(fs, 100, payload, nil)
	chunks := vHandSplit(fs, m, int(rsm.HeaderSize)+16, 24)
	n := len(chunks)
	vAssert(n >= 5, "at-least-five-chunks")
	srcMain, _ := vReadFile(fs, m.Snapshot.Filepath)
	rec := &vRecv{}
	c := vNewReceiver(fs, rec)
	finalDir := vRoot + "/snapshot-0000000000000064"
	mainDst := finalDir + "/main.gbsnap"
	if vBool("intact") {
		for i := range chunks {
			vAssert(c.Add(chunks[i]), "intact-stream-accepted")
		}
		vAssert(len(rec.batches) == 1 && rec.confirmed == 1, "exactly-one-notification")
		dst, ok := vReadFile(fs, mainDst)
		vAssert(ok && len(dst) == len(srcMain), "final-main-file-exists")
		if ok && len(dst) == len(srcMain) {
			for i := range dst {
				vAssert(dst[i] == srcMain[i], "final-main-file-identical")
			}
		}
		vReach("intact")
		vReach("done")
		return
	}
	pos := int(rsm.HeaderSize) + vChoose("pos", len(srcMain)-int(rsm.HeaderSize))
	mask := vU8("mask")
	vAssume(mask != 0)
	k, off := 0, pos
	for off >= len(chunks[k].Data) {
		off -= len(chunks[k].Data)
		k++
	}
	chunks[k].Data[off] ^= mask
	refusedAt := -1
	for i := range chunks {
		if !c.Add(chunks[i]) && refusedAt < 0 {
			refusedAt = i
		}
	}
	vAssert(refusedAt >= 0, "altered-stream-has-a-refused-chunk")
	if refusedAt >= 0 && refusedAt < n-1 {
		vReach("refused-mid-stream")
	}
	if refusedAt == n-1 {
		vReach("refused-at-the-end")
	}
	vAssert(len(rec.batches) == 0 && rec.confirmed == 0, "stream-with-a-corrupt-chunk-never-notifies")
	_, ok := vReadFile(fs, mainDst)
	vAssert(!ok, "stream-with-a-corrupt-chunk-never-finalizes")
	for t := uint64(0); t < c.timeout+1; t++ {
		c.Tick()
	}
	vAssert(len(c.tracked) == 0, "stalled-stream-collected")
	vAssert(vTempDirGone(fs), "temp-dir-removed-by-collector")
	vReach("done")
}
