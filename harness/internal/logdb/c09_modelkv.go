package logdb

//vcheck:bounds logdb: one (shard, replica) pair plus a bystander pair with mirrored ids sharing the store; two saves: entries 1..n1 (n1 <= 5) then a save starting at s <= n1+1 (overwriting a suffix with a newer term) of <= 3 entries; entry terms symbolic (1..127 so that every entry encodes to the same length), hard state symbolic; plain and batched (batch size 4) formats; every [low, high) query; reopen = fresh cache over the same store
//vcheck:stub logdb: kv.IKVStore = sorted in-memory key/value list with an atomic write batch (optionally failing at a symbolic call index, C10)

import (
	"github.com/lni/dragonboat/v4/internal/logdb/kv"
	"github.com/lni/dragonboat/v4/raftio"
	pb "github.com/lni/dragonboat/v4/raftpb"
)

type vOp struct {
	del  bool
	k    string
	data []byte
}

type vBatch struct{ ops []vOp }

func (w *vBatch) Destroy() {}
func (w *vBatch) Put(k, v []byte) {
	w.ops = append(w.ops, vOp{k: string(k), data: append([]byte(nil), v...)})
}
func (w *vBatch) Delete(k []byte) { w.ops = append(w.ops, vOp{del: true, k: string(k)}) }
func (w *vBatch) Clear()          { w.ops = nil }
func (w *vBatch) Count() int      { return len(w.ops) }

// vStore: keys kept sorted; values may have symbolic contents.
type vStore struct {
	keys    []string
	vals    [][]byte
	commits int
}

func (s *vStore) find(k string) (int, bool) {
	for i, x := range s.keys {
		if x == k {
			return i, true
		}
		if x > k {
			return i, false
		}
	}
	return len(s.keys), false
}
func (s *vStore) put(k string, v []byte) {
	i, ok := s.find(k)
	if ok {
		s.vals[i] = v
		return
	}
	s.keys = append(s.keys, "")
	s.vals = append(s.vals, nil)
	copy(s.keys[i+1:], s.keys[i:])
	copy(s.vals[i+1:], s.vals[i:])
	s.keys[i], s.vals[i] = k, v
}
func (s *vStore) del(k string) {
	if i, ok := s.find(k); ok {
		s.keys = append(s.keys[:i], s.keys[i+1:]...)
		s.vals = append(s.vals[:i], s.vals[i+1:]...)
	}
}
func (s *vStore) Name() string { return "vstore" }
func (s *vStore) Close() error { return nil }
func (s *vStore) IterateValue(fk []byte, lk []byte, inc bool, op func(key []byte, data []byte) (bool, error)) error {
	f, l := string(fk), string(lk)
	for i := 0; i < len(s.keys); i++ {
		k := s.keys[i]
		if k < f {
			continue
		}
		if k > l || (!inc && k == l) {
			break
		}
		cont, err := op([]byte(k), s.vals[i])
		if err != nil {
			return err
		}
		if !cont {
			break
		}
	}
	return nil
}
func (s *vStore) GetValue(key []byte, op func([]byte) error) error {
	if i, ok := s.find(string(key)); ok {
		return op(s.vals[i])
	}
	return op(nil)
}
func (s *vStore) SaveValue(key []byte, value []byte) error {
	s.put(string(key), append([]byte(nil), value...))
	return nil
}
func (s *vStore) DeleteValue(key []byte) error { s.del(string(key)); return nil }
func (s *vStore) GetWriteBatch() kv.IWriteBatch { return &vBatch{} }
func (s *vStore) CommitWriteBatch(wb kv.IWriteBatch) error {
	s.commits++
	for _, o := range wb.(*vBatch).ops {
		if o.del {
			s.del(o.k)
		} else {
			s.put(o.k, o.data)
		}
	}
	return nil
}
func (s *vStore) BulkRemoveEntries(firstKey []byte, lastKey []byte) error {
	f, l := string(firstKey), string(lastKey)
	var nk []string
	var nv [][]byte
	for i, k := range s.keys {
		if k >= f && k < l {
			continue
		}
		nk = append(nk, k)
		nv = append(nv, s.vals[i])
	}
	s.keys, s.vals = nk, nv
	return nil
}
func (s *vStore) CompactEntries(firstKey []byte, lastKey []byte) error { return nil }
func (s *vStore) FullCompaction() error                                { return nil }

func vOpenDB(s kv.IKVStore, batched bool) *db {
	cs := newCache()
	pool := newLogDBKeyPool()
	var em entryManager
	if batched {
		em = newBatchedEntries(cs, pool, s)
	} else {
		em = newPlainEntries(cs, pool, s)
	}
	return &db{cs: cs, keys: pool, kvs: s, entries: em}
}

func vEntries(first uint64, n int, minTerm uint64) ([]pb.Entry, uint64) {
	var es []pb.Entry
	prev := minTerm
	for i := 0; i < n; i++ {
		t := vU64("term")
		vAssume(t >= prev)
		vAssume(t >= 1)
		vAssume(t < 128)
		prev = t
		es = append(es, pb.Entry{Index: first + uint64(i), Term: t, Type: pb.ApplicationEntry, Cmd: []byte{byte(first) + byte(i)}})
	}
	return es, prev
}

func vState(name string) pb.State {
	st := pb.State{Term: vU64(name + "term"), Vote: vU64(name + "vote"), Commit: vU64(name + "commit")}
	vAssume(st.Term >= 1)
	vAssume(st.Term < 128)
	vAssume(st.Vote < 128)
	vAssume(st.Commit < 128)
	return st
}

// C09/I4 (+C04/O3, C03 vote durability): after two saves - the second possibly
// overwriting a suffix with entries of a newer term - the store reports the
// hard state saved last, the right first index and length, and for every
// requested range exactly the contiguous entries of the logical log, before
// and after a reopen; a bystander replica sharing the store is unaffected.
//vcheck: props=C04,C03 reach=overwrite,extend,batch-boundary,reopened,done workers=16
func VHarness_C09_TwoSaves() {
	batched := vBool("batched")
	batchSize = 4
	store := &vStore{}
	d := vOpenDB(store, batched)
	ctx := newContext(1024, 1024*1024)
	// a bystander replica in the same store: shard 2 / replica 1 next to shard 1 /
	// replica 2 (mirrored ids, so that a transposed (shard, replica) key anywhere
	// in the store or its caches makes the two replicas see each other's records)
	by, _ := vEntries(1, 2, 1)
	bys := vState("by")
	vAssert(d.saveRaftState([]pb.Update{{ShardID: 2, ReplicaID: 1, State: bys, EntriesToSave: by}}, ctx) == nil, "bystander-save-ok")
	ctx.Reset()
	n1 := vChoose("n1", 5) + 1
	e1, lastTerm := vEntries(1, n1, 1)
	st1 := vState("s1")
	vAssert(d.saveRaftState([]pb.Update{{ShardID: 1, ReplicaID: 2, State: st1, EntriesToSave: e1}}, ctx) == nil, "save1-ok")
	ctx.Reset()
	s := uint64(vChoose("s", n1+1)) + 1 // 1..n1+1
	n2 := vChoose("n2", 3) + 1
	minTerm := lastTerm
	if s <= uint64(n1) {
		// a conflicting suffix always carries a newer term than what it replaces
		minTerm = lastTerm + 1
		vAssume(minTerm < 128)
		vReach("overwrite")
	} else {
		vReach("extend")
	}
	e2, _ := vEntries(s, n2, minTerm)
	st2 := st1
	if vBool("stateChanges") {
		st2 = vState("s2")
	}
	ud2 := pb.Update{ShardID: 1, ReplicaID: 2, EntriesToSave: e2}
	if st2 != st1 {
		ud2.State = st2
	}
	vAssert(d.saveRaftState([]pb.Update{ud2}, ctx) == nil, "save2-ok")
	ctx.Reset()
	if batched && (uint64(n1)%4 == 3 || (s+uint64(n2)-1)%4 == 3) {
		vReach("batch-boundary")
	}
	// the logical log
	logical := append(append([]pb.Entry(nil), e1[:s-1]...), e2...)
	last := uint64(len(logical))
	low := uint64(vChoose("low", int(last))) + 1
	high := low + uint64(vChoose("span", int(last-low)+3)) // may exceed the logical end
	check := func(d *db, tag string) {
		rs, err := d.readRaftState(1, 2, 0)
		vAssert(err == nil, tag+"read-state-ok")
		vAssert(rs.State.Term == st2.Term && rs.State.Vote == st2.Vote && rs.State.Commit == st2.Commit, tag+"hard-state-is-the-last-saved")
		vAssert(rs.FirstIndex == 1 && rs.EntryCount == last, tag+"first-index-and-length")
		ents, _, err := d.iterateEntries(nil, 0, 1, 2, low, high, 1<<40)
		vAssert(err == nil, tag+"iterate-ok")
		want := high
		if want > last+1 {
			want = last + 1
		}
		vAssert(uint64(len(ents)) == want-low, tag+"range-length")
		for i := range ents {
			vAssert(ents[i].Index == low+uint64(i), tag+"range-contiguous")
			vAssert(ents[i].Index <= last, tag+"never-past-the-logical-end")
			vAssert(ents[i].Term == logical[ents[i].Index-1].Term, tag+"never-a-stale-overwritten-entry")
		}
		// the bystander still reads its own log and state
		brs, err := d.readRaftState(2, 1, 0)
		vAssert(err == nil && brs.EntryCount == 2 && brs.State.Term == bys.Term && brs.State.Vote == bys.Vote, tag+"bystander-unaffected")
		bents, _, err := d.iterateEntries(nil, 0, 2, 1, 1, 3, 1<<40)
		vAssert(err == nil && len(bents) == 2 && bents[0].Term == by[0].Term && bents[1].Term == by[1].Term, tag+"bystander-entries-unaffected")
	}
	check(d, "")
	vReach("reopened")
	check(vOpenDB(store, batched), "reopen-")
	vReach("done")
}

// C09: compaction marker (RemoveEntriesTo) and node-data removal.
//vcheck: reach=removed,done workers=8
func VHarness_C09_RemoveEntriesAndNodeData() {
	batched := vBool("batched")
	batchSize = 4
	store := &vStore{}
	d := vOpenDB(store, batched)
	ctx := newContext(1024, 1024*1024)
	n := vChoose("n", 6) + 2
	es, _ := vEntries(1, n, 1)
	st := vState("s")
	by, _ := vEntries(1, 2, 1)
	vAssert(d.saveRaftState([]pb.Update{{ShardID: 1, ReplicaID: 1, State: st, EntriesToSave: es}, {ShardID: 1, ReplicaID: 2, State: st, EntriesToSave: by}}, ctx) == nil, "save-ok")
	ctx.Reset()
	if vBool("removeNode") {
		vAssert(d.removeNodeData(1, 1) == nil, "remove-node-ok")
		vReach("removed")
		_, err := vOpenDB(store, batched).readRaftState(1, 1, 0)
		vAssert(err == raftio.ErrNoSavedLog, "removed-node-has-no-saved-log")
		ents, _, err := vOpenDB(store, batched).iterateEntries(nil, 0, 1, 1, 1, uint64(n)+1, 1<<40)
		vAssert(err == nil && len(ents) == 0, "removed-node-has-no-entries")
	} else {
		k := uint64(vChoose("k", n-1)) + 1 // remove entries <= k
		vAssert(d.removeEntriesTo(1, 1, k) == nil, "remove-entries-ok")
		// entries above k are all still there and contiguous
		ents, _, err := d.iterateEntries(nil, 0, 1, 1, k+1, uint64(n)+1, 1<<40)
		vAssert(err == nil, "iterate-ok")
		vAssert(uint64(len(ents)) == uint64(n)-k, "entries-above-compaction-point-kept")
		for i := range ents {
			vAssert(ents[i].Index == k+1+uint64(i) && ents[i].Term == es[k+uint64(i)].Term, "kept-entries-intact")
		}
	}
	// the bystander is never touched
	brs, err := vOpenDB(store, batched).readRaftState(1, 2, 0)
	vAssert(err == nil && brs.EntryCount == 2, "bystander-unaffected")
	vReach("done")
}

// C09: three saves in one process (append, append up to / across a batch
// boundary, then a conflicting overwrite into the middle): the cached last
// batch of the batched format must never be staler than what was written.
//vcheck: reach=boundary,overwrite,done workers=16
func VHarness_C09_ThreeSaves() {
	batched := true
	if vTier() > 0 {
		batched = vBool("batched")
	}
	batchSize = 4
	store := &vStore{}
	d := vOpenDB(store, batched)
	ctx := newContext(1024, 1024*1024)
	n1 := vChoose("n1", 6) + 1
	e1, t1 := vEntries(1, n1, 1)
	vAssert(d.saveRaftState([]pb.Update{{ShardID: 1, ReplicaID: 1, State: pb.State{Term: 1, Commit: 1}, EntriesToSave: e1}}, ctx) == nil, "save1-ok")
	ctx.Reset()
	n2 := vChoose("n2", 3) + 1
	e2, t2 := vEntries(uint64(n1)+1, n2, t1)
	vAssert(d.saveRaftState([]pb.Update{{ShardID: 1, ReplicaID: 1, EntriesToSave: e2}}, ctx) == nil, "save2-ok")
	ctx.Reset()
	if (n1+n2)%4 == 3 {
		vReach("boundary") // the second save ends on the last slot of a batch
	}
	total := n1 + n2
	s := uint64(vChoose("s", total)) + 2 // 2..total+1
	n3 := vChoose("n3", 2) + 1
	minTerm := t2
	if s <= uint64(total) {
		minTerm = t2 + 1
		vAssume(minTerm < 128)
		vReach("overwrite")
	}
	e3, _ := vEntries(s, n3, minTerm)
	vAssert(d.saveRaftState([]pb.Update{{ShardID: 1, ReplicaID: 1, EntriesToSave: e3}}, ctx) == nil, "save3-ok")
	ctx.Reset()
	logical := append(append(append([]pb.Entry(nil), e1...), e2...)[:s-1], e3...)
	last := uint64(len(logical))
	for _, dd := range []*db{d, vOpenDB(store, batched)} {
		rs, err := dd.readRaftState(1, 1, 0)
		vAssert(err == nil && rs.FirstIndex == 1 && rs.EntryCount == last, "first-index-and-length")
		ents, _, err := dd.iterateEntries(nil, 0, 1, 1, 1, last+1, 1<<40)
		vAssert(err == nil, "iterate-ok")
		vAssert(uint64(len(ents)) == last, "whole-log-returned-no-gap")
		for i := range ents {
			vAssert(ents[i].Index == uint64(i)+1 && ents[i].Term == logical[i].Term, "entries-are-the-logical-log")
		}
	}
	vReach("done")
}

// C09 (batched format, merge of a save into the stored first batch): the
// stored batch may have an index gap inside it (entries saved, then a snapshot
// beyond the last index, then later entries of the same batch); a save whose
// first index lies inside the stored batch cuts it exactly there - the result
// is the stored entries below the first new index followed by the new entries:
// never a stale overwritten entry, never a lost one.
//vcheck: reach=gap,overwrite-after-the-gap,append,done workers=8 forbid=.
func VHarness_C09_MergedFirstBatch() {
	batchSize = 8
	// stored batch: 2..4 entries of batch 0 with an optional gap
	nl := 2 + vChoose("stored", 3)
	first := 1 + uint64(vChoose("first", 2))
	gapAt := vChoose("gapAt", nl) // 0 = no gap, k = a gap of one index before entry k
	var lb pb.EntryBatch
	idx := first
	for k := 0; k < nl; k++ {
		if gapAt != 0 && k == gapAt {
			idx++
			vReach("gap")
		}
		lb.Entries = append(lb.Entries, pb.Entry{Index: idx, Term: 1})
		idx++
	}
	last := lb.Entries[nl-1].Index
	// the save: 1..2 entries of a newer term starting inside the stored batch or right behind it
	start := first + 1 + uint64(vChoose("start", int(last-first)+1))
	ne := 1 + vChoose("new", 2)
	var eb pb.EntryBatch
	for k := 0; k < ne; k++ {
		eb.Entries = append(eb.Entries, pb.Entry{Index: start + uint64(k), Term: 2})
	}
	vAssume(start+uint64(ne)-1 < batchSize)
	// the expected content
	var want []pb.Entry
	for _, e := range lb.Entries {
		if e.Index < start {
			want = append(want, e)
		}
	}
	want = append(want, eb.Entries...)
	if start <= last {
		if gapAt != 0 && start > lb.Entries[gapAt].Index-1 {
			vReach("overwrite-after-the-gap")
		}
	} else {
		vReach("append")
	}
	lbc := pb.EntryBatch{Entries: append([]pb.Entry(nil), lb.Entries...)}
	got := getMergedFirstBatch(eb, lbc)
	vAssert(len(got.Entries) == len(want), "merged-batch-has-exactly-the-kept-and-the-new-entries")
	if len(got.Entries) == len(want) {
		for i := range want {
			vAssert(got.Entries[i].Index == want[i].Index && got.Entries[i].Term == want[i].Term, "merged-batch-entry")
		}
	}
	vReach("done")
}
