package logdb

//vcheck:init github.com/lni/dragonboat/v4/internal/settings,github.com/lni/dragonboat/v4/raftpb,github.com/lni/dragonboat/v4/internal/logdb

import (
	"github.com/lni/dragonboat/v4/raftio"
	"github.com/cockroachdb/errors"

	"github.com/lni/dragonboat/v4/internal/logdb/kv"
	pb "github.com/lni/dragonboat/v4/raftpb"
)


var vInjected = errors.New("injected kv error")

type vWB struct{ n int }

func (w *vWB) Destroy()           {}
func (w *vWB) Put(k, v []byte)    { w.n++ }
func (w *vWB) Delete(k []byte)    { w.n++ }
func (w *vWB) Clear()             { w.n = 0 }
func (w *vWB) Count() int         { return w.n }

type vKV struct {
	failAt    int
	calls     int
	failed    bool
	committed int
}

func (k *vKV) step() error {
	k.calls++
	if k.calls == k.failAt {
		k.failed = true
		return vInjected
	}
	return nil
}
func (k *vKV) Name() string { return "vkv" }
func (k *vKV) Close() error { return nil }
func (k *vKV) IterateValue(fk []byte, lk []byte, inc bool, op func(key []byte, data []byte) (bool, error)) error {
	return k.step()
}
func (k *vKV) GetValue(key []byte, op func([]byte) error) error {
	if err := k.step(); err != nil {
		return err
	}
	return op(nil)
}
func (k *vKV) SaveValue(key []byte, value []byte) error { return k.step() }
func (k *vKV) DeleteValue(key []byte) error             { return k.step() }
func (k *vKV) GetWriteBatch() kv.IWriteBatch            { return &vWB{} }
func (k *vKV) CommitWriteBatch(wb kv.IWriteBatch) error {
	if err := k.step(); err != nil {
		return err
	}
	k.committed++
	return nil
}
func (k *vKV) BulkRemoveEntries(firstKey []byte, lastKey []byte) error { return k.step() }
func (k *vKV) CompactEntries(firstKey []byte, lastKey []byte) error    { return k.step() }
func (k *vKV) FullCompaction() error                                   { return k.step() }

//vcheck: reach=injected,success,done
func VHarness_C10_SaveErrProp() {
	kvs := &vKV{failAt: vChoose("failAt", 4)}
	cs := newCache()
	pool := newLogDBKeyPool()
	d := &db{cs: cs, keys: pool, kvs: kvs, entries: newPlainEntries(cs, pool, kvs)}
	ud := pb.Update{ShardID: 1, ReplicaID: 1,
		State:         pb.State{Term: 1, Vote: 1, Commit: 1},
		Snapshot:      pb.Snapshot{Index: 5, Term: 1},
		EntriesToSave: []pb.Entry{{Index: 6, Term: 1}},
	}
	ctx := newContext(1024, 1024*1024)
	err := d.saveRaftState([]pb.Update{ud}, ctx)
	if kvs.failed {
		vReach("injected")
		vAssert(err != nil, "error-propagated")
	}
	if err == nil {
		vReach("success")
		vAssert(kvs.committed == 1, "success-means-committed")
	}
	vReach("done")
}

//vcheck: reach=injected,success,done
func VHarness_C10_SaveSnapshotsErrProp() {
	kvs := &vKV{failAt: vChoose("failAt", 4)}
	cs := newCache()
	pool := newLogDBKeyPool()
	d := &db{cs: cs, keys: pool, kvs: kvs, entries: newPlainEntries(cs, pool, kvs)}
	ud := pb.Update{ShardID: 1, ReplicaID: 1, Snapshot: pb.Snapshot{Index: 5, Term: 1}}
	err := d.saveSnapshots([]pb.Update{ud})
	if kvs.failed {
		vReach("injected")
		vAssert(err != nil, "error-propagated")
	}
	if err == nil {
		vReach("success")
		vAssert(kvs.committed == 1, "success-means-committed")
	}
	vReach("done")
}

// vFailStore: the model KV of the C09 harnesses (it holds real records) with a
// fault injector in front of every IKVStore call.
type vFailStore struct {
	*vStore
	armed  bool
	failAt int
	calls  int
	failed bool
}

func (k *vFailStore) step() error {
	if !k.armed {
		return nil
	}
	k.calls++
	if k.calls == k.failAt {
		k.failed = true
		return vInjected
	}
	return nil
}
func (k *vFailStore) IterateValue(fk []byte, lk []byte, inc bool, op func(key []byte, data []byte) (bool, error)) error {
	if err := k.step(); err != nil {
		return err
	}
	return k.vStore.IterateValue(fk, lk, inc, op)
}
func (k *vFailStore) GetValue(key []byte, op func([]byte) error) error {
	if err := k.step(); err != nil {
		return err
	}
	return k.vStore.GetValue(key, op)
}
func (k *vFailStore) SaveValue(key []byte, value []byte) error {
	if err := k.step(); err != nil {
		return err
	}
	return k.vStore.SaveValue(key, value)
}
func (k *vFailStore) DeleteValue(key []byte) error {
	if err := k.step(); err != nil {
		return err
	}
	return k.vStore.DeleteValue(key)
}
func (k *vFailStore) CommitWriteBatch(wb kv.IWriteBatch) error {
	if err := k.step(); err != nil {
		return err
	}
	return k.vStore.CommitWriteBatch(wb)
}
func (k *vFailStore) BulkRemoveEntries(firstKey []byte, lastKey []byte) error {
	if err := k.step(); err != nil {
		return err
	}
	return k.vStore.BulkRemoveEntries(firstKey, lastKey)
}
func (k *vFailStore) CompactEntries(firstKey []byte, lastKey []byte) error { return k.step() }
func (k *vFailStore) FullCompaction() error                                { return k.step() }

// C10 (sharded store, every mutating operation): a replica with saved state,
// entries and a snapshot record; the store is reopened (cold caches) or not;
// then one operation - save, snapshot save, entry removal, node-data removal,
// snapshot import, bootstrap record - during which the KV store fails call
// number k.  The operation reports the failure (error or panic); it never
// returns success.
//vcheck: reach=injected,not-reached,save,snapshots,remove-entries,remove-node,import,bootstrap,cold,warm,recovered-with-entries,done workers=16 allow="injected kv error"
func VHarness_C10_EveryOperationErrProp() {
	batched := vBool("batched")
	batchSize = 4
	fs := &vFailStore{vStore: &vStore{}}
	d := vOpenDB(fs, batched)
	ctx := newContext(1024, 1024*1024)
	es, _ := vEntries(1, 6, 1)
	vAssert(d.saveRaftState([]pb.Update{{ShardID: 1, ReplicaID: 1, State: pb.State{Term: 1, Vote: 1, Commit: 3}, EntriesToSave: es}}, ctx) == nil, "setup-save-ok")
	ctx.Reset()
	vAssert(d.saveSnapshots([]pb.Update{{ShardID: 1, ReplicaID: 1, Snapshot: pb.Snapshot{Index: 3, Term: 1}}}) == nil, "setup-snapshot-ok")
	if vBool("reopened") {
		d = vOpenDB(fs, batched)
		vReach("cold")
	} else {
		vReach("warm")
	}
	fs.failAt = 1 + vChoose("failAtCall", 6)
	fs.armed = true
	var err error
	func() {
		defer func() {
			if r := recover(); r != nil {
				err = vInjected // a panic counts as failing
			}
		}()
		switch vChoose("operation", 6) {
		case 0:
			vReach("save")
			more, _ := vEntries(7, 2, 1)
			err = d.saveRaftState([]pb.Update{{ShardID: 1, ReplicaID: 1, State: pb.State{Term: 2, Vote: 2, Commit: 4}, EntriesToSave: more}}, ctx)
		case 1:
			vReach("snapshots")
			err = d.saveSnapshots([]pb.Update{{ShardID: 1, ReplicaID: 1, Snapshot: pb.Snapshot{Index: 5, Term: 1}}})
		case 2:
			vReach("remove-entries")
			err = d.removeEntriesTo(1, 1, 3)
		case 3:
			vReach("remove-node")
			err = d.removeNodeData(1, 1)
		case 4:
			vReach("import")
			ss := pb.Snapshot{Index: 9, Term: 2, Imported: true, Type: pb.RegularStateMachine}
			ss.Membership.Addresses = map[uint64]string{1: "a1"}
			err = d.importSnapshot(ss, 1)
		case 5:
			vReach("bootstrap")
			err = d.saveBootstrapInfo(1, 1, pb.Bootstrap{Join: true})
		}
	}()
	fs.armed = false
	if fs.failed {
		vReach("injected")
		vAssert(err != nil, "storage-error-during-the-operation-is-reported")
	} else {
		vReach("not-reached")
		vAssert(err == nil, "operation-ok-without-a-fault")
	}
	// the failed call is also where the process may have died: what the calls
	// before it left in the store must be readable by a restarted replica - the
	// replica is gone (no saved log) or its log ends where its recorded end says
	if fs.failed {
		d2 := vOpenDB(fs, batched)
		ssIndex := uint64(0)
		if ss, e := d2.getSnapshot(1, 1); e == nil {
			ssIndex = ss.Index
		}
		readable := true
		var rs raftio.RaftState
		var rerr error
		func() {
			defer func() {
				if r := recover(); r != nil {
					readable = false
				}
			}()
			rs, rerr = d2.readRaftState(1, 1, ssIndex)
		}()
		vAssert(readable, "store-left-by-an-interrupted-operation-is-readable-after-restart")
		if readable && rerr == nil && rs.EntryCount > 0 {
			ents, _, ierr := d2.iterateEntries(nil, 0, 1, 1, rs.FirstIndex, rs.FirstIndex+rs.EntryCount, 1<<40)
			vAssert(ierr == nil && uint64(len(ents)) == rs.EntryCount, "recovered-log-ends-where-its-recorded-end-says")
			vReach("recovered-with-entries")
		}
		if readable && rerr != nil {
			vAssert(rerr == raftio.ErrNoSavedLog, "absent-replica-reports-no-saved-log")
			vReach("recovered-absent")
		}
	}
	vReach("done")
}
