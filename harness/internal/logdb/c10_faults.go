package logdb

//vcheck:init github.com/lni/dragonboat/v4/internal/settings,github.com/lni/dragonboat/v4/raftpb,github.com/lni/dragonboat/v4/internal/logdb

import (
	"github.com/cockroachdb/errors"

	"github.com/lni/dragonboat/v4/internal/logdb/kv"
	pb "github.com/lni/dragonboat/v4/raftpb"
)


var vInjected = errors.New("injected kv error")

type vWB struct{ n int }

func (w *vWB) Destroy()           {}
func (w *vWB) Put(k, v []byte)    { w.n++ }
func (w *vWB) Delete(k []byte)    { w.n++ }
func (w *vWB) Clear()             { w.n = 0 }
func (w *vWB) Count() int         { return w.n }

type vKV struct {
	failAt    int
	calls     int
	failed    bool
	committed int
}

func (k *vKV) step() error {
	k.calls++
	if k.calls == k.failAt {
		k.failed = true
		return vInjected
	}
	return nil
}
func (k *vKV) Name() string { return "vkv" }
func (k *vKV) Close() error { return nil }
func (k *vKV) IterateValue(fk []byte, lk []byte, inc bool, op func(key []byte, data []byte) (bool, error)) error {
	return k.step()
}
func (k *vKV) GetValue(key []byte, op func([]byte) error) error {
	if err := k.step(); err != nil {
		return err
	}
	return op(nil)
}
func (k *vKV) SaveValue(key []byte, value []byte) error { return k.step() }
func (k *vKV) DeleteValue(key []byte) error             { return k.step() }
func (k *vKV) GetWriteBatch() kv.IWriteBatch            { return &vWB{} }
func (k *vKV) CommitWriteBatch(wb kv.IWriteBatch) error {
	if err := k.step(); err != nil {
		return err
	}
	k.committed++
	return nil
}
func (k *vKV) BulkRemoveEntries(firstKey []byte, lastKey []byte) error { return k.step() }
func (k *vKV) CompactEntries(firstKey []byte, lastKey []byte) error    { return k.step() }
func (k *vKV) FullCompaction() error                                   { return k.step() }

//vcheck: reach=injected,success,done
func VHarness_C10_SaveErrProp() {
	kvs := &vKV{failAt: vChoose("failAt", 4)}
	cs := newCache()
	pool := newLogDBKeyPool()
	d := &db{cs: cs, keys: pool, kvs: kvs, entries: newPlainEntries(cs, pool, kvs)}
	ud := pb.Update{ShardID: 1, ReplicaID: 1,
		State:         pb.State{Term: 1, Vote: 1, Commit: 1},
		Snapshot:      pb.Snapshot{Index: 5, Term: 1},
		EntriesToSave: []pb.Entry{{Index: 6, Term: 1}},
	}
	ctx := newContext(1024, 1024*1024)
	err := d.saveRaftState([]pb.Update{ud}, ctx)
	if kvs.failed {
		vReach("injected")
		vAssert(err != nil, "error-propagated")
	}
	if err == nil {
		vReach("success")
		vAssert(kvs.committed == 1, "success-means-committed")
	}
	vReach("done")
}

//vcheck: reach=injected,success,done
func VHarness_C10_SaveSnapshotsErrProp() {
	kvs := &vKV{failAt: vChoose("failAt", 4)}
	cs := newCache()
	pool := newLogDBKeyPool()
	d := &db{cs: cs, keys: pool, kvs: kvs, entries: newPlainEntries(cs, pool, kvs)}
	ud := pb.Update{ShardID: 1, ReplicaID: 1, Snapshot: pb.Snapshot{Index: 5, Term: 1}}
	err := d.saveSnapshots([]pb.Update{ud})
	if kvs.failed {
		vReach("injected")
		vAssert(err != nil, "error-propagated")
	}
	if err == nil {
		vReach("success")
		vAssert(kvs.committed == 1, "success-means-committed")
	}
	vReach("done")
}
