package logdb

// C19 (persistent side) + C09 + C04/O3: the real LogReader - the raft core's
// window onto the log store - over the real db/plain/batched/cache code over
// the model KV, against the logical log defined by the operations performed:
// appends (incl. conflicting overwrites), snapshot installs (index inside or
// beyond the persisted range), local snapshot + compaction, restart (the calls
// node.replayLog makes on a fresh LogReader over a reopened store).

//vcheck:bounds logreader: one replica; optionally joined from a snapshot at index 3 or 7 (= 2*batch-1); then 3 operations out of {append 1-2 entries at last-1..last+1 (an overwrite starts with a different term at its first index, above the newest snapshot), install snapshot at last-1 / last+1 / last+3, local snapshot at an applied index + compaction, restart}; symbolic terms (1..127); plain and batched (batch size 4) formats; afterwards GetRange, Snapshot, Term(i) for every i in [marker-1, last+2] and Entries(low, high) for every low <= high in that range are compared with the logical log, before and after one more restart
//vcheck:assume logreader: terms never decrease along the logical log and across snapshots; an entry or snapshot arriving after the replica discarded an entry of term t (conflict truncation, snapshot install over a divergent tail) never carries term t again (Log Matching); a snapshot is installed only when the log does not already hold its last entry
//vcheck:stub logreader: pb.ICompactor = no-op; raftio.ILogDB adapter over the real internal db (only IterateEntries is used by LogReader); restart = the call sequence of node.replayLog (GetSnapshot, ApplySnapshot, ReadRaftState, SetState, SetRange) written out in the harness

import (
	"github.com/lni/dragonboat/v4/internal/raft"
	"github.com/lni/dragonboat/v4/raftio"
	pb "github.com/lni/dragonboat/v4/raftpb"
)

type vLRDB struct{ d *db }

func (v *vLRDB) Name() string                                        { return "vlrdb" }
func (v *vLRDB) Close() error                                        { return nil }
func (v *vLRDB) BinaryFormat() uint32                                { return v.d.binaryFormat() }
func (v *vLRDB) ListNodeInfo() ([]raftio.NodeInfo, error)            { panic("unused") }
func (v *vLRDB) SaveBootstrapInfo(uint64, uint64, pb.Bootstrap) error { panic("unused") }
func (v *vLRDB) GetBootstrapInfo(uint64, uint64) (pb.Bootstrap, error) {
	panic("unused")
}
func (v *vLRDB) SaveRaftState(updates []pb.Update, shardID uint64) error { panic("unused") }
func (v *vLRDB) IterateEntries(ents []pb.Entry, size uint64, shardID uint64, replicaID uint64, low uint64,
	high uint64, maxSize uint64) ([]pb.Entry, uint64, error) {
	return v.d.iterateEntries(ents, size, shardID, replicaID, low, high, maxSize)
}
func (v *vLRDB) ReadRaftState(shardID uint64, replicaID uint64, lastIndex uint64) (raftio.RaftState, error) {
	return v.d.readRaftState(shardID, replicaID, lastIndex)
}
func (v *vLRDB) RemoveEntriesTo(shardID uint64, replicaID uint64, index uint64) error {
	return v.d.removeEntriesTo(shardID, replicaID, index)
}
func (v *vLRDB) CompactEntriesTo(uint64, uint64, uint64) (<-chan struct{}, error) { panic("unused") }
func (v *vLRDB) SaveSnapshots(uds []pb.Update) error                               { return v.d.saveSnapshots(uds) }
func (v *vLRDB) GetSnapshot(shardID uint64, replicaID uint64) (pb.Snapshot, error) {
	return v.d.getSnapshot(shardID, replicaID)
}
func (v *vLRDB) RemoveNodeData(uint64, uint64) error      { panic("unused") }
func (v *vLRDB) ImportSnapshot(pb.Snapshot, uint64) error { panic("unused") }

type vCompactor struct{}

func (vCompactor) Compact(uint64) error { return nil }

// the logical log
type vLRModel struct {
	marker, mterm uint64
	ents          []pb.Entry // indexes marker+1 ...
	ssIndex       uint64     // newest snapshot record
	ssTerm        uint64
	state         pb.State
	// terms of entries this replica discarded (conflict truncation, snapshot
	// install over a divergent tail).  By Log Matching no log that made the
	// replica discard an entry of term t at index i holds an entry of term t
	// above i, so later appends never carry these terms again.
	discarded []uint64
}

func (m *vLRModel) discard(from uint64) {
	for i := from; i <= m.last(); i++ {
		if i > m.marker {
			m.discarded = append(m.discarded, m.termAt(i))
		}
	}
}

func (m *vLRModel) fresh(t uint64) {
	for _, d := range m.discarded {
		vAssume(t != d)
	}
}

func (m *vLRModel) last() uint64 { return m.marker + uint64(len(m.ents)) }
func (m *vLRModel) termAt(i uint64) uint64 {
	if i == m.marker {
		return m.mterm
	}
	return m.ents[i-m.marker-1].Term
}
func (m *vLRModel) lastTerm() uint64 { return m.termAt(m.last()) }

type vLRSys struct {
	store   *vStore
	batched bool
	d       *db
	lr      *LogReader
	ctx     IContext
	m       *vLRModel
}

func (s *vLRSys) save(ud pb.Update) {
	ud.ShardID, ud.ReplicaID = 1, 1
	vAssert(s.d.saveRaftState([]pb.Update{ud}, s.ctx) == nil, "save-ok")
	s.ctx.Reset()
}

// restart: reopened store (fresh cache), fresh LogReader, node.replayLog's calls.
func (s *vLRSys) restart() {
	s.d = vOpenDB(s.store, s.batched)
	s.lr = NewLogReader(1, 1, &vLRDB{s.d})
	s.lr.SetCompactor(vCompactor{})
	ss, err := s.d.getSnapshot(1, 1)
	vAssert(err == nil, "restart-get-snapshot-ok")
	if !pb.IsEmptySnapshot(ss) {
		vAssert(s.lr.ApplySnapshot(ss) == nil, "restart-apply-snapshot-ok")
	}
	rs, err := s.d.readRaftState(1, 1, ss.Index)
	if err == raftio.ErrNoSavedLog {
		vAssert(len(s.m.ents) == 0 && s.m.state.Term == 0, "restart-no-saved-log-only-when-nothing-was-saved")
		return
	}
	vAssert(err == nil, "restart-read-state-ok")
	if !pb.IsEmptyState(rs.State) {
		s.lr.SetState(rs.State)
	}
	s.lr.SetRange(rs.FirstIndex, rs.EntryCount)
	// what the restarted replica may rely on: everything above the newest
	// snapshot record (entries at or below it are folded into the snapshot)
	m := s.m
	if m.ssIndex > m.marker {
		if m.ssIndex <= m.last() {
			m.ents = append([]pb.Entry(nil), m.ents[m.ssIndex-m.marker:]...)
		} else {
			m.ents = nil
		}
		m.marker, m.mterm = m.ssIndex, m.ssTerm
	}
	st, _ := s.lr.NodeState()
	vAssert(st.Term == m.state.Term && st.Vote == m.state.Vote && st.Commit == m.state.Commit, "restart-hard-state-is-the-last-saved")
}

func (s *vLRSys) compare(tag string) {
	m := s.m
	first, last := s.lr.GetRange()
	vAssert(first == m.marker+1, tag+"first-index-is-the-logical-first")
	vAssert(last == m.last(), tag+"last-index-is-the-logical-last")
	vAssert(s.lr.Snapshot().Index == m.ssIndex, tag+"snapshot-is-the-newest-recorded")
	lo := uint64(0)
	if m.marker > 0 {
		lo = m.marker - 1
	}
	for i := lo; i <= m.last()+2; i++ {
		t, err := s.lr.Term(i)
		switch {
		case i < m.marker:
			vAssert(err == raft.ErrCompacted, tag+"term-below-marker-is-compacted")
		case i > m.last():
			vAssert(err == raft.ErrUnavailable, tag+"term-past-the-end-is-unavailable")
		default:
			vAssert(err == nil, tag+"term-available")
			vAssert(t == m.termAt(i), tag+"term-is-the-logical-term")
		}
	}
	for low := lo; low <= m.last()+1; low++ {
		for high := low; high <= m.last()+2; high++ {
			ents, err := s.lr.Entries(low, high, 1<<40)
			switch {
			case low <= m.marker:
				vAssert(err == raft.ErrCompacted, tag+"range-below-marker-is-compacted")
			case high > m.last()+1:
				vAssert(err == raft.ErrUnavailable, tag+"range-past-the-end-is-unavailable")
			default:
				vAssert(err == nil, tag+"range-available")
				vAssert(uint64(len(ents)) == high-low, tag+"range-complete")
				for k := range ents {
					vAssert(ents[k].Index == low+uint64(k), tag+"range-contiguous")
					vAssert(ents[k].Term == m.termAt(ents[k].Index), tag+"range-is-the-logical-log")
				}
			}
		}
	}
}

func vLRTerm(name string, min uint64) uint64 {
	t := vU64(name)
	vAssume(t >= min)
	vAssume(t >= 1)
	vAssume(t < 128)
	return t
}

//vcheck: props=C09,C04 reach=append,overwrite,install-inside,install-beyond,compacted,restarted,joined,done workers=16 steps=3000000 forbid="."
func VHarness_C19_LogReaderModel() {
	batchSize = 4
	s := &vLRSys{store: &vStore{}, ctx: newContext(1024, 1024*1024), m: &vLRModel{}}
	s.batched = vBool("batched")
	s.d = vOpenDB(s.store, s.batched)
	s.lr = NewLogReader(1, 1, &vLRDB{s.d})
	s.lr.SetCompactor(vCompactor{})
	m := s.m
	install := func(idx, term uint64) {
		ss := pb.Snapshot{Index: idx, Term: term}
		ud := pb.Update{Snapshot: ss}
		if m.state.Term < term {
			m.state.Term = term
		}
		m.state.Commit = idx
		ud.State = m.state
		s.save(ud)
		vAssert(s.lr.ApplySnapshot(ss) == nil, "apply-snapshot-ok")
		s.lr.SetState(m.state)
		m.marker, m.mterm, m.ents = idx, term, nil
		m.ssIndex, m.ssTerm = idx, term
	}
	switch vChoose("joined", 3) {
	case 1:
		vReach("joined")
		install(3, vLRTerm("jt", 1))
	case 2:
		vReach("joined")
		install(7, vLRTerm("jt", 1))
	}
	nops := 3
	restarted := false
	for op := 0; op < nops; op++ {
		switch vChoose("op", 4) {
		case 0: // append / overwrite
			last := m.last()
			lowest := m.marker + 1
			if last > lowest {
				lowest = last - 1
			}
			if m.ssIndex+1 > lowest {
				lowest = m.ssIndex + 1 // entries covered by a snapshot are committed: never overwritten
			}
			first := lowest + uint64(vChoose("first", int(last+1-lowest)+1))
			n := vChoose("n", 2) + 1
			min := m.termAt(first - 1)
			old := uint64(0)
			if first <= last {
				vReach("overwrite")
				old = m.termAt(first)
				m.discard(first)
			} else {
				vReach("append")
			}
			var es []pb.Entry
			for i := 0; i < n; i++ {
				min = vLRTerm("et", min)
				m.fresh(min)
				es = append(es, pb.Entry{Index: first + uint64(i), Term: min, Type: pb.ApplicationEntry, Cmd: []byte{byte(first) + byte(i)}})
			}
			// a conflict is an entry with the same index and a different term
			vAssume(es[0].Term != old)
			if m.state.Term < min {
				m.state.Term = min
			}
			s.save(pb.Update{EntriesToSave: es, State: m.state})
			vAssert(s.lr.Append(es) == nil, "append-ok")
			s.lr.SetState(m.state)
			m.ents = append(append([]pb.Entry(nil), m.ents[:first-m.marker-1]...), es...)
		case 1: // snapshot from the leader
			last := m.last()
			var idx uint64
			switch vChoose("where", 3) {
			case 0:
				vAssume(last >= 1 && last-1 > m.ssIndex)
				idx = last - 1
				vReach("install-inside")
			case 1:
				idx = last + 1
				vReach("install-beyond")
			default:
				idx = last + 3
				vReach("install-beyond")
			}
			// (a snapshot is only installed when the log does not hold its last entry
			// with the same term: a different term inside the range, anything beyond)
			// (snapshots cover committed prefixes, whose terms never decrease)
			floor := m.ssTerm
			if m.mterm > floor {
				floor = m.mterm
			}
			t := vLRTerm("st", floor)
			if idx <= last && idx > m.marker {
				vAssume(t != m.termAt(idx))
				m.discard(idx)
			}
			m.fresh(t)
			install(idx, t)
		case 2: // local snapshot at an applied index, then compaction below it
			last := m.last()
			vAssume(last > m.ssIndex && last > m.marker)
			lowest := m.marker + 1
			if m.ssIndex+1 > lowest {
				lowest = m.ssIndex + 1
			}
			ci := lowest + uint64(vChoose("ci", int(last-lowest)+1))
			ss := pb.Snapshot{Index: ci, Term: m.termAt(ci)}
			vAssert(s.d.saveSnapshots([]pb.Update{{ShardID: 1, ReplicaID: 1, Snapshot: ss}}) == nil, "save-snapshot-ok")
			vAssert(s.lr.CreateSnapshot(ss) == nil, "create-snapshot-ok")
			m.ssIndex, m.ssTerm = ci, ss.Term
			to := m.marker + uint64(vChoose("compactTo", int(ci-m.marker)+1))
			if to > m.marker {
				vReach("compacted")
				vAssert(s.lr.Compact(to) == nil, "compact-ok")
				vAssert(s.d.removeEntriesTo(1, 1, to) == nil, "remove-entries-ok")
				m.mterm = m.termAt(to)
				m.ents = append([]pb.Entry(nil), m.ents[to-m.marker:]...)
				m.marker = to
			}
		case 3:
			vAssume(!restarted && op > 0)
			restarted = true
			vReach("restarted")
			s.restart()
		}
	}
	s.compare("")
	s.restart()
	s.compare("restart-")
	vReach("done")
}
