package rsm

import (
	"github.com/lni/dragonboat/v4/client"
	pb "github.com/lni/dragonboat/v4/raftpb"
	sm "github.com/lni/dragonboat/v4/statemachine"
)

// vLocked user state machine: every call checks the lock the contract demands
// (engine intrinsic vLockState: -1 write-locked, n>0 readers, 0 free; natively
// the lock state is not observable and the checks are skipped).
type vLockedUSM struct {
	vUSM
}

func (s *vLockedUSM) wlocked(id string) {
	if vSymbolic() {
		vAssert(vLockState(&s.host.mu) == -1, id)
	}
}
func (s *vLockedUSM) rlocked(id string) {
	if vSymbolic() {
		vAssert(vLockState(&s.host.mu) != 0, id)
	}
}
func (s *vLockedUSM) Open() (uint64, error) {
	s.wlocked("U2-open-under-write-lock")
	return s.vUSM.Open()
}
func (s *vLockedUSM) Update(e sm.Entry) (sm.Result, error) {
	s.wlocked("U2-update-under-write-lock")
	return s.vUSM.Update(e)
}
func (s *vLockedUSM) BatchedUpdate(es []sm.Entry) ([]sm.Entry, error) {
	s.wlocked("U2-batched-update-under-write-lock")
	return s.vUSM.BatchedUpdate(es)
}
func (s *vLockedUSM) Sync() error {
	s.wlocked("U2-sync-under-write-lock")
	return s.vUSM.Sync()
}
func (s *vLockedUSM) Lookup(q interface{}) (interface{}, error) {
	s.rlocked("U2-plain-lookup-under-read-lock")
	return s.vUSM.Lookup(q)
}
func (s *vLockedUSM) NALookup(q []byte) ([]byte, error) {
	s.rlocked("U2-plain-nalookup-under-read-lock")
	return s.vUSM.NALookup(q)
}
func (s *vLockedUSM) Prepare() (interface{}, error) {
	s.rlocked("U2-prepare-under-lock")
	return nil, nil
}

type vLockedSnapshotter struct {
	vSnapshotter
	host *StateMachine
	plain bool
}

func (s *vLockedSnapshotter) Save(sv ISavable, meta SSMeta) (pb.Snapshot, SSEnv, error) {
	if vSymbolic() && s.plain {
		vAssert(vLockState(&s.host.mu) > 0, "U2-plain-save-under-read-lock")
	}
	return s.vSnapshotter.Save(&sv.(*vLockedUSM).vUSM, meta)
}
func (s *vLockedSnapshotter) Load(ss pb.Snapshot, sessions ILoadable, r IRecoverable) error {
	if vSymbolic() {
		vAssert(vLockState(&s.host.mu) == -1, "U2-recover-under-write-lock")
	}
	return s.vSnapshotter.Load(ss, sessions, &r.(*vLockedUSM).vUSM)
}

// C11/U2: every path into the user state machine holds the lock the threading
// contract requires: Update/Sync/Open/RecoverFromSnapshot under the write
// lock, plain-SM Lookup and SaveSnapshot under the read lock.
//vcheck: reach=update,lookup,save,recover,sync,open,done workers=8 replay=symbolic
func VHarness_C11_LockDiscipline() {
	vInitResults(3)
	kind := vChoose("smkind", 3) // 0 plain, 1 concurrent, 2 on-disk
	u := &vLockedUSM{}
	u.concurrent = kind >= 1
	u.onDisk = kind == 2
	node := &vNode{}
	sn := &vLockedSnapshotter{plain: kind == 0}
	s := &StateMachine{node: node, sm: u, snapshotter: sn, onDiskSM: u.onDisk, taskQ: NewTaskQueue(),
		sessions: &SessionManager{lru: newLRUSession(2)}, members: newMembership(1, 1, false)}
	u.host, sn.host = s, s
	s.members.members.Addresses[1] = "a1"
	s.index, s.term = vBase-1, 5
	s.lastApplied.index, s.lastApplied.term = vBase-1, 5
	if u.onDisk {
		_, err := s.OpenOnDiskStateMachine()
		vAssert(err == nil, "noerr")
		vReach("open")
	}
	// apply two entries (one through the batched path for concurrent state machines)
	s.taskQ.Add(Task{Entries: []pb.Entry{
		{Type: pb.ApplicationEntry, Index: vBase, Term: 5, ClientID: 77, Cmd: []byte{1}},
		{Type: pb.ApplicationEntry, Index: vBase + 1, Term: 5, ClientID: 77, Cmd: []byte{2}},
	}})
	_, err := s.Handle(nil, nil)
	vAssert(err == nil, "noerr")
	vAssert(len(u.updates) == 2, "both-applied")
	vReach("update")
	_, err = s.Lookup(nil)
	vAssert(err == nil, "noerr")
	_, err = s.NALookup(nil)
	vAssert(err == nil, "noerr")
	vReach("lookup")
	if u.onDisk {
		vAssert(s.Sync() == nil, "noerr")
		vAssert(u.synced == 1, "synced")
		vReach("sync")
	}
	ss, _, err := s.Save(SSRequest{Type: Exported})
	vAssert(err == nil, "save-noerr")
	vReach("save")
	// recover on a second instance of the same kind
	u2 := &vLockedUSM{}
	u2.concurrent, u2.onDisk = u.concurrent, u.onDisk
	sn2 := &vLockedSnapshotter{plain: kind == 0}
	sn2.img = sn.img
	s2 := &StateMachine{node: &vNode{self: 2}, sm: u2, snapshotter: sn2, onDiskSM: u2.onDisk, taskQ: NewTaskQueue(),
		sessions: &SessionManager{lru: newLRUSession(2)}, members: newMembership(1, 2, false)}
	u2.host, sn2.host = s2, s2
	sn2.img.ss.OnDiskIndex = ss.Index
	_, err = s2.Recover(Task{Recover: true, Index: ss.Index})
	vAssert(err == nil, "recover-noerr")
	vAssert(sn2.loads == 1, "recover-loaded")
	vReach("recover")
	vReach("done")
}

// C11/U1 (+C02/A1): across two task batches the user state machine sees every
// index exactly once in strictly increasing order; entries at or below the
// applied index are skipped; a gap is refused (fail-stop).
//vcheck: props=C02 reach=overlap,adjacent,done workers=8 allow="entry hole found|gap between batches|applied index"
func VHarness_C11_ApplyOrder() {
	vInitResults(6)
	node, u := &vNode{}, &vUSM{}
	s := vNewSM(u, node, &vSnapshotter{}, 2)
	s.index, s.term = vBase-1, 5
	s.lastApplied.index, s.lastApplied.term = vBase-1, 5
	a := vChoose("len1", 3) + 1
	b := vChoose("len2", 3) + 1
	off := vChoose("second-starts-at", a+2) // 0..a+1 relative to the first batch; a+1 = gap
	mk := func(from uint64, n int) []pb.Entry {
		var es []pb.Entry
		for i := 0; i < n; i++ {
			es = append(es, pb.Entry{Type: pb.ApplicationEntry, Index: from + uint64(i), Term: 5, ClientID: 77, Cmd: []byte{byte(from) + byte(i)}})
		}
		return es
	}
	if int(off)+b > 6 {
		b = 6 - int(off)
	}
	vAssume(b >= 1)
	s.taskQ.Add(Task{Entries: mk(vBase, a)})
	s.taskQ.Add(Task{Entries: mk(vBase+uint64(off), b)})
	_, err := s.Handle(nil, nil)
	vAssert(err == nil, "noerr")
	vAssert(off <= a, "A1-gap-must-fail-stop")
	last := a
	if off+b > last {
		last = off + b
	}
	vAssert(len(u.updates) == last, "A1-every-index-exactly-once")
	for i := range u.updates {
		vAssert(u.updates[i].index == vBase+uint64(i), "A1-strictly-increasing-by-one")
	}
	vAssert(s.index == vBase+uint64(last)-1 && s.GetLastApplied() == s.index, "A1-applied-index")
	if off < a {
		vReach("overlap")
	} else {
		vReach("adjacent")
	}
	vReach("done")
}

// C11 (+C07): an on-disk state machine is never handed an entry at or below
// the index it returned from Open, while membership changes and session
// bookkeeping in that range are still applied, so a restarted replica ends with
// the same membership and sessions as one that never stopped.
//vcheck: props=C07,C08 reach=skipped,done workers=8
func VHarness_C11_OnDiskRestart() {
	n := 3 + vTier()
	vInitResults(n)
	var ents []pb.Entry
	for i := 0; i < n; i++ {
		ents = append(ents, vTwinEntry(vBase+uint64(i)))
	}
	// the replica that never stopped
	nodeA, uA := &vNode{}, &vUSM{onDisk: true}
	A := vNewSM(uA, nodeA, &vSnapshotter{}, 2)
	A.index, A.term = vBase-1, 5
	A.lastApplied.index, A.lastApplied.term = vBase-1, 5
	vSeedSessions(A, false)
	seeded := vRefOf(A)
	A.taskQ.Add(Task{Entries: ents})
	_, err := A.Handle(nil, nil)
	vAssert(err == nil, "noerr")
	// the restarted one: its on-disk state already contains everything up to m
	m := vChoose("ondiskinit", n+1)
	nodeB, uB := &vNode{self: 1}, &vUSM{onDisk: true, openIndex: vBase - 1 + uint64(m)}
	B := vNewSM(uB, nodeB, &vSnapshotter{}, 2)
	B.index, B.term = vBase-1, 5
	B.lastApplied.index, B.lastApplied.term = vBase-1, 5
	for _, rs := range seeded.order {
		B.sessions.RegisterClientID(rs.id)
		ses, _ := B.sessions.ClientRegistered(rs.id)
		ses.RespondedUpTo = RaftSeriesID(rs.upTo)
		for i := range rs.hist {
			ses.History[RaftSeriesID(rs.hist[i])] = sessionResult(rs.histR[i])
		}
	}
	_, err = B.OpenOnDiskStateMachine()
	vAssert(err == nil, "noerr")
	B.taskQ.Add(Task{Entries: ents})
	_, err = B.Handle(nil, nil)
	vAssert(err == nil, "noerr")
	for i := range uB.updates {
		vAssert(uB.updates[i].index > vBase-1+uint64(m), "U1-ondisk-never-handed-entry-at-or-below-open-index")
	}
	if m > 0 {
		vReach("skipped")
	}
	vAssert(B.index == A.index, "ondisk-same-applied-index")
	vSameMembership(A.members.members, B.members.members, "ondisk-")
	// what raft was told about membership is the same on both replicas
	vAssert(len(nodeA.ccs) == len(nodeB.ccs), "ondisk-same-config-changes-reported")
	for i := range nodeA.ccs {
		if i < len(nodeB.ccs) {
			vAssert(nodeA.ccs[i].rejected == nodeB.ccs[i].rejected && nodeA.ccs[i].cc.ReplicaID == nodeB.ccs[i].cc.ReplicaID, "ondisk-same-config-change-outcome")
		}
	}
	vReach("done")
}

// C11 (on-disk state machine, batched apply path): the replayed tasks consist
// of plain NoOP-session proposals only, so the concurrent state machine takes
// the batched path (handleBatch); the task may start below, exactly at, or
// above the index the state machine returned from Open.  No entry at or below
// that index reaches the user state machine, every entry above it reaches it
// exactly once and in order.
//vcheck: reach=starts-at-open-index,starts-below,all-skipped,done workers=8 forbid=.
func VHarness_C11_OnDiskBatchedReplay() {
	n := 3
	vInitResults(n)
	var ents []pb.Entry
	for i := 0; i < n; i++ {
		idx := vBase + uint64(i)
		ents = append(ents, pb.Entry{Type: pb.ApplicationEntry, Index: idx, Term: 5, Key: idx * 7,
			ClientID: 77, SeriesID: client.NoOPSeriesID, Cmd: []byte{byte(idx)}}) // a NoOP session: any client id, series id 0
	}
	m := vChoose("ondiskinit", n+2) // open index = vBase-2 .. vBase+n-1
	open := vBase - 2 + uint64(m)
	nodeB, uB := &vNode{self: 1}, &vUSM{onDisk: true, concurrent: true, openIndex: open}
	B := vNewSM(uB, nodeB, &vSnapshotter{}, 2)
	B.index, B.term = vBase-1, 5
	B.lastApplied.index, B.lastApplied.term = vBase-1, 5
	_, err := B.OpenOnDiskStateMachine()
	vAssert(err == nil, "noerr")
	// one task, or two tasks split at a symbolic point
	cut := vChoose("taskcut", n+1)
	if cut > 0 && cut < n {
		B.taskQ.Add(Task{Entries: ents[:cut]})
		B.taskQ.Add(Task{Entries: ents[cut:]})
	} else {
		B.taskQ.Add(Task{Entries: ents})
	}
	_, err = B.Handle(make([]Task, 0, 4), make([]sm.Entry, 0, 4))
	vAssert(err == nil, "noerr")
	want := 0
	for i := range ents {
		if ents[i].Index > open {
			want++
		}
	}
	vAssert(len(uB.updates) == want, "U1-exactly-the-entries-above-the-open-index-are-delivered")
	prev := open
	for i := range uB.updates {
		vAssert(uB.updates[i].index > open, "U1-ondisk-never-handed-entry-at-or-below-open-index")
		vAssert(uB.updates[i].index > prev, "U1-strictly-increasing")
		prev = uB.updates[i].index
	}
	vAssert(B.index == vBase+uint64(n)-1, "applied-index-reaches-the-end")
	if open == vBase {
		vReach("starts-at-open-index")
	}
	if open > vBase && want > 0 {
		vReach("starts-below")
	}
	if want == 0 {
		vReach("all-skipped")
	}
	vReach("done")
}
