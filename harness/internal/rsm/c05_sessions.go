package rsm

import (
	"github.com/lni/dragonboat/v4/client"
	pb "github.com/lni/dragonboat/v4/raftpb"
)

// vRefHist returns (hit, result) for series in the model session, as terms.
func (s *vRefSession) lookup(series uint64, alive []bool) (bool, uint64) {
	hit := false
	res := uint64(0)
	for k := range s.hist {
		h := vAnd(alive[k], s.hist[k] == series)
		hit = vOr(hit, h)
		res = vIte(h, s.histR[k], res)
	}
	return hit, res
}

// vApplyAndCheck applies entry e to the real state machine and checks the
// at-most-once contract against the reference table ref (which it updates).
func vApplyAndCheck(s *StateMachine, u *vUSM, n *vNode, ref *vRef, e pb.Entry, tag string) {
	upd0, app0 := len(u.updates), len(n.applied)
	idx0 := s.index
	err := s.handleEntry(e, true)
	vAssert(err == nil, tag+"noerr")
	vAssert(s.index == idx0+1 && s.index == e.Index, tag+"index-advances-by-one")
	dUpd := len(u.updates) - upd0
	dApp := len(n.applied) - app0
	vAssert(dUpd <= 1 && dApp <= 1, tag+"at-most-one-update-and-one-completion-per-entry")
	var got vApplied
	if dApp == 1 {
		got = n.applied[app0]
		vAssert(got.index == e.Index && got.key == e.Key, tag+"completion-is-for-this-entry")
	}
	if dUpd == 1 {
		vAssert(u.updates[upd0].index == e.Index, tag+"update-carries-entry-index")
	}
	switch {
	case e.SeriesID == client.SeriesIDForRegister && e.ClientID != 0:
		vAssert(dUpd == 0, tag+"register-never-reaches-user-sm")
		vAssert(dApp == 1, tag+"register-completes")
		if ref.find(e.ClientID) != nil {
			vReach("register-dup")
			ref.touch(e.ClientID)
			vAssert(got.rejected && got.result == 0, tag+"duplicate-register-rejected")
		} else {
			vReach("register-new")
			vAssert(!got.rejected && got.result == e.ClientID, tag+"register-returns-client-id")
			ref.order = append(ref.order, &vRefSession{id: e.ClientID})
			if len(ref.order) > ref.cap {
				vReach("evicted")
				ref.order = ref.order[1:] // the least recently used session goes
			}
		}
	case e.SeriesID == client.SeriesIDForUnregister && e.ClientID != 0:
		vAssert(dUpd == 0, tag+"unregister-never-reaches-user-sm")
		vAssert(dApp == 1, tag+"unregister-completes")
		if ref.find(e.ClientID) != nil {
			vReach("unregister")
			vAssert(!got.rejected && got.result == e.ClientID, tag+"unregister-returns-client-id")
			ref.remove(e.ClientID)
		} else {
			vAssert(got.rejected, tag+"unregister-unknown-rejected")
		}
	case e.ClientID == 0:
		vAssert(dUpd == 0 && dApp == 1 && got.ignored, tag+"empty-entry-is-noop")
	case e.SeriesID == client.NoOPSeriesID:
		vReach("noop-session")
		vAssert(dUpd == 1 && dApp == 1 && !got.rejected && got.result == vResults[e.Index-vBase], tag+"noop-session-always-applied")
	default:
		rs := ref.find(e.ClientID)
		if rs == nil {
			vReach("unregistered")
			vAssert(dUpd == 0, tag+"unregistered-never-reaches-user-sm")
			vAssert(dApp == 1 && got.rejected, tag+"unregistered-rejected")
			return
		}
		ref.touch(e.ClientID)
		upTo := vIte(e.RespondedTo > rs.upTo, e.RespondedTo, rs.upTo)
		alive := make([]bool, len(rs.hist))
		for k := range rs.hist {
			alive[k] = rs.hist[k] > upTo
		}
		acked := e.SeriesID <= upTo
		hit, hitRes := rs.lookup(e.SeriesID, alive)
		// the contract, stated on the observed effects of this path
		vAssert(vImplies(acked, dUpd == 0 && dApp == 0), tag+"acknowledged-duplicate-ignored")
		vAssert(vImplies(vAnd(!acked, hit), dUpd == 0 && dApp == 1), tag+"cached-duplicate-not-applied-again")
		if dApp == 1 {
			vAssert(vImplies(vAnd(!acked, hit), vAnd(got.result == hitRes, !got.rejected)), tag+"cached-duplicate-returns-first-result")
		}
		vAssert(vImplies(vAnd(!acked, !hit), dUpd == 1 && dApp == 1), tag+"fresh-proposal-applied-exactly-once")
		if dUpd == 1 {
			vReach("fresh")
			vAssert(got.result == vResults[e.Index-vBase] && !got.rejected && !got.ignored, tag+"fresh-result-delivered")
		} else if dApp == 1 {
			vReach("cached")
		} else {
			vReach("acked")
		}
		// update the model
		var nh, nr []uint64
		for k := range rs.hist {
			// (entries at or below the watermark are gone: keep them with a dead
			// series id that can never be asked for again)
			nh = append(nh, vIte(alive[k], rs.hist[k], 0))
			nr = append(nr, rs.histR[k])
		}
		if dUpd == 1 {
			nh = append(nh, e.SeriesID)
			nr = append(nr, vResults[e.Index-vBase])
		}
		rs.hist, rs.histR, rs.upTo = nh, nr, upTo
	}
}

// vCompareTables checks that the real session table equals the model: same
// clients in the same LRU order, same watermark, same cached results.
func vCompareTables(s *StateMachine, ref *vRef, tag string) {
	real := vRefOf(s)
	vAssert(len(real.order) == len(ref.order), tag+"same-number-of-sessions")
	if len(real.order) != len(ref.order) {
		return
	}
	q := vU64("probeSeries")
	vAssume(q >= 1)
	for i := range ref.order {
		a, b := real.order[i], ref.order[i]
		vAssert(a.id == b.id, tag+"same-clients-same-lru-order")
		vAssert(a.upTo == b.upTo, tag+"same-acknowledged-watermark")
		alive := make([]bool, len(a.hist))
		for k := range alive {
			alive[k] = true
		}
		ha, ra := a.lookup(q, alive)
		aliveB := make([]bool, len(b.hist))
		for k := range aliveB {
			aliveB[k] = b.hist[k] != 0
		}
		hb, rb := b.lookup(q, aliveB)
		vAssert(ha == hb, tag+"same-cached-series")
		vAssert(vImplies(ha, ra == rb), tag+"same-cached-results")
	}
}

// C05: the at-most-once contract over a sequence of entries (register /
// unregister / update / retry / acknowledge), differential against the
// reference table, including LRU eviction with more clients than capacity.
//vcheck: reach=fresh,cached,acked,unregistered,register-new,register-dup,unregister,evicted,done workers=16
func VHarness_C05_Sequence() {
	n := 2 + vTier()
	vInitResults(n + 1)
	node, u := &vNode{}, &vUSM{}
	s := vNewSM(u, node, &vSnapshotter{}, 2)
	s.index, s.term = vBase-1, 5
	vSeedSessions(s, vBool("twoClients"))
	ref := vRefOf(s)
	for i := 0; i < n; i++ {
		e := vSessionEntry(vBase+uint64(i), 3)
		vApplyAndCheck(s, u, node, ref, e, "")
	}
	vCompareTables(s, ref, "")
	// at most one Update per (client, series) over the whole run is implied by the
	// per-entry contract; check it directly on the recorded calls as well
	for i := range u.updates {
		for j := i + 1; j < len(u.updates); j++ {
			vAssert(u.updates[i].index < u.updates[j].index, "updates-in-index-order")
		}
	}
	vReach("done")
}

// C05: a retry of the same (client, series) placed anywhere later in the log
// returns the result of the single application, and once acknowledged it is ignored.
//vcheck: reach=retry-same,late-dup-ignored,done workers=8
func VHarness_C05_Retry() {
	vInitResults(5)
	node, u := &vNode{}, &vUSM{}
	s := vNewSM(u, node, &vSnapshotter{}, 2)
	s.index, s.term = vBase-1, 5
	vSeedSessions(s, false)
	ses, _ := s.sessions.ClientRegistered(10)
	series := vU64("series")
	vAssume(series > uint64(ses.RespondedUpTo))
	vAssume(series < 1<<62)
	for sid := range ses.History {
		vAssume(uint64(sid) != series) // a fresh proposal
	}
	e1 := pb.Entry{Type: pb.ApplicationEntry, Index: vBase, Term: 5, Key: 1, ClientID: 10, SeriesID: series, RespondedTo: uint64(ses.RespondedUpTo), Cmd: []byte{1}}
	vAssert(s.handleEntry(e1, true) == nil, "noerr")
	vAssert(len(u.updates) == 1 && len(node.applied) == 1, "first-applied-once")
	r1 := node.applied[0].result
	// something else in between
	mid := vSessionEntry(vBase+1, 3)
	vAssume(!(mid.ClientID == 10 && (mid.SeriesID == client.SeriesIDForUnregister || mid.RespondedTo >= series)))
	if mid.ClientID == 10 && mid.SeriesID < 1<<62 {
		vAssume(mid.SeriesID != series)
	}
	vAssert(s.handleEntry(mid, true) == nil, "noerr")
	nu, na := len(u.updates), len(node.applied)
	// the retry, same series, at a later index
	e2 := e1
	e2.Index, e2.Key = vBase+2, 2
	vAssert(s.handleEntry(e2, true) == nil, "noerr")
	vReach("retry-same")
	vAssert(len(u.updates) == nu, "retry-not-applied-again")
	vAssert(len(node.applied) == na+1 && node.applied[na].result == r1 && !node.applied[na].rejected, "retry-returns-first-result")
	// the client acknowledges the result; a late duplicate is then ignored
	ack := pb.Entry{Type: pb.ApplicationEntry, Index: vBase + 3, Term: 5, Key: 3, ClientID: 10, SeriesID: series + 1, RespondedTo: series, Cmd: []byte{3}}
	vAssert(s.handleEntry(ack, true) == nil, "noerr")
	nu, na = len(u.updates), len(node.applied)
	e3 := e1
	e3.Index, e3.Key = vBase+4, 4
	vAssert(s.handleEntry(e3, true) == nil, "noerr")
	vAssert(len(u.updates) == nu && len(node.applied) == na, "late-duplicate-ignored-after-ack")
	vReach("late-dup-ignored")
	vReach("done")
}
