package rsm

//vcheck:tags noasm
//vcheck:bounds encoded entry (snappy): 1..8 symbolic bytes (literal-only blocks) or concrete repetitive payloads of 17/40/64/200 bytes with period 1..5 (blocks with copies); golang/snappy pure-Go encode/decode (build tag noasm) stands in for the amd64 assembly of the production build
//vcheck:bounds encoded entry: payload of 1..4 symbolic bytes, caller buffer shorter / exact / longer than needed, no compression (Snappy block compression is outside); plain application and config-change entries pass through

import (
	"github.com/lni/dragonboat/v4/internal/utils/dio"

	pb "github.com/lni/dragonboat/v4/raftpb"
)

// C13 (entry payload encoding): GetPayload(GetEncoded(cmd)) == cmd, also when
// the caller supplies a scratch buffer, and the encoded form does not alias
// into anything but that buffer.
//vcheck: reach=own-buffer,caller-buffer,plain,done workers=4
func VHarness_C13_EncodedPayload() {
	n := 1 + vChoose("len", 4)
	cmd := make([]byte, n)
	for i := range cmd {
		cmd[i] = vU8("c")
	}
	var dst []byte
	switch vChoose("dst", 3) {
	case 0:
		vReach("own-buffer")
	case 1:
		dst = make([]byte, n) // one short
	case 2:
		dst = make([]byte, n+3)
		vReach("caller-buffer")
	}
	enc := GetEncoded(dio.NoCompression, cmd, dst)
	vAssert(len(enc) == n+1, "encoded-length")
	got, err := GetPayload(pb.Entry{Type: pb.EncodedEntry, Cmd: enc})
	vAssert(err == nil && len(got) == n, "decoded-length")
	for i := range got {
		vAssert(got[i] == cmd[i], "payload-identical")
	}
	// other entry types carry their payload as is
	for _, t := range []pb.EntryType{pb.ApplicationEntry, pb.ConfigChangeEntry} {
		p, err := GetPayload(pb.Entry{Type: t, Cmd: cmd})
		vAssert(err == nil && len(p) == n, "plain-length")
		for i := range p {
			vAssert(p[i] == cmd[i], "plain-identical")
		}
	}
	vReach("plain")
	vReach("done")
}

// C13 ("entry payload encoding with or without compression returns the
// original payload"): the Snappy branch of GetEncoded / GetPayload - header
// byte, uncompressed-size varint, dio.CompressSnappyBlock /
// DecompressSnappyBlock - with golang/snappy's pure-Go encoder and decoder
// (build tag noasm; on amd64 the production build links the assembly
// implementation of the same two functions, which cannot be executed
// symbolically: their equivalence to the pure-Go versions is assumed).
//vcheck: reach=literal-only,with-copies,caller-buffer,done workers=8 steps=3000000
func VHarness_C13_EncodedSnappy() {
	var cmd []byte
	if vBool("short") {
		// below snappy's minimum block size for match search: literal only, bytes symbolic
		n := 1 + vChoose("len", 8)
		cmd = make([]byte, n)
		for i := range cmd {
			cmd[i] = vU8("c")
		}
		vReach("literal-only")
	} else {
		// repetitive concrete payloads (the match finder indexes a hash table with
		// the data, which symbolic bytes would turn into a 16384-way fork)
		n := []int{17, 40, 64, 200}[vChoose("size", 4)]
		period := 1 + vChoose("period", 5)
		cmd = make([]byte, n)
		for i := range cmd {
			cmd[i] = byte(i%period) + 0x30
		}
		vReach("with-copies")
	}
	var dst []byte
	if vBool("callerBuffer") {
		dst = make([]byte, 3)
		vReach("caller-buffer")
	}
	saved := append([]byte(nil), cmd...)
	enc := GetEncoded(dio.Snappy, cmd, dst)
	ver, ct, hasSession := parseEncodedHeader(enc)
	vAssert(ver == EEV0 && ct == EESnappy && !hasSession, "snappy-header")
	for i := range cmd {
		vAssert(cmd[i] == saved[i], "input-not-modified")
	}
	var buf []byte
	if vBool("decodeBuffer") {
		buf = make([]byte, len(cmd)+2)
	}
	got, err := getDecodedPayload(enc, buf)
	vAssert(err == nil, "decode-ok")
	vAssert(len(got) == len(cmd), "decoded-length")
	if len(got) == len(cmd) {
		for i := range got {
			vAssert(got[i] == saved[i], "payload-identical")
		}
	}
	e := pb.Entry{Type: pb.EncodedEntry, Cmd: enc}
	p, err := GetPayload(e)
	vAssert(err == nil && len(p) == len(cmd), "get-payload-ok")
	vReach("done")
}
