package rsm

//vcheck:bounds encoded entry: payload of 1..4 symbolic bytes, caller buffer shorter / exact / longer than needed, no compression (Snappy block compression is outside); plain application and config-change entries pass through

import (
	"github.com/lni/dragonboat/v4/internal/utils/dio"

	pb "github.com/lni/dragonboat/v4/raftpb"
)

// C13 (entry payload encoding): GetPayload(GetEncoded(cmd)) == cmd, also when
// the caller supplies a scratch buffer, and the encoded form does not alias
// into anything but that buffer.
//vcheck: reach=own-buffer,caller-buffer,plain,done workers=4
func VHarness_C13_EncodedPayload() {
	n := 1 + vChoose("len", 4)
	cmd := make([]byte, n)
	for i := range cmd {
		cmd[i] = vU8("c")
	}
	var dst []byte
	switch vChoose("dst", 3) {
	case 0:
		vReach("own-buffer")
	case 1:
		dst = make([]byte, n) // one short
	case 2:
		dst = make([]byte, n+3)
		vReach("caller-buffer")
	}
	enc := GetEncoded(dio.NoCompression, cmd, dst)
	vAssert(len(enc) == n+1, "encoded-length")
	got, err := GetPayload(pb.Entry{Type: pb.EncodedEntry, Cmd: enc})
	vAssert(err == nil && len(got) == n, "decoded-length")
	for i := range got {
		vAssert(got[i] == cmd[i], "payload-identical")
	}
	// other entry types carry their payload as is
	for _, t := range []pb.EntryType{pb.ApplicationEntry, pb.ConfigChangeEntry} {
		p, err := GetPayload(pb.Entry{Type: t, Cmd: cmd})
		vAssert(err == nil && len(p) == n, "plain-length")
		for i := range p {
			vAssert(p[i] == cmd[i], "plain-identical")
		}
	}
	vReach("plain")
	vReach("done")
}
