package rsm

import (
	"io"

	"github.com/lni/dragonboat/v4/internal/vfs"
	pb "github.com/lni/dragonboat/v4/raftpb"
)

//vcheck: reach=done workers=4 tier=thorough
func VHarness_C14_MemFSProbe() {
	fs := vfs.NewMemFS()
	n := vChoose("n", 3)
	data := make([]byte, n)
	for i := range data {
		data[i] = vU8("d")
	}
	w, err := NewSnapshotWriter("ss", pb.NoCompression, fs)
	vAssert(err == nil, "create-ok")
	_, err = w.Write(data)
	vAssert(err == nil, "write-ok")
	vAssert(w.Close() == nil, "close-ok")
	r, h, err := NewSnapshotReader("ss", fs)
	vAssert(err == nil, "open-ok")
	vAssert(h.Version == uint64(V2), "version")
	got := make([]byte, n)
	m, err := io.ReadFull(r, got)
	vAssert(err == nil && m == n, "read-ok")
	for i := range data {
		vAssert(got[i] == data[i], "bytes-identical")
	}
	vAssert(r.Close() == nil, "rclose")
	vReach("done")
}
