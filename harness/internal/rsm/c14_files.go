package rsm

import (
	"github.com/lni/dragonboat/v4/internal/utils/dio"
	"io"
	"os"
	"time"

	gvfs "github.com/lni/vfs"

	pb "github.com/lni/dragonboat/v4/raftpb"
)

// ---- in-memory single-directory FS stub ----

var vErrNotExist = io.ErrNoProgress

type vFile struct {
	fs   *vFS
	name string
	pos  int
}

type vInfo struct {
	name string
	size int64
	dir  bool
}

func (i vInfo) Name() string       { return i.name }
func (i vInfo) Size() int64        { return i.size }
func (i vInfo) Mode() os.FileMode  { return 0 }
func (i vInfo) ModTime() time.Time { return time.Time{} }
func (i vInfo) IsDir() bool        { return i.dir }
func (i vInfo) Sys() interface{}   { return nil }

func (f *vFile) Read(p []byte) (int, error) {
	d := f.fs.files[f.name]
	if f.pos >= len(d) {
		return 0, io.EOF
	}
	n := copy(p, d[f.pos:])
	f.pos += n
	return n, nil
}
func (f *vFile) ReadAt(p []byte, off int64) (int, error) {
	d := f.fs.files[f.name]
	if int(off) >= len(d) {
		return 0, io.EOF
	}
	n := copy(p, d[off:])
	if n < len(p) {
		return n, io.EOF
	}
	return n, nil
}
func (f *vFile) Write(p []byte) (int, error) {
	d := f.fs.files[f.name]
	for len(d) < f.pos+len(p) {
		d = append(d, 0)
	}
	copy(d[f.pos:], p)
	f.pos += len(p)
	f.fs.files[f.name] = d
	return len(p), nil
}
func (f *vFile) WriteAt(p []byte, off int64) (int, error) {
	d := f.fs.files[f.name]
	for len(d) < int(off)+len(p) {
		d = append(d, 0)
	}
	copy(d[off:], p)
	f.fs.files[f.name] = d
	return len(p), nil
}
func (f *vFile) Seek(offset int64, whence int) (int64, error) { panic("seek") }
func (f *vFile) Close() error                                  { return nil }
func (f *vFile) Sync() error                                   { return nil }
func (f *vFile) Stat() (os.FileInfo, error) {
	return vInfo{name: f.name, size: int64(len(f.fs.files[f.name]))}, nil
}

type vFS struct {
	files map[string][]byte
}

func (s *vFS) Create(name string) (gvfs.File, error) {
	s.files[name] = nil
	return &vFile{fs: s, name: name}, nil
}
func (s *vFS) Link(oldname, newname string) error { panic("link") }
func (s *vFS) Open(name string, opts ...gvfs.OpenOption) (gvfs.File, error) {
	if _, ok := s.files[name]; !ok {
		return nil, vErrNotExist
	}
	return &vFile{fs: s, name: name}, nil
}
func (s *vFS) OpenDir(name string) (gvfs.File, error)       { panic("opendir") }
func (s *vFS) OpenForAppend(name string) (gvfs.File, error) { panic("append") }
func (s *vFS) Remove(name string) error                     { delete(s.files, name); return nil }
func (s *vFS) RemoveAll(name string) error                  { panic("removeall") }
func (s *vFS) Rename(oldname, newname string) error {
	s.files[newname] = s.files[oldname]
	delete(s.files, oldname)
	return nil
}
func (s *vFS) ReuseForWrite(oldname, newname string) (gvfs.File, error) { panic("reuse") }
func (s *vFS) MkdirAll(dir string, perm os.FileMode) error              { return nil }
func (s *vFS) Lock(name string) (io.Closer, error)                      { panic("lock") }
func (s *vFS) List(dir string) ([]string, error)                        { panic("list") }
func (s *vFS) Stat(name string) (os.FileInfo, error) {
	d, ok := s.files[name]
	if !ok {
		return nil, vErrNotExist
	}
	return vInfo{name: name, size: int64(len(d))}, nil
}
func (s *vFS) PathBase(path string) string                  { return path }
func (s *vFS) PathJoin(elem ...string) string               { return elem[len(elem)-1] }
func (s *vFS) PathDir(path string) string                   { return "." }
func (s *vFS) GetDiskUsage(path string) (gvfs.DiskUsage, error) { panic("du") }

func vWriteSnapshot(fs *vFS, data []byte) {
	w, err := NewSnapshotWriter("ss", pb.NoCompression, fs)
	if err != nil {
		panic(err)
	}
	if _, err := w.Write(data); err != nil {
		panic(err)
	}
	if err := w.Close(); err != nil {
		panic(err)
	}
}

//vcheck: reach=done
func VHarness_C14_SnapshotRoundTrip() {
	n := vChoose("n", 4)
	data := make([]byte, n)
	for i := range data {
		data[i] = vU8("d")
	}
	fs := &vFS{files: map[string][]byte{}}
	vWriteSnapshot(fs, data)
	file := fs.files["ss"]
	vAssert(uint64(len(file)) == GetV2PayloadSize(uint64(n))+HeaderSize, "file-size")
	r, h, err := NewSnapshotReader("ss", fs)
	vAssert(err == nil, "open-ok")
	vAssert(h.Version == uint64(V2) && h.CompressionType == pb.NoCompression, "header-fields")
	got := make([]byte, n)
	m, err := io.ReadFull(r, got)
	vAssert(err == nil && m == n, "read-ok")
	for i := range data {
		vAssert(got[i] == data[i], "bytes-identical")
	}
	one := make([]byte, 1)
	_, err = r.Read(one)
	vAssert(err != nil, "eof-after-payload")
	vAssert(r.Close() == nil, "close-ok")
	vReach("done")
}

// one bit (or one whole byte) of the header region altered: the read fails, or the
// payload and the header fields the loader acts on are unchanged
// selftest=off: the header carries the wall-clock time (UnreliableTime), so its
// checksum bytes differ between the executor (fixed clock) and a native rerun;
// when the flipped bit lengthens the header by four bytes those checksum bytes
// are parsed as protobuf fields, and whether that parse fails ("detected") or
// yields unknown fields ("undetected", everything the loader acts on unchanged)
// legitimately differs between the two runs - both outcomes satisfy the oracle.
// Counterexamples are still replayed natively.
//vcheck: reach=detected,undetected,done selftest=off
func VHarness_C14_SnapshotHeaderFlip() {
	n := 2
	// concrete payload: its checksum is part of the header, and symbolic header
	// bytes make the protobuf parser fork on every shifted field boundary
	data := []byte{0x11, 0x22}
	fs := &vFS{files: map[string][]byte{}}
	vWriteSnapshot(fs, data)
	file := fs.files["ss"]
	hlen := int(file[0]) // header shorter than 256 bytes
	pos := vChoose("pos", 8+hlen+6)
	// one flipped bit, or the whole byte inverted (an arbitrary 8-bit mask
	// multiplies the protobuf parse paths beyond reach: ~10^6 paths)
	mask := byte(0xff)
	if b := vChoose("bit", 9); b < 8 {
		mask = 1 << uint(b)
	}
	file[pos] ^= mask
	fs.files["ss"] = file
	failed := false
	var hdr pb.SnapshotHeader
	got := make([]byte, n)
	func() {
		defer func() {
			if r := recover(); r != nil {
				failed = true
			}
		}()
		r, h, err := NewSnapshotReader("ss", fs)
		if err != nil {
			failed = true
			return
		}
		hdr = h
		if m, err := io.ReadFull(r, got); err != nil || m != n {
			failed = true
			return
		}
		if err := r.Close(); err != nil {
			failed = true
		}
	}()
	if failed {
		vReach("detected")
	} else {
		vReach("undetected")
		for i := range data {
			vAssert(got[i] == data[i], "flip-undetected-but-identical")
		}
		vAssert(hdr.CompressionType == pb.NoCompression, "compression-type-unchanged")
		vAssert(hdr.Version == uint64(V2), "version-unchanged")
	}
	vReach("done")
}

// C14 (shrunk snapshots): whatever the original snapshot file recorded in its
// header (compression type, payload), the file ShrinkSnapshot produces is a
// well-formed snapshot file that is recognised as shrunk, declares no
// compression (the loader picks the decompressor from the header), carries
// exactly the empty session table as payload and validates on close; the
// original is not recognised as shrunk.  ReplaceSnapshot puts it in place.
//vcheck: reach=shrunk,replaced,done workers=8
func VHarness_C14_Shrink() {
	n := vChoose("n", 3)
	// an on-disk state machine's snapshot: session table + (n bytes of) user data
	data := append(append([]byte(nil), GetEmptyLRUSession()...), make([]byte, n)...)
	for i := 0; i < n; i++ {
		data[len(data)-n+i] = vU8("d")
	}
	ct := pb.NoCompression
	if vBool("snappyHeader") {
		// the writer only records the type; compression itself is applied by the
		// caller around the writer (not in scope here)
		ct = pb.Snappy
	}
	fs := &vFS{files: map[string][]byte{}}
	w, err := NewSnapshotWriter("ss", ct, fs)
	vAssert(err == nil, "create-ok")
	_, err = w.Write(data)
	vAssert(err == nil, "write-ok")
	vAssert(w.Close() == nil, "close-ok")
	if n > 0 {
		shrunk, err := IsShrunkSnapshotFile("ss", fs)
		vAssert(err == nil && !shrunk, "full-snapshot-is-not-shrunk")
	}
	vAssert(ShrinkSnapshot("ss", "ss.shrunk", fs) == nil, "shrink-ok")
	vReach("shrunk")
	check := func(name string, tag string) {
		shrunk, err := IsShrunkSnapshotFile(name, fs)
		vAssert(err == nil && shrunk, tag+"recognised-as-shrunk")
		r, h, err := NewSnapshotReader(name, fs)
		vAssert(err == nil, tag+"open-ok")
		vAssert(h.CompressionType == pb.NoCompression, tag+"shrunk-file-declares-no-compression")
		vAssert(h.Version == uint64(V2), tag+"version")
		empty := GetEmptyLRUSession()
		got := make([]byte, len(empty))
		m, err := io.ReadFull(r, got)
		vAssert(err == nil && m == len(empty), tag+"payload-readable")
		for i := range empty {
			vAssert(got[i] == empty[i], tag+"payload-is-the-empty-session-table")
		}
		one := make([]byte, 1)
		_, err = r.Read(one)
		vAssert(err != nil, tag+"nothing-after-the-session-table")
		vAssert(r.Close() == nil, tag+"validates-on-close")
	}
	check("ss.shrunk", "")
	vAssert(ReplaceSnapshot("ss.shrunk", "ss", fs) == nil, "replace-ok")
	vReach("replaced")
	check("ss", "replaced-")
	_, still := fs.files["ss.shrunk"]
	vAssert(!still, "temporary-file-gone")
	vReach("done")
}

// C14 (compression, read sizes): the writer / reader chains are the ones
// snapshotter.Save and snapshotter.Load build (counted writer + optional
// Snappy stream compressor over the snapshot writer; optional decompressor
// over the snapshot reader).  The payload goes in as two writes split at a
// symbolic point and comes back through reads of a symbolic size until EOF
// (what a state machine using io.ReadAll / io.Copy does): byte-identical, and
// the size recorded for the file is the size of the file.
//vcheck: reach=plain,snappy,short-last-read,done workers=16 bounds=compressed-stream:|payload|11|concrete|bytes|(Snappy|matching|on|symbolic|bytes|forks|per|hash|probe),|write|split|0..11|and|read|buffer|size|1..5|symbolic
func VHarness_C14_CompressedStream() {
	payload := []byte{7, 7, 7, 7, 1, 2, 3, 7, 7, 7, 9}
	n := len(payload)
	ct := pb.NoCompression
	if vBool("snappy") {
		ct = pb.Snappy
		vReach("snappy")
	} else {
		vReach("plain")
	}
	fs := &vFS{files: map[string][]byte{}}
	w, err := NewSnapshotWriter("ss", ct, fs)
	vAssert(err == nil, "writer-ok")
	cw := dio.NewCountedWriter(w)
	sw := dio.NewCompressor(ct, cw)
	k := vChoose("split", n+1)
	m1, err := sw.Write(payload[:k])
	vAssert(err == nil && m1 == k, "first-write-ok")
	m2, err := sw.Write(payload[k:])
	vAssert(err == nil && m2 == n-k, "second-write-ok")
	vAssert(sw.Close() == nil, "close-ok")
	file := fs.files["ss"]
	vAssert(uint64(len(file)) == w.GetPayloadSize(cw.BytesWritten())+HeaderSize, "recorded-file-size-is-the-file-size")
	r, h, err := NewSnapshotReader("ss", fs)
	vAssert(err == nil, "open-ok")
	vAssert(h.CompressionType == ct, "header-compression-type")
	cr := dio.NewDecompressor(ct, r)
	bs := 1 + vChoose("readsize", 5)
	var got []byte
	for i := 0; i < n+2; i++ {
		buf := make([]byte, bs)
		c, err := cr.Read(buf)
		vAssert(c >= 0 && c <= bs, "read-count-in-range")
		got = append(got, buf[:c]...)
		if c > 0 && c < bs {
			vReach("short-last-read")
		}
		if err != nil {
			vAssert(err == io.EOF, "only-eof")
			break
		}
	}
	vAssert(len(got) == n, "whole-payload-read-back")
	if len(got) == n {
		for i := range payload {
			vAssert(got[i] == payload[i], "bytes-identical")
		}
	}
	vAssert(cr.Close() == nil, "reader-close-validates")
	vReach("done")
}
