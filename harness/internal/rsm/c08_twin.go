package rsm

import (
	"github.com/lni/dragonboat/v4/client"
	pb "github.com/lni/dragonboat/v4/raftpb"
)

// vTwinEntry: session entries plus membership changes (concrete variants).
// In the quick tier each slot of the batch offers a small, different menu so
// that the product over the batch stays tractable.
func vTwinEntry(index uint64) pb.Entry {
	slot := int(index - vBase)
	mkCC := func(v int) pb.Entry {
		var cc pb.ConfigChange
		switch v {
		case 0:
			cc = pb.ConfigChange{Type: pb.AddNode, ReplicaID: 4, Address: "a4"}
		case 1:
			cc = pb.ConfigChange{Type: pb.RemoveNode, ReplicaID: 3}
		case 2:
			cc = pb.ConfigChange{Type: pb.AddNonVoting, ReplicaID: 5, Address: "a5"}
		}
		return pb.Entry{Type: pb.ConfigChangeEntry, Index: index, Term: 5, Key: index * 7, Cmd: pb.MustMarshal(&cc)}
	}
	upd := func(cid uint64) pb.Entry {
		e := pb.Entry{Type: pb.ApplicationEntry, Index: index, Term: 5, Key: index * 7, ClientID: cid, Cmd: []byte{byte(index)}}
		e.SeriesID = vU64("series")
		vAssume(e.SeriesID >= 1)
		vAssume(e.SeriesID < 1<<62)
		e.RespondedTo = vU64("respondedTo")
		vAssume(e.RespondedTo < e.SeriesID)
		return e
	}
	special := func(cid, series uint64) pb.Entry {
		return pb.Entry{Type: pb.ApplicationEntry, Index: index, Term: 5, Key: index * 7, ClientID: cid, SeriesID: series}
	}
	if vTier() > 0 {
		if vBool("isConfigChange") {
			return mkCC(vChoose("ccvariant", 3))
		}
		return vSessionEntry(index, 4)
	}
	switch slot % 3 {
	case 0:
		switch vChoose("menu0", 3) {
		case 0:
			return upd(10)
		case 1:
			return special(20, client.SeriesIDForRegister)
		}
		return special(10, client.SeriesIDForUnregister)
	case 1:
		switch vChoose("menu1", 3) {
		case 0:
			return mkCC(0)
		case 1:
			return mkCC(1)
		}
		return upd(10)
	}
	switch vChoose("menu2", 3) {
	case 0:
		return upd(10)
	case 1:
		return upd(20)
	}
	return special(30, client.SeriesIDForRegister)
}

func vSameMembership(a, b pb.Membership, tag string) {
	vAssert(a.ConfigChangeId == b.ConfigChangeId, tag+"same-config-change-id")
	for _, pr := range [][2]map[uint64]string{{a.Addresses, b.Addresses}, {a.NonVotings, b.NonVotings}, {a.Witnesses, b.Witnesses}} {
		vAssert(len(pr[0]) == len(pr[1]), tag+"same-member-count")
		for k, v := range pr[0] {
			w, ok := pr[1][k]
			vAssert(ok && v == w, tag+"same-members")
		}
	}
	vAssert(len(a.Removed) == len(b.Removed), tag+"same-removed-count")
	for k := range a.Removed {
		vAssert(b.Removed[k], tag+"same-removed")
	}
}

// C08/T1 (+C05 snapshot clause, C11/U1): replica A applies e1..en taking a
// snapshot after a symbolic cut k; replica B (which may already have applied a
// prefix j <= k, like a lagging follower) recovers from that snapshot and is
// then handed the whole batch.  B must end in exactly A's state, entries <= k
// must not reach B's user state machine again.
//vcheck: props=C05,C11,C02 reach=fresh-follower,lagging-follower,restart,done workers=16
func VHarness_C08_Twin() {
	n := 3 + vTier()
	vInitResults(n)
	var ents []pb.Entry
	for i := 0; i < n; i++ {
		ents = append(ents, vTwinEntry(vBase+uint64(i)))
	}
	// replica A
	nodeA, uA, snA := &vNode{}, &vUSM{}, &vSnapshotter{}
	A := vNewSM(uA, nodeA, snA, 2)
	A.index, A.term = vBase-1, 5
	A.lastApplied.index, A.lastApplied.term = vBase-1, 5
	seedTwo := false
	if vTier() > 0 {
		seedTwo = vBool("twoClients")
	}
	vSeedSessions(A, seedTwo)
	seeded := vRefOf(A) // B starts from the same table
	k := vChoose("cut", n+1)
	A.taskQ.Add(Task{Entries: ents[:k]})
	_, err := A.Handle(nil, nil)
	vAssert(err == nil, "noerr")
	ssA, _, err := A.Save(SSRequest{})
	vAssert(err == nil, "save-noerr")
	vAssert(ssA.Index == vBase-1+uint64(k), "T1-snapshot-index-is-applied-index")
	A.taskQ.Add(Task{Entries: ents[k:]})
	_, err = A.Handle(nil, nil)
	vAssert(err == nil, "noerr")
	// replica B
	nodeB, uB := &vNode{self: 2}, &vUSM{}
	B := vNewSM(uB, nodeB, snA, 2)
	B.index, B.term = vBase-1, 5
	B.lastApplied.index, B.lastApplied.term = vBase-1, 5
	for _, rs := range seeded.order {
		B.sessions.RegisterClientID(rs.id)
		ses, _ := B.sessions.ClientRegistered(rs.id)
		ses.RespondedUpTo = RaftSeriesID(rs.upTo)
		for i := range rs.hist {
			ses.History[RaftSeriesID(rs.hist[i])] = sessionResult(rs.histR[i])
		}
	}
	j := 0
	initial := false
	switch vChoose("bmode", 3) {
	case 0:
		vAssume(k >= 1) // a snapshot at or below the follower's applied index is refused as out of date
		vReach("fresh-follower")
	case 1:
		// lagging follower: has applied a strict prefix before the snapshot arrives
		vAssume(k >= 1)
		j = vChoose("prefix", k)
		vReach("lagging-follower")
	case 2:
		// restart: fresh state machine objects, initial recovery
		initial = true
		B.sessions = &SessionManager{lru: newLRUSession(2)}
		B.index, B.term = 0, 0
		B.lastApplied.index, B.lastApplied.term = 0, 0
		vReach("restart")
	}
	if j > 0 {
		B.taskQ.Add(Task{Entries: ents[:j]})
		_, err = B.Handle(nil, nil)
		vAssert(err == nil, "noerr")
	}
	updBefore := len(uB.updates)
	if uint64(k) > uint64(j) || initial {
		ss, err := B.Recover(Task{Recover: true, Initial: initial, Index: ssA.Index})
		vAssert(err == nil, "recover-noerr")
		vAssert(ss.Index == ssA.Index, "T1-recovered-snapshot-index")
		vAssert(B.index == ssA.Index && B.GetLastApplied() == ssA.Index, "T1-applied-index-is-snapshot-index")
		_ = updBefore
	}
	// the whole batch again (entries at or below the snapshot must be skipped)
	if B.index < vBase-1+uint64(n) {
		first := int(B.index - (vBase - 1))
		// raft hands out entries from its own processed index; anything from the
		// snapshot index down is allowed to be in the batch
		lo := 0
		if vTier() > 0 {
			lo = vChoose("resendFrom", first+1)
		}
		B.taskQ.Add(Task{Entries: ents[lo:]})
		_, err = B.Handle(nil, nil)
		vAssert(err == nil, "noerr")
	}
	// equivalence
	vAssert(B.index == A.index && B.term == A.term, "T1-same-applied-index-and-term")
	vAssert(B.GetLastApplied() == A.GetLastApplied(), "T1-same-last-applied")
	vSameMembership(A.members.members, B.members.members, "T1-")
	vCompareTables(B, vRefOf(A), "T1-")
	vAssert(len(uB.updates) == len(uA.updates), "T1-same-user-update-count")
	if len(uB.updates) == len(uA.updates) {
		for i := range uA.updates {
			vAssert(uB.updates[i] == uA.updates[i], "T1-same-user-updates-in-order")
		}
	}
	// C11/U1: indexes reach the user state machine strictly increasing, never twice
	for i := 1; i < len(uB.updates); i++ {
		vAssert(uB.updates[i].index > uB.updates[i-1].index, "U1-update-indexes-strictly-increasing")
	}
	vReach("done")
}

// C02/C08/C11 (on-disk state machines): a chain of streamed snapshots.  O has
// applied everything, L and R lag by arbitrary amounts; O streams to L, L
// (possibly after an empty entry) streams to R, R applies what remains.  The
// on-disk index a replica publishes with a snapshot must be the index of the
// data it actually holds, otherwise a receiver skips loading the data while
// its applied index jumps: R must end with every update exactly once.
//vcheck: props=C02,C11 reach=l-loaded,r-loaded,origin-restarted,done workers=8
func VHarness_C08_OnDiskSnapshotChain() {
	n := 4
	vInitResults(n + 2)
	mk := func(self uint64) (*StateMachine, *vUSM, *vSnapshotter) {
		node, u, sn := &vNode{self: self}, &vUSM{onDisk: true, openIndex: vBase - 1}, &vSnapshotter{}
		s := vNewSM(u, node, sn, 2)
		s.index, s.term = vBase-1, 5
		s.lastApplied.index, s.lastApplied.term = vBase-1, 5
		_, err := s.OpenOnDiskStateMachine()
		vAssert(err == nil, "open-noerr")
		return s, u, sn
	}
	var ents []pb.Entry
	for i := 0; i < n+2; i++ {
		ents = append(ents, pb.Entry{Type: pb.ApplicationEntry, Index: vBase + uint64(i), Term: 5, Key: uint64(i), ClientID: 77, SeriesID: client.NoOPSeriesID, Cmd: []byte{byte(i)}})
	}
	apply := func(s *StateMachine, from, to int) {
		if to > from {
			s.taskQ.Add(Task{Entries: ents[from:to]})
			_, err := s.Handle(nil, nil)
			vAssert(err == nil, "noerr")
		}
	}
	O, uO, snO := mk(1)
	L, uL, snL := mk(2)
	R, uR, snR := mk(3)
	apply(O, 0, n)
	x := vChoose("lApplied", n)
	y := vChoose("rApplied", n)
	apply(L, 0, x)
	apply(R, 0, y)
	if vBool("originRestarted") {
		// O restarts before it streams: its durable data holds everything it
		// applied (Open returns that index); its latest snapshot record is a dummy
		// one taken at an earlier index d; the initial recovery goes through it
		// and the entries after it are replayed (and skipped: already on disk).
		d := 1 + vChoose("dummyAt", n-1) // entries 0..d-1 were applied when it was taken
		uO2 := &vUSM{onDisk: true, openIndex: vBase + uint64(n) - 1}
		uO2.updates = append([]vUpd(nil), uO.updates...)
		snO2 := &vSnapshotter{}
		O2 := vNewSM(uO2, &vNode{self: 1}, snO2, 2)
		ds := pb.Snapshot{Index: vBase + uint64(d) - 1, Term: 5, Dummy: true, OnDiskIndex: vBase + uint64(d) - 1, Type: pb.OnDiskStateMachine,
			Membership: O.members.get()}
		snO2.img = &vImage{ss: ds}
		_, err := O2.OpenOnDiskStateMachine()
		vAssert(err == nil, "open-noerr")
		_, err = O2.Recover(Task{Recover: true, Initial: true})
		vAssert(err == nil, "restart-recover-noerr")
		apply(O2, d, n)
		vAssert(len(uO2.updates) == n, "restarted-origin-applies-nothing-twice")
		O, uO, snO = O2, uO2, snO2
		vReach("origin-restarted")
	}
	// O -> L
	vAssert(O.Stream(nil) == nil, "stream-noerr")
	snL.img = snO.streamed
	vAssert(snL.img.ss.Index == vBase+uint64(n)-1 && snL.img.ss.OnDiskIndex == vBase+uint64(n)-1, "origin-publishes-its-applied-index")
	_, err := L.Recover(Task{Recover: true, Index: snL.img.ss.Index})
	vAssert(err == nil, "recover-noerr")
	vAssert(snL.loads == 1, "lagging-replica-loads-the-data")
	vReach("l-loaded")
	vAssert(len(uL.updates) == len(uO.updates), "L-holds-the-streamed-data")
	// L becomes the sender; before that it may apply an empty entry (a new leader's no-op)
	next := n
	if vBool("emptyEntryFirst") {
		e := pb.Entry{Type: pb.ApplicationEntry, Index: vBase + uint64(n), Term: 5}
		L.taskQ.Add(Task{Entries: []pb.Entry{e}})
		_, err := L.Handle(nil, nil)
		vAssert(err == nil, "noerr")
		next = n + 1
	}
	vAssert(L.Stream(nil) == nil, "stream-noerr")
	img := snL.streamed
	// what a snapshot says it contains is what its sender holds
	vAssert(img.ss.OnDiskIndex == vBase+uint64(n)-1, "published-on-disk-index-is-the-index-of-the-data-held")
	snR.img = img
	_, err = R.Recover(Task{Recover: true, Index: img.ss.Index})
	vAssert(err == nil, "recover-noerr")
	if snR.loads == 1 {
		vReach("r-loaded")
	} else {
		_ = 0 // (unreachable on a correct tree: R always lags behind what L publishes)
	}
	vAssert(R.index == img.ss.Index, "applied-index-is-snapshot-index")
	// R continues with the log after the snapshot
	if next == n {
		apply(R, n, n+1)
	} else {
		rest := []pb.Entry{ents[n+1]}
		R.taskQ.Add(Task{Entries: rest})
		_, err := R.Handle(nil, nil)
		vAssert(err == nil, "noerr")
	}
	// every update up to the snapshot exactly once, in order, then the new one
	vAssert(len(uR.updates) == n+1, "R-holds-every-update-exactly-once")
	for i := 0; i < len(uR.updates) && i < n; i++ {
		vAssert(uR.updates[i].index == vBase+uint64(i), "R-updates-in-index-order")
	}
	vReach("done")
}

// C20 (+C08): a replica restarted on an imported snapshot always ends in the
// state of the image, whatever its on-disk state machine held before (nothing
// = a new member or a lost disk, older data, or newer data of the shard's
// previous life): the image is loaded, applied index / term / membership are
// the image's, and what the state machine contains is what the image contains.
// The record is what tools.ImportSnapshot writes: Imported set, OnDiskIndex 0.
//vcheck: props=C20,C08 reach=empty-disk,older-disk,newer-disk,regular,done workers=8
func VHarness_C20_RestartOnImportedSnapshot() {
	// the exporter: some replica of the old shard that applied three entries
	n := 2
	vInitResults(n)
	var ents []pb.Entry
	for i := 0; i < n; i++ {
		ents = append(ents, vTwinEntry(vBase+uint64(i)))
	}
	onDisk := vBool("onDisk")
	nodeA, uA := &vNode{}, &vUSM{onDisk: onDisk}
	snA := &vSnapshotter{}
	A := vNewSM(uA, nodeA, snA, 2)
	A.index, A.term = vBase-1, 5
	A.lastApplied.index, A.lastApplied.term = vBase-1, 5
	if onDisk {
		_, err := A.OpenOnDiskStateMachine()
		vAssert(err == nil, "noerr")
	}
	A.taskQ.Add(Task{Entries: ents})
	_, err := A.Handle(nil, nil)
	vAssert(err == nil, "noerr")
	ssA, _, err := A.Save(SSRequest{Type: Exported, Path: "/export"})
	vAssert(err == nil, "export-ok")
	// what the import tool records on the target host
	img := *snA.img
	img.ss.Imported = true
	img.ss.OnDiskIndex = 0
	img.ss.Membership = pb.Membership{Addresses: map[uint64]string{1: "a1"}, NonVotings: map[uint64]string{}, Witnesses: map[uint64]string{}, Removed: map[uint64]bool{2: true, 3: true}, ConfigChangeId: ssA.Index}
	// the restarted replica
	open := uint64(0)
	if onDisk {
		switch vChoose("diskBefore", 3) {
		case 0:
			vReach("empty-disk")
		case 1:
			open = ssA.Index - 1
			vReach("older-disk")
		case 2:
			open = ssA.Index + 2
			vReach("newer-disk")
		}
	} else {
		vReach("regular")
	}
	nodeB, uB := &vNode{self: 1}, &vUSM{onDisk: onDisk, openIndex: open}
	if open > 0 {
		uB.updates = []vUpd{{index: open, tag: 0xee}} // whatever the old life left there
	}
	snB := &vSnapshotter{img: &img}
	B := vNewSM(uB, nodeB, snB, 2)
	if onDisk {
		_, err = B.OpenOnDiskStateMachine()
		vAssert(err == nil, "noerr")
	}
	_, err = B.Recover(Task{Recover: true, Initial: true})
	vAssert(err == nil, "restart-recover-ok")
	vAssert(snB.loads == 1, "imported-image-loaded-at-restart")
	vAssert(B.index == ssA.Index && B.term == ssA.Term, "applied-index-and-term-are-the-image's")
	vSameMembership(img.ss.Membership, B.members.members, "imported-")
	vAssert(len(uB.updates) == len(uA.updates), "state-machine-content-is-the-image's")
	if len(uB.updates) == len(uA.updates) {
		for i := range uA.updates {
			vAssert(uB.updates[i] == uA.updates[i], "state-machine-content-is-the-image's")
		}
	}
	vReach("done")
}
