package rsm

import (
	"io"

	pb "github.com/lni/dragonboat/v4/raftpb"
	sm "github.com/lni/dragonboat/v4/statemachine"
)

// ---- thread harness: NativeSM Lookup vs Close (F2) ----


type vUserSM struct {
	inLookup int
	inClose  bool
	closed   bool
}

func (u *vUserSM) Open(<-chan struct{}) (uint64, error) { return 0, nil }
func (u *vUserSM) Update(es []sm.Entry) ([]sm.Entry, error) { return es, nil }
func (u *vUserSM) Lookup(q interface{}) (interface{}, error) {
	vAssert(!u.closed, "lookup-after-close")
	u.inLookup++
	vYield()
	vAssert(!u.inClose, "lookup-overlaps-close")
	u.inLookup--
	return nil, nil
}
func (u *vUserSM) NALookup(q []byte) ([]byte, error) { return nil, nil }
func (u *vUserSM) Sync() error                       { return nil }
func (u *vUserSM) Prepare() (interface{}, error)     { return nil, nil }
func (u *vUserSM) Save(interface{}, io.Writer, sm.ISnapshotFileCollection, <-chan struct{}) error {
	return nil
}
func (u *vUserSM) Recover(io.Reader, []sm.SnapshotFile, <-chan struct{}) error { return nil }
func (u *vUserSM) Close() error {
	u.inClose = true
	vYield()
	vAssert(u.inLookup == 0, "close-overlaps-lookup")
	u.inClose = false
	u.closed = true
	return nil
}
func (u *vUserSM) GetHash() (uint64, error)  { return 0, nil }
func (u *vUserSM) Concurrent() bool          { return false }
func (u *vUserSM) OnDisk() bool              { return false }
func (u *vUserSM) Type() pb.StateMachineType { return pb.RegularStateMachine }

//vcheck: reach=done replay=symbolic
func VHarness_C11_LookupVsClose() {
	u := &vUserSM{}
	ds := &NativeSM{sm: u}
	ds.OffloadedStatus.DestroyedC = make(chan struct{})
	vSpawn(func() {
		_, err := ds.Lookup(nil)
		_ = err
	})
	vSpawn(func() {
		if err := ds.Close(); err != nil {
			panic(err)
		}
	})
	vRunThreads()
	vReach("done")
}

// ---- thread harness: apply worker vs snapshot/stream worker (C11 + C08) ----
//
// The index a snapshot is labelled with must be the index of the data the
// user state machine captured in PrepareSnapshot, for every interleaving of
// the apply path (handleEntry / handleBatch) with the snapshot paths
// (concurrentSave, stream) at synchronisation-point granularity.  The user
// state machine's PrepareSnapshot yields once (user code takes time).

type vPrepUSM struct {
	vUSM
	inUpdate, inPrepare bool
}

func (s *vPrepUSM) BatchedUpdate(es []sm.Entry) ([]sm.Entry, error) {
	vAssert(!s.inPrepare, "update-overlaps-prepare")
	s.inUpdate = true
	r, err := s.vUSM.BatchedUpdate(es)
	s.inUpdate = false
	return r, err
}
func (s *vPrepUSM) Prepare() (interface{}, error) {
	vAssert(!s.inUpdate, "prepare-overlaps-update")
	s.inPrepare = true
	n := len(s.updates)
	vYield()
	vAssert(len(s.updates) == n, "update-during-prepare")
	s.inPrepare = false
	return n, nil
}

type vPrepSnapshotter struct {
	vSnapshotter
	seen int
}

func (s *vPrepSnapshotter) check(meta SSMeta) {
	s.seen++
	n, ok := meta.Ctx.(int)
	vAssert(ok, "snapshot-carries-prepare-context")
	// entries vBase .. vBase+n-1 were applied when the state was captured
	vAssert(meta.Index == vBase-1+uint64(n), "snapshot-index-is-the-index-of-the-captured-state")
}
func (s *vPrepSnapshotter) Stream(st IStreamable, meta SSMeta, sink pb.IChunkSink) error {
	s.check(meta)
	return nil
}
func (s *vPrepSnapshotter) Save(sv ISavable, meta SSMeta) (pb.Snapshot, SSEnv, error) {
	s.check(meta)
	return pb.Snapshot{Index: meta.Index, Term: meta.Term}, SSEnv{}, nil
}

//vcheck: props=C08 reach=saved,streamed,done replay=symbolic switches=4
func VHarness_C11_ApplyVsSnapshot() {
	vInitResults(3)
	u := &vPrepUSM{}
	u.concurrent = true
	stream := vBool("stream")
	u.onDisk = stream
	node := &vNode{}
	sn := &vPrepSnapshotter{}
	s := &StateMachine{node: node, sm: u, snapshotter: sn, onDiskSM: u.onDisk, taskQ: NewTaskQueue(),
		sessions: &SessionManager{lru: newLRUSession(2)}, members: newMembership(1, 1, false)}
	u.host = s
	s.members.members.Addresses[1] = "a1"
	s.index, s.term = vBase-1, 5
	s.lastApplied.index, s.lastApplied.term = vBase-1, 5
	if u.onDisk {
		_, err := s.OpenOnDiskStateMachine()
		vAssert(err == nil, "noerr")
	}
	s.taskQ.Add(Task{Entries: []pb.Entry{
		{Type: pb.ApplicationEntry, Index: vBase, Term: 5, ClientID: 77, Cmd: []byte{1}},
		{Type: pb.ApplicationEntry, Index: vBase + 1, Term: 5, ClientID: 77, Cmd: []byte{2}},
	}})
	vSpawn(func() {
		_, err := s.Handle(nil, nil)
		vAssert(err == nil, "apply-noerr")
	})
	vSpawn(func() {
		if stream {
			vAssert(s.Stream(nil) == nil, "stream-noerr")
			vReach("streamed")
		} else {
			_, _, err := s.Save(SSRequest{Type: Exported})
			vAssert(err == nil, "save-noerr")
			vReach("saved")
		}
	})
	vRunThreads()
	vAssert(sn.seen == 1 && len(u.updates) == 2, "both-workers-finished")
	vReach("done")
}
