package rsm

import (
	"io"

	pb "github.com/lni/dragonboat/v4/raftpb"
	sm "github.com/lni/dragonboat/v4/statemachine"
)

// ---- thread harness: NativeSM Lookup vs Close (F2) ----


type vUserSM struct {
	inLookup int
	inClose  bool
	closed   bool
}

func (u *vUserSM) Open(<-chan struct{}) (uint64, error) { return 0, nil }
func (u *vUserSM) Update(es []sm.Entry) ([]sm.Entry, error) { return es, nil }
func (u *vUserSM) Lookup(q interface{}) (interface{}, error) {
	vAssert(!u.closed, "lookup-after-close")
	u.inLookup++
	vYield()
	vAssert(!u.inClose, "lookup-overlaps-close")
	u.inLookup--
	return nil, nil
}
func (u *vUserSM) NALookup(q []byte) ([]byte, error) { return nil, nil }
func (u *vUserSM) Sync() error                       { return nil }
func (u *vUserSM) Prepare() (interface{}, error)     { return nil, nil }
func (u *vUserSM) Save(interface{}, io.Writer, sm.ISnapshotFileCollection, <-chan struct{}) error {
	return nil
}
func (u *vUserSM) Recover(io.Reader, []sm.SnapshotFile, <-chan struct{}) error { return nil }
func (u *vUserSM) Close() error {
	u.inClose = true
	vYield()
	vAssert(u.inLookup == 0, "close-overlaps-lookup")
	u.inClose = false
	u.closed = true
	return nil
}
func (u *vUserSM) GetHash() (uint64, error)  { return 0, nil }
func (u *vUserSM) Concurrent() bool          { return false }
func (u *vUserSM) OnDisk() bool              { return false }
func (u *vUserSM) Type() pb.StateMachineType { return pb.RegularStateMachine }

//vcheck: reach=done replay=symbolic
func VHarness_C11_LookupVsClose() {
	u := &vUserSM{}
	ds := &NativeSM{sm: u}
	ds.OffloadedStatus.DestroyedC = make(chan struct{})
	vSpawn(func() {
		_, err := ds.Lookup(nil)
		_ = err
	})
	vSpawn(func() {
		if err := ds.Close(); err != nil {
			panic(err)
		}
	})
	vRunThreads()
	vReach("done")
}
