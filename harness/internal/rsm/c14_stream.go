package rsm

//vcheck:scale internal/settings/hard.go SnapshotChunkSize 16
//vcheck:bounds snapshot I/O: block / chunk size scaled from 2 MiB to 16 bytes (the smallest size for which the 16-byte tail is still shorter than a block, which the streaming validator relies on) (one-token overlay of settings.SnapshotChunkSize, regenerated from /repo on every run); payload lengths 0,1,15,16,17,31,32,33,40 (around the block size and its multiples), contents symbolic; every split of the payload into two Write calls; one altered byte / one truncation point per run. A defect that only exists at the production block size is outside the claim.
//vcheck:stub snapshot I/O: CRC-32 = native when all bytes are concrete, otherwise an uninterpreted function of the byte sequence with the axiom that two equal-length inputs differing in exactly one byte have different checksums (so: all single-bit flips and all bursts inside one byte); vfs.IFS/File = byte-slice files

import (
	"bytes"
	"io"

	pb "github.com/lni/dragonboat/v4/raftpb"
)

type vBufWriter struct{ data []byte }

func (w *vBufWriter) Write(p []byte) (int, error) {
	w.data = append(w.data, p...)
	return len(p), nil
}

// C14: the versioned file writer must neither modify the caller's buffer nor
// read back anything but the bytes written, whatever the segmentation of the
// writes - including a single Write spanning several blocks out of one buffer.
//vcheck: reach=multi-block,done workers=16
var vLens = []int{0, 1, 15, 16, 17, 31, 32, 33, 40}

func VHarness_C14_V2WriterCallerBuffer() {
	n := vLens[vChoose("n", len(vLens))]
	orig := make([]byte, n)
	for i := range orig {
		orig[i] = vU8("d")
	}
	// the state machine's own buffer, with the same capacity as length
	buf := make([]byte, n)
	copy(buf, orig)
	fw := &vBufWriter{}
	w := newV2Writer(fw, pb.CRC32IEEE)
	cut := vChoose("cut", n+1)
	m1, err := w.Write(buf[:cut]) // NB: buf[:cut] still has the capacity of the whole buffer
	vAssert(err == nil && m1 == cut, "write1-ok")
	m2, err := w.Write(buf[cut:])
	vAssert(err == nil && m2 == n-cut, "write2-ok")
	vAssert(w.Close() == nil, "close-ok")
	for i := range orig {
		vAssert(buf[i] == orig[i], "caller-buffer-not-modified")
	}
	if cut > int(blockSize) || n-cut > int(blockSize) {
		vReach("multi-block")
	}
	vAssert(uint64(len(fw.data)) == getV2PayloadSize(uint64(n), blockSize), "payload-size-formula")
	r := newV2Reader(bytes.NewReader(fw.data[:len(fw.data)-int(tailSize)]), pb.CRC32IEEE)
	got := make([]byte, n)
	k, err := io.ReadFull(r, got)
	vAssert(err == nil && k == n, "read-ok")
	for i := range orig {
		vAssert(got[i] == orig[i], "bytes-identical")
	}
	vReach("done")
}

// recording chunk sink that keeps the chunks queued (as the transport does)
type vSink struct {
	chunks []pb.Chunk
	closed bool
}

func (s *vSink) Receive(c pb.Chunk) (bool, bool) { s.chunks = append(s.chunks, c); return true, false }
func (s *vSink) Close() error                     { s.closed = true; return nil }
func (s *vSink) ShardID() uint64                  { return 1 }
func (s *vSink) ToReplicaID() uint64              { return 2 }

func vStream(payload []byte, cut int) *vSink {
	sink := &vSink{}
	cw := NewChunkWriter(sink, SSMeta{From: 1, Index: 100, Term: 5})
	if _, err := cw.Write(payload[:cut]); err != nil {
		panic(err)
	}
	if _, err := cw.Write(payload[cut:]); err != nil {
		panic(err)
	}
	if err := cw.Close(); err != nil {
		panic(err)
	}
	return sink
}

// vStreamPayload concatenates the block stream carried by the data chunks.
func vStreamPayload(chunks []pb.Chunk) []byte {
	var out []byte
	for i := range chunks {
		d := chunks[i].Data
		if chunks[i].ChunkId == 0 && len(d) >= int(HeaderSize) {
			d = d[HeaderSize:]
		}
		out = append(out, d...)
	}
	return out
}

// C14: the chunk stream produced by the streaming writer is accepted by the
// stream validator under every segmentation, stays intact while the chunks are
// queued, and decodes to the bytes written.
//vcheck: props=C15 reach=three-blocks,done workers=16
func VHarness_C14_ChunkStream() {
	n := vLens[vChoose("n", len(vLens))]
	orig := make([]byte, n)
	for i := range orig {
		orig[i] = vU8("d")
	}
	cut := vChoose("cut", n+1)
	sink := vStream(orig, cut)
	vAssert(sink.closed, "sink-closed")
	nchunks := len(sink.chunks)
	vAssert(nchunks >= 2, "at-least-data-and-tail")
	if nchunks >= 5 {
		vReach("three-blocks")
	}
	// the tail chunk announces the end; every other chunk has consecutive ids
	for i := range sink.chunks {
		vAssert(sink.chunks[i].ChunkId == uint64(i), "consecutive-chunk-ids")
		vAssert(sink.chunks[i].ChunkSize == uint64(len(sink.chunks[i].Data)), "chunk-size-field")
	}
	vAssert(sink.chunks[nchunks-1].ChunkCount == pb.LastChunkCount, "last-chunk-marked")
	v := NewSnapshotValidator()
	for i := 0; i < nchunks-1; i++ {
		vAssert(v.AddChunk(sink.chunks[i].Data, sink.chunks[i].ChunkId), "validator-accepts-chunk")
	}
	vAssert(v.Validate(), "validator-accepts-writer-output")
	stream := vStreamPayload(sink.chunks[:nchunks-1])
	vAssert(uint64(len(stream)) == getV2PayloadSize(uint64(n), blockSize), "stream-size-formula")
	r := newV2Reader(bytes.NewReader(stream[:len(stream)-int(tailSize)]), pb.CRC32IEEE)
	got := make([]byte, n)
	k, err := io.ReadFull(r, got)
	vAssert(err == nil && k == n, "stream-read-ok")
	for i := range orig {
		vAssert(got[i] == orig[i], "stream-bytes-identical")
	}
	vReach("done")
}

// C14: a chunk stream with one byte altered anywhere after the header, or cut
// short anywhere, is rejected by the stream validator.
//vcheck: props=C15 reach=altered,truncated,done workers=16
func VHarness_C14_StreamCorruption() {
	n := vLens[1+vChoose("n", 6)]
	trunc := vBool("truncate")
	orig := make([]byte, n)
	for i := range orig {
		if trunc {
			// With an uninterpreted checksum the solver may pick payload bytes that
			// look like a block tail and checksum values that happen to fit, i.e. a
			// stream whose prefix is itself a valid stream; no validator can reject
			// that.  The truncation clause is therefore decided for a fixed payload
			// (real CRCs) over every truncation point.
			orig[i] = byte(i*7 + 1)
		} else {
			orig[i] = vU8("d")
		}
	}
	sink := vStream(orig, n)
	nchunks := len(sink.chunks) - 1 // without the tail marker chunk
	// flatten: chunk 0 = header + first block; the others one block (or the tail) each
	type piece struct{ data []byte }
	var pieces [][]byte
	for i := 0; i < nchunks; i++ {
		pieces = append(pieces, append([]byte(nil), sink.chunks[i].Data...))
	}
	accepted := func() bool {
		v := NewSnapshotValidator()
		for i := range pieces {
			if !v.AddChunk(pieces[i], uint64(i)) {
				return false
			}
		}
		return v.Validate()
	}
	if trunc {
		// drop the last k chunks, or cut the last remaining chunk short
		drop := vChoose("drop", nchunks-1) // keep at least chunk 0
		pieces = pieces[:nchunks-drop]
		last := pieces[len(pieces)-1]
		lo := 0
		if len(pieces) == 1 {
			lo = int(HeaderSize)
		}
		keep := lo + vChoose("keep", len(last)-lo+1)
		if drop == 0 {
			vAssume(keep < len(last)) // something must be missing
		}
		pieces[len(pieces)-1] = last[:keep]
		vReach("truncated")
		vAssert(!accepted(), "truncated-stream-rejected")
	} else {
		ci := vChoose("chunk", nchunks)
		lo := 0
		if ci == 0 {
			lo = int(HeaderSize)
		}
		pos := lo + vChoose("pos", len(pieces[ci])-lo)
		mask := vU8("mask")
		vAssume(mask != 0)
		pieces[ci][pos] ^= mask
		vReach("altered")
		vAssert(!accepted(), "altered-stream-rejected")
	}
	vReach("done")
}
