package rsm

import (
	pb "github.com/lni/dragonboat/v4/raftpb"
)

func kindOf(m *pb.Membership, id uint64) int {
	k := 0
	if _, ok := m.Addresses[id]; ok {
		k = 1
	}
	if _, ok := m.NonVotings[id]; ok {
		if k != 0 {
			return -1
		}
		k = 2
	}
	if _, ok := m.Witnesses[id]; ok {
		if k != 0 {
			return -1
		}
		k = 3
	}
	if _, ok := m.Removed[id]; ok {
		if k != 0 {
			return -1
		}
		k = 4
	}
	return k
}

//vcheck: reach=accepted,rejected,done workers=16
func VHarness_C07_Membership() {
	m := newMembership(1, vU64("rid"), vBool("ordered"))
	addrs := []string{"a1", "a2", "a3"}
	for id := uint64(1); id <= 3; id++ {
		switch vChoose("kind", 5) {
		case 1:
			m.members.Addresses[id] = addrs[id-1]
		case 2:
			m.members.NonVotings[id] = addrs[id-1]
		case 3:
			m.members.Witnesses[id] = addrs[id-1]
		case 4:
			m.members.Removed[id] = true
		}
	}
	m.members.ConfigChangeId = vU64("ccid")
	cc := pb.ConfigChange{
		Type:           pb.ConfigChangeType(vChoose("cctype", 4)),
		ReplicaID:      uint64(vChoose("ccrid", 4)) + 1,
		ConfigChangeId: vU64("reqccid"),
		Initialize:     vBool("init"),
	}
	cand := []string{"a1", "a2", "a3", "a9", " A1 "}
	cc.Address = cand[vChoose("ccaddr", 5)]
	pre := m.get()
	nvoters := len(pre.Addresses)
	idx := vU64("index")
	ok := m.handleConfigChange(cc, idx)
	post := m.members
	// invariant: kinds disjoint
	for id := uint64(1); id <= 4; id++ {
		kpre, kpost := kindOf(&pre, id), kindOf(&post, id)
		vAssert(kpost >= 0, "kinds-disjoint")
		if kpre == 4 {
			vAssert(kpost == 4, "removed-stays-removed")
		}
		if kpre != kpost && kpost != 4 && kpre != 0 {
			vAssert(kpre == 2 && kpost == 1, "only-promotion")
		}
		if !ok {
			vAssert(kpre == kpost, "rejected-unchanged")
		}
	}
	if nvoters >= 1 {
		vAssert(len(post.Addresses) >= 1, "last-voter-stays")
	}
	if ok {
		vReach("accepted")
		vAssert(post.ConfigChangeId == idx, "ccid-updated")
		vAssert(!m.ordered || cc.Initialize || cc.ConfigChangeId == pre.ConfigChangeId, "ordered-ccid")
		// an accepted change has exactly its effect
		switch cc.Type {
		case pb.RemoveNode:
			// also for an id that was not a member: its (delayed) addition must never be admitted afterwards
			vAssert(post.Removed[cc.ReplicaID], "accepted-removal-records-the-id-as-removed")
			vAssert(kindOf(&post, cc.ReplicaID) == 4, "accepted-removal-leaves-no-membership")
		case pb.AddNode:
			vAssert(kindOf(&post, cc.ReplicaID) == 1, "accepted-add-node-makes-a-voter")
		case pb.AddNonVoting:
			vAssert(kindOf(&post, cc.ReplicaID) == 2, "accepted-add-nonvoting-makes-a-nonvoting-member")
		case pb.AddWitness:
			vAssert(kindOf(&post, cc.ReplicaID) == 3, "accepted-add-witness-makes-a-witness")
		}
	} else {
		vReach("rejected")
		vAssert(post.ConfigChangeId == pre.ConfigChangeId, "rejected-ccid-unchanged")
	}
	// address uniqueness
	seen := 0
	for _, mp := range []map[uint64]string{post.Addresses, post.NonVotings, post.Witnesses} {
		for id1, a1 := range mp {
			for _, mp2 := range []map[uint64]string{post.Addresses, post.NonVotings, post.Witnesses} {
				for id2, a2 := range mp2 {
					if id1 != id2 {
						seen++
						vAssert(!addressEqual(a1, a2), "address-unique")
					}
				}
			}
		}
	}
	vReach("done")
}

