package rsm

// Shared stubs and builders for the rsm-package harnesses (C05 C07 C08 C11 C02/A1).

//vcheck:init github.com/lni/dragonboat/v4/internal/settings,github.com/lni/dragonboat/v4/raftpb,github.com/lni/dragonboat/v4/internal/rsm
//vcheck:bounds rsm: <= 3 client sessions (ids 10,20,30; LRU capacity 2 in the eviction harnesses), <= 2 cached results per session, 2-4 entries per run with symbolic kind / series id / responded-to; entry indexes concrete and consecutive
//vcheck:stub rsm: user state machine = recorder whose state is the list of (index, payload tag) it was given and whose result for index i is a fixed symbolic value r_i (so replicas fed the same entry return the same result); INode = recorder; ISnapshotter = in-memory image of (meta, session bytes, user state); encoding/json Marshal/Unmarshal of a session = identity (engine intrinsic keeping the value behind an 8-byte handle)
//vcheck:assume rsm: the session table holds for every session: every cached series id is greater than RespondedUpTo

import (
	"bytes"
	"io"

	"github.com/lni/dragonboat/v4/client"
	pb "github.com/lni/dragonboat/v4/raftpb"
	sm "github.com/lni/dragonboat/v4/statemachine"
)

// ---------------------------------------------------------------------------
// INode recorder

type vApplied struct {
	index    uint64
	key      uint64
	result   uint64
	rejected bool
	ignored  bool
}

type vCC struct {
	cc       pb.ConfigChange
	key      uint64
	rejected bool
}

type vNode struct {
	applied  []vApplied
	ccs      []vCC
	restored []pb.Snapshot
	self     uint64
}

func (n *vNode) StepReady()                  {}
func (n *vNode) ShouldStop() <-chan struct{} { return nil }
func (n *vNode) ShardID() uint64             { return 1 }
func (n *vNode) ReplicaID() uint64 {
	if n.self == 0 {
		return 1
	}
	return n.self
}
func (n *vNode) RestoreRemotes(ss pb.Snapshot) error {
	n.restored = append(n.restored, ss)
	return nil
}
func (n *vNode) ApplyConfigChange(cc pb.ConfigChange, key uint64, rejected bool) error {
	n.ccs = append(n.ccs, vCC{cc: cc, key: key, rejected: rejected})
	return nil
}
func (n *vNode) ApplyUpdate(e pb.Entry, r sm.Result, rejected bool, ignored bool, last bool) {
	n.applied = append(n.applied, vApplied{index: e.Index, key: e.Key, result: r.Value, rejected: rejected, ignored: ignored})
}

// ---------------------------------------------------------------------------
// user state machine recorder

// vResults[i] is the result the user state machine returns for entry index
// vBase+i, on every replica.
var vResults []uint64

const vBase = uint64(100)

func vInitResults(n int) {
	vResults = nil
	for i := 0; i < n; i++ {
		vResults = append(vResults, vU64("smresult"))
	}
}

type vUpd struct {
	index uint64
	tag   byte
}

type vUSM struct {
	onDisk     bool
	concurrent bool
	openIndex  uint64
	updates    []vUpd
	lookups    int
	synced     int
	closed     bool
	// lock discipline probes (C11)
	host *StateMachine
}

func (s *vUSM) Open() (uint64, error) { return s.openIndex, nil }
func (s *vUSM) Update(e sm.Entry) (sm.Result, error) {
	tag := byte(0)
	if len(e.Cmd) > 0 {
		tag = e.Cmd[0]
	}
	s.updates = append(s.updates, vUpd{index: e.Index, tag: tag})
	return sm.Result{Value: vResults[e.Index-vBase]}, nil
}
func (s *vUSM) BatchedUpdate(es []sm.Entry) ([]sm.Entry, error) {
	for i := range es {
		r, _ := s.Update(es[i])
		es[i].Result = r
	}
	return es, nil
}
func (s *vUSM) Lookup(q interface{}) (interface{}, error)           { s.lookups++; return nil, nil }
func (s *vUSM) ConcurrentLookup(q interface{}) (interface{}, error) { s.lookups++; return nil, nil }
func (s *vUSM) NALookup(q []byte) ([]byte, error)                   { s.lookups++; return nil, nil }
func (s *vUSM) NAConcurrentLookup(q []byte) ([]byte, error)         { s.lookups++; return nil, nil }
func (s *vUSM) Sync() error                                         { s.synced++; return nil }
func (s *vUSM) GetHash() (uint64, error)                            { return 0, nil }
func (s *vUSM) Prepare() (interface{}, error)                       { return nil, nil }
func (s *vUSM) Save(SSMeta, io.Writer, []byte, sm.ISnapshotFileCollection) (bool, error) {
	return false, nil
}
func (s *vUSM) Recover(io.Reader, []sm.SnapshotFile) error { return nil }
func (s *vUSM) Stream(interface{}, io.Writer) error        { return nil }
func (s *vUSM) Offloaded() bool                            { return false }
func (s *vUSM) Loaded()                                    {}
func (s *vUSM) Close() error                               { s.closed = true; return nil }
func (s *vUSM) DestroyedC() <-chan struct{}                { return nil }
func (s *vUSM) Concurrent() bool                           { return s.concurrent }
func (s *vUSM) OnDisk() bool                               { return s.onDisk }
func (s *vUSM) Type() pb.StateMachineType {
	if s.onDisk {
		return pb.OnDiskStateMachine
	}
	if s.concurrent {
		return pb.ConcurrentStateMachine
	}
	return pb.RegularStateMachine
}

// ---------------------------------------------------------------------------
// in-memory snapshotter: one image = what getSSMeta handed over + user state

type vImage struct {
	ss       pb.Snapshot
	sessions []byte
	updates  []vUpd
}

type vSnapshotter struct {
	streamed *vImage
	img   *vImage
	noSS  error
	loads int
}

var vErrNoSnapshot = io.ErrNoProgress

func (s *vSnapshotter) GetSnapshot() (pb.Snapshot, error) {
	if s.img == nil {
		return pb.Snapshot{}, vErrNoSnapshot
	}
	return s.img.ss, nil
}
func (s *vSnapshotter) Stream(st IStreamable, meta SSMeta, sink pb.IChunkSink) error {
	// the image a receiver gets: the header fields ChunkWriter.getHeader/
	// transport.Chunk copy from the meta, and the sender's current data
	u := st.(*vUSM)
	img := &vImage{}
	img.ss = pb.Snapshot{Index: meta.Index, Term: meta.Term, Membership: meta.Membership, OnDiskIndex: meta.OnDiskIndex, Type: meta.Type}
	img.sessions = append([]byte(nil), meta.Session.Bytes()...)
	img.updates = append([]vUpd(nil), u.updates...)
	s.streamed = img
	return nil
}
func (s *vSnapshotter) Shrunk(ss pb.Snapshot) (bool, error)             { return false, nil }
func (s *vSnapshotter) IsNoSnapshotError(err error) bool                { return err == vErrNoSnapshot }
func (s *vSnapshotter) Save(sv ISavable, meta SSMeta) (pb.Snapshot, SSEnv, error) {
	u := sv.(*vUSM)
	img := &vImage{}
	img.ss = pb.Snapshot{Index: meta.Index, Term: meta.Term, Membership: meta.Membership, OnDiskIndex: meta.OnDiskIndex, Type: meta.Type}
	img.sessions = append([]byte(nil), meta.Session.Bytes()...)
	img.updates = append([]vUpd(nil), u.updates...)
	s.img = img
	return img.ss, SSEnv{}, nil
}
func (s *vSnapshotter) Load(ss pb.Snapshot, sessions ILoadable, r IRecoverable) error {
	s.loads++
	if err := sessions.LoadSessions(bytes.NewReader(s.img.sessions), V2); err != nil {
		return err
	}
	u := r.(*vUSM)
	u.updates = append([]vUpd(nil), s.img.updates...)
	return nil
}

// ---------------------------------------------------------------------------
// builders

func vNewSM(u *vUSM, n *vNode, sn *vSnapshotter, lruSize uint64) *StateMachine {
	s := &StateMachine{
		node:        n,
		sm:          u,
		snapshotter: sn,
		onDiskSM:    u.onDisk,
		taskQ:       NewTaskQueue(),
		sessions:    &SessionManager{lru: newLRUSession(lruSize)},
		members:     newMembership(1, n.ReplicaID(), false),
	}
	u.host = s
	s.members.members.Addresses[1] = "a1"
	s.members.members.Addresses[2] = "a2"
	s.members.members.Addresses[3] = "a3"
	return s
}

var vClients = []uint64{10, 20, 30}

// vEntryKind: 0 update, 1 register, 2 unregister, 3 no-op session update, 4 empty (raft no-op) entry
func vSessionEntry(index uint64, kinds int) pb.Entry {
	e := pb.Entry{Type: pb.ApplicationEntry, Index: index, Term: 5, Key: index * 7}
	switch vChoose("kind", kinds) {
	case 0:
		e.ClientID = vClients[vChoose("cid", len(vClients))]
		e.SeriesID = vU64("series")
		vAssume(e.SeriesID >= 1)
		vAssume(e.SeriesID < 1<<62)
		e.RespondedTo = vU64("respondedTo")
		vAssume(e.RespondedTo < e.SeriesID) // a client acknowledges only results of earlier proposals
		e.Cmd = []byte{byte(index)}
	case 1:
		e.ClientID = vClients[vChoose("cid", len(vClients))]
		e.SeriesID = client.SeriesIDForRegister
	case 2:
		e.ClientID = vClients[vChoose("cid", len(vClients))]
		e.SeriesID = client.SeriesIDForUnregister
	case 3:
		e.ClientID = 77
		e.SeriesID = client.NoOPSeriesID
		e.Cmd = []byte{byte(index)}
	case 4:
	}
	return e
}

// vSeedSessions registers clients 10 and (optionally) 20 with an arbitrary
// acknowledged watermark and up to one cached result each.
func vSeedSessions(s *StateMachine, two bool) {
	ids := []uint64{10}
	if two {
		ids = append(ids, 20)
	}
	for _, id := range ids {
		s.sessions.RegisterClientID(id)
		ses, _ := s.sessions.ClientRegistered(id)
		ses.RespondedUpTo = RaftSeriesID(vU64("upto"))
		vAssume(uint64(ses.RespondedUpTo) < 1<<61)
		if vBool("hasCached") {
			h := vU64("cachedSeries")
			vAssume(h > uint64(ses.RespondedUpTo))
			vAssume(h < 1<<62)
			ses.History[RaftSeriesID(h)] = sm.Result{Value: vU64("cachedResult")}
		}
	}
}

// ---------------------------------------------------------------------------
// reference model of the session table (DESIGN.md Appendix D)

type vRefSession struct {
	id    uint64
	upTo  uint64
	hist  []uint64 // series
	histR []uint64 // results
}

type vRef struct {
	cap   int
	order []*vRefSession // least recently used first
}

func vRefOf(s *StateMachine) *vRef {
	r := &vRef{cap: int(s.sessions.lru.size)}
	s.sessions.lru.sessions.OrderedDo(func(k, v interface{}) {
		ses := v.(*Session)
		rs := &vRefSession{id: uint64(ses.ClientID), upTo: uint64(ses.RespondedUpTo)}
		for sid, res := range ses.History {
			rs.hist = append(rs.hist, uint64(sid))
			rs.histR = append(rs.histR, res.Value)
		}
		r.order = append(r.order, rs)
	})
	// OrderedDo walks the LRU list from the least to the most recently used
	return r
}

func (r *vRef) find(id uint64) *vRefSession {
	for _, s := range r.order {
		if s.id == id {
			return s
		}
	}
	return nil
}

func (r *vRef) touch(id uint64) {
	for i, s := range r.order {
		if s.id == id {
			r.order = append(append(append([]*vRefSession(nil), r.order[:i]...), r.order[i+1:]...), s)
			return
		}
	}
}

func (r *vRef) remove(id uint64) {
	for i, s := range r.order {
		if s.id == id {
			r.order = append(append([]*vRefSession(nil), r.order[:i]...), r.order[i+1:]...)
			return
		}
	}
}

func sessionResult(v uint64) sm.Result { return sm.Result{Value: v} }
