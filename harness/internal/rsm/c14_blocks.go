package rsm

import (
	"bytes"
	"io"

	pb "github.com/lni/dragonboat/v4/raftpb"
)

// ---- block writer/reader harness ----

func vBlockWrite(n int, bs uint64, cut int, data []byte) []byte {
	var out []byte
	bw := newBlockWriter(bs, func(d []byte, crc []byte) error {
		out = append(out, d...)
		out = append(out, crc...)
		return nil
	}, pb.CRC32IEEE)
	if _, err := bw.Write(data[:cut]); err != nil {
		panic(err)
	}
	if _, err := bw.Write(data[cut:]); err != nil {
		panic(err)
	}
	if err := bw.Close(); err != nil {
		panic(err)
	}
	return out
}

//vcheck: reach=done
func VHarness_C14_BlockRoundTrip() {
	n := vChoose("n", 8)
	data := make([]byte, n)
	for i := range data {
		data[i] = vU8("d")
	}
	cut := vChoose("cut", n+1)
	out := vBlockWrite(n, 3, cut, data)
	vAssert(uint64(len(out)) == getV2PayloadSize(uint64(n), 3), "payload-size")
	total := len(out) - 16
	br := newBlockReader(bytes.NewReader(out[:total]), 3, pb.CRC32IEEE)
	got := make([]byte, n)
	rcut := vChoose("rcut", n+1)
	m1, err1 := io.ReadFull(br, got[:rcut])
	m2, err2 := io.ReadFull(br, got[rcut:])
	vAssert(err1 == nil && err2 == nil && m1+m2 == n, "read-ok")
	for i := range data {
		vAssert(got[i] == data[i], "bytes-identical")
	}
	vReach("done")
}

//vcheck: reach=detected,done
func VHarness_C14_BlockFlip() {
	n := vChoose("n", 6) + 1
	data := make([]byte, n)
	for i := range data {
		data[i] = vU8("d")
	}
	out := vBlockWrite(n, 3, n, data)
	total := len(out) - 16
	pos := vChoose("pos", total)
	mask := vU8("mask")
	vAssume(mask != 0)
	bad := make([]byte, total)
	copy(bad, out[:total])
	bad[pos] ^= mask
	br := newBlockReader(bytes.NewReader(bad), 3, pb.CRC32IEEE)
	got := make([]byte, n)
	panicked := false
	var rerr error
	func() {
		defer func() {
			if r := recover(); r != nil {
				panicked = true
			}
		}()
		_, rerr = io.ReadFull(br, got)
	}()
	if !panicked && rerr == nil {
		vReach("undetected-read")
		for i := range data {
			vAssert(got[i] == data[i], "flip-undetected-but-identical")
		}
	} else {
		vReach("detected")
	}
	vReach("done")
}

