package server

//vcheck:bounds message queue: <= 3 delayed snapshot-status messages with symbolic delays (< 8 ticks), <= 2 ordinary and 1 must-deliver message, <= 6 operations (add / tick / get) in symbolic order
//vcheck:assume message queue: single consumer (the step worker) calling Get; producers serialised (the queue's own mutex is not under test here)

import (
	pb "github.com/lni/dragonboat/v4/raftpb"
)

// C17 (snapshot status delivery behind remote flow control): whatever the
// order of their delays, every delayed SnapshotStatus message handed to the
// queue is returned by Get exactly once, never before its delay has passed,
// and no later than the first Get after it; other messages are returned
// exactly once by the next Get, in order.
//vcheck: reach=out-of-order-delays,delivered,done workers=16
func VHarness_C17_DelayedMessages() {
	q := NewMessageQueue(8, false, 0, 0)
	type rec struct {
		id        uint64
		due       uint64 // first tick value at which it may be delivered
		delivered int
	}
	var delayedMsgs []*rec
	var plain []uint64
	plainSeen := 0
	tick := uint64(0)
	nextID := uint64(1)
	nops := 6
	deliver := func() {
		got := q.Get()
		for i := range got {
			m := got[i]
			if m.Type == pb.SnapshotStatus && m.Hint == 7 {
				found := false
				for _, r := range delayedMsgs {
					if r.id == m.From {
						found = true
						r.delivered++
						vAssert(r.delivered == 1, "delayed-message-delivered-at-most-once")
						vAssert(tick > r.due, "delayed-message-not-before-its-delay")
						vReach("delivered")
					}
				}
				vAssert(found, "only-messages-that-were-added-come-out")
			} else if m.Type == pb.Heartbeat {
				vAssert(plainSeen < len(plain) && plain[plainSeen] == m.From, "ordinary-messages-once-and-in-order")
				plainSeen++
			}
		}
		// nothing that is due stays behind
		for _, r := range delayedMsgs {
			if tick > r.due {
				vAssert(r.delivered == 1, "due-delayed-message-delivered-by-this-get")
			}
		}
		vAssert(plainSeen == len(plain), "ordinary-messages-delivered-by-next-get")
	}
	for i := 0; i < nops; i++ {
		switch vChoose("op", 4) {
		case 0:
			vAssume(len(delayedMsgs) < 3)
			d := vU64("delay")
			vAssume(d < 8)
			id := nextID
			nextID++
			ok := q.AddDelayed(pb.Message{Type: pb.SnapshotStatus, From: id, Hint: 7}, d)
			vAssert(ok, "add-delayed-ok")
			for _, r := range delayedMsgs {
				if r.delivered == 0 && r.due > tick+d {
					vReach("out-of-order-delays") // a later addition that is due earlier
				}
			}
			delayedMsgs = append(delayedMsgs, &rec{id: id, due: tick + d})
		case 1:
			vAssume(len(plain) < 2)
			id := nextID
			nextID++
			ok, stopped := q.Add(pb.Message{Type: pb.Heartbeat, From: id})
			vAssert(ok && !stopped, "add-ok")
			plain = append(plain, id)
		case 2:
			k := vChoose("ticks", 3) + 1
			for j := 0; j < k; j++ {
				q.Tick()
				tick++
			}
		case 3:
			deliver()
		}
	}
	// let every delay pass, then one more Get delivers whatever is left
	for j := 0; j < 9; j++ {
		q.Tick()
		tick++
	}
	deliver()
	for _, r := range delayedMsgs {
		vAssert(r.delivered == 1, "every-delayed-message-delivered-exactly-once")
	}
	vReach("done")
}
