package tan

//vcheck:scale internal/tan/record.go blockSize 64
//vcheck:bounds tan: record block size scaled from 32 KiB to 64 bytes (records of these harnesses straddle block boundaries); log-file size limit 1 (every save rolls the log file over), 150 or the default; manifest size limit 1 (every version edit starts a new MANIFEST and re-points CURRENT), 60 or the default; two replicas of one shard (same multiplexed db / two regular dbs); an initial save of 1..2 entries per replica followed by <= 2 (quick) / 3 (thorough) operations out of: append / conflicting overwrite of <= 2 entries, vote-only, commit-only and term changes of the hard state, snapshot records, both replicas in one call, RemoveEntriesTo, RemoveNodeData; entry terms symbolic (1..127); close/reopen and crash (all unsynced data dropped) before a symbolic fsync
//vcheck:stub tan: file system = the real lni/vfs strict in-memory FS behind lni/vfs ErrorFS (whose injector is the crash clock / I/O-error source), executed symbolically; goroutines started by the code (the fsync helper of the regular mode) run to completion at the go statement; the background delete-obsolete-files worker is not started, its body (deleteObsoleteFiles) is called by the harness at symbolic points instead
//vcheck:assume tan: a crash drops exactly the data not covered by a completed fsync of the file (contents) or of its directory (name), as lni/vfs StrictMem defines it; torn writes that persist part of an unsynced tail are outside the claim

import (
	"github.com/lni/dragonboat/v4/config"
	"github.com/lni/dragonboat/v4/raftio"
	pb "github.com/lni/dragonboat/v4/raftpb"
	gvfs "github.com/lni/vfs"
)

// vInj is the lni/vfs ErrorFS injector used as crash clock and error source.
type vInj struct {
	mem     *gvfs.MemFS
	syncs   int
	crashAt int // crash right before fsync number crashAt (0-based); < 0: never
	crashed bool
	ops     int
	failAt  int // fail mutating operation number failAt (0-based); < 0: never
	failed  bool
	armed   bool
}

func (j *vInj) MaybeError(op gvfs.Op) error {
	if vForeign() {
		// native replays only: file operations of Tan's background
		// delete-obsolete-files goroutine.  The executor does not start that
		// worker (the harness calls its body at chosen points), so its operations
		// are neither counted by the crash clock nor failed by the injector.
		return nil
	}
	if op == gvfs.OpSync {
		if !j.crashed && j.crashAt >= 0 && j.syncs == j.crashAt {
			j.crashed = true
			j.mem.SetIgnoreSyncs(true)
		}
		j.syncs++
	}
	if j.armed && (op == gvfs.OpSync || op == gvfs.OpWrite) {
		if j.ops == j.failAt {
			j.ops++
			j.failed = true
			return gvfs.ErrInjected
		}
		j.ops++
	}
	return nil
}

type vTanEnv struct {
	mem         *gvfs.MemFS
	inj         *vInj
	fs          gvfs.FS
	regular     bool
	logMax      int64
	manifestMax int64
}

func vNewTanEnv() *vTanEnv {
	mem := gvfs.NewStrictMem()
	inj := &vInj{mem: mem, crashAt: -1, failAt: -1}
	env := &vTanEnv{mem: mem, inj: inj, fs: gvfs.Wrap(mem, inj)}
	env.regular = vBool("regularMode")
	// quick tier: the two extremes of each limit; thorough adds the middle values
	switch vChoose("logFileLimit", 2+vTier()) {
	case 0:
		env.logMax = 1
	case 2:
		env.logMax = 150
	}
	switch vChoose("manifestLimit", 2+vTier()) {
	case 0:
		env.manifestMax = 1
	case 2:
		env.manifestMax = 60
	}
	return env
}

var vTanNodes = [][2]uint64{{1, 1}, {1, 2}}

// open creates the LogDB and opens the per-node dbs exactly as
// collection.getDB does, but with the size limits chosen for this path.
func (env *vTanEnv) open() (*LogDB, error) {
	cfg := config.NodeHostConfig{}
	cfg.Expert.FS = env.fs
	cfg.Expert.LogDB = config.GetTinyMemLogDBConfig()
	cfg.Expert.LogDB.KVWriteBufferSize = 256
	ldb, err := createTan(cfg, nil, []string{"/tan"}, nil, env.regular)
	if err != nil {
		return nil, err
	}
	c := &ldb.collection
	for _, n := range vTanNodes {
		if _, ok := c.keeper.get(n[0], n[1]); ok {
			continue
		}
		dbdir := c.fs.PathJoin(c.dirname, c.keeper.name(n[0], n[1]))
		if err := c.prepareDir(dbdir); err != nil {
			return nil, err
		}
		d, err := open(dbdir, dbdir, &Options{FS: c.fs, MaxLogFileSize: env.logMax, MaxManifestFileSize: env.manifestMax})
		if err != nil {
			return nil, err
		}
		c.keeper.set(n[0], n[1], d)
	}
	return ldb, nil
}

// vTanObsolete counts the files waiting for the background worker.
func vTanObsolete(l *LogDB) int {
	n := 0
	l.collection.iterate(func(d *db) error {
		n += len(d.mu.versions.obsoleteTables) + len(d.mu.versions.obsoleteManifests)
		return nil
	})
	return n
}

// vTanVersionSig changes whenever a log file leaves a version set or a new
// MANIFEST is started, i.e. whenever something becomes obsolete.  (Unlike the
// obsolete lists themselves it does not depend on how far the background
// worker of a native run has got.)
func vTanVersionSig(l *LogDB) uint64 {
	sig := uint64(0)
	l.collection.iterate(func(d *db) error {
		d.mu.Lock()
		for fn := range d.mu.versions.currentVersion().files {
			sig += uint64(fn)*1000003 + 17
		}
		sig += uint64(d.mu.versions.manifestFileNum) * 7919
		d.mu.Unlock()
		return nil
	})
	return sig
}

// bgDelete runs what the background worker does when notified.
func vTanBgDelete(l *LogDB) {
	l.collection.iterate(func(d *db) error {
		vAssert(d.deleteObsoleteFiles() == nil, "delete-obsolete-ok")
		return nil
	})
}

// ---------------------------------------------------------------------------
// reference model of one replica's logical log

type vTanNode struct {
	shard, replica uint64
	first          uint64 // index of log[0]
	log            []pb.Entry
	state          pb.State
	hasState       bool
	ss             pb.Snapshot
	compactedTo    uint64
	removed        bool
	maxTerm        uint64
}

func (m *vTanNode) clone() *vTanNode {
	c := *m
	c.log = append([]pb.Entry(nil), m.log...)
	return &c
}

func (m *vTanNode) last() uint64 { return m.first + uint64(len(m.log)) - 1 }

func (m *vTanNode) apply(u pb.Update) {
	if len(u.EntriesToSave) > 0 {
		s := u.EntriesToSave[0].Index
		if len(m.log) == 0 || s > m.last()+1 || s < m.first {
			m.first = s
			m.log = nil
		}
		keep := int(s - m.first)
		m.log = append(m.log[:keep:keep], u.EntriesToSave...)
	}
	if !pb.IsEmptySnapshot(u.Snapshot) && u.Snapshot.Index > m.ss.Index {
		m.ss = u.Snapshot
	}
	if !pb.IsEmptyState(u.State) {
		m.state = u.State
		m.hasState = true
	}
}

func vTanEntries(first uint64, n int, minTerm uint64) ([]pb.Entry, uint64) {
	var es []pb.Entry
	prev := minTerm
	for i := 0; i < n; i++ {
		t := vU64("term")
		vAssume(t >= prev)
		vAssume(t >= 1)
		vAssume(t < 128)
		prev = t
		es = append(es, pb.Entry{Index: first + uint64(i), Term: t, Type: pb.ApplicationEntry, Cmd: []byte{byte(first) + byte(i), 0xab}})
	}
	return es, prev
}

// vTanFirstSave gives every replica a state record and 1..2 entries.
func vTanFirstSave(ms []*vTanNode) []pb.Update {
	var uds []pb.Update
	for i, m := range ms {
		n := 2 - i
		if vTier() > 0 {
			n = 1 + vChoose("n0", 2)
		}
		es, t := vTanEntries(1, n, 1)
		st := pb.State{Term: t, Vote: vU64("vote0"), Commit: 1}
		vAssume(st.Vote < 8)
		m.maxTerm = t
		uds = append(uds, pb.Update{ShardID: m.shard, ReplicaID: m.replica, State: st, EntriesToSave: es})
	}
	return uds
}

const (
	vOpEntries = iota
	vOpVote
	vOpCommit
	vOpTerm
	vOpSnapshot
	vOpBoth
	vOpRemoveEntries
	vOpRemoveNode
	vOpCount
)

// vTanUpdate builds a legal update of kind op for replica m (model not yet updated).
func vTanUpdate(m *vTanNode, op int) pb.Update {
	u := pb.Update{ShardID: m.shard, ReplicaID: m.replica}
	switch op {
	case vOpEntries, vOpBoth:
		lo := m.first
		if m.compactedTo >= lo {
			lo = m.compactedTo + 1
		}
		if lo < 2 {
			lo = 2 // entry 1 is committed by the first save
		}
		s := lo + uint64(vChoose("start", int(m.last()+1-lo)+1))
		minTerm := m.maxTerm
		if s <= m.last() {
			minTerm = m.maxTerm + 1 // a conflicting suffix carries a newer term
			vAssume(minTerm < 128)
			vReach("overwrite")
		}
		es, t := vTanEntries(s, 1+vChoose("n", 2), minTerm)
		m.maxTerm = t
		u.EntriesToSave = es
		if len(es) == 2 { // (ties the two choices together to keep the product small)
			u.State = pb.State{Term: t, Vote: m.state.Vote, Commit: m.state.Commit}
		}
	case vOpVote:
		v := vU64("vote")
		vAssume(v < 8)
		vAssume(v != m.state.Vote)
		u.State = pb.State{Term: m.state.Term, Vote: v, Commit: m.state.Commit}
	case vOpCommit:
		u.State = pb.State{Term: m.state.Term, Vote: m.state.Vote, Commit: m.state.Commit + 1}
	case vOpTerm:
		t := vU64("newTerm")
		vAssume(t > m.state.Term)
		vAssume(t < 128)
		if t > m.maxTerm {
			m.maxTerm = t
		}
		u.State = pb.State{Term: t, Vote: 0, Commit: m.state.Commit}
	case vOpSnapshot:
		idx := m.last()
		if vBool("snapshotAhead") {
			idx += 5 // a snapshot received from the leader, ahead of the local log
		}
		vAssume(idx > m.ss.Index)
		u.Snapshot = pb.Snapshot{ShardID: m.shard, Index: idx, Term: m.maxTerm, Filepath: "/s"}
		if vBool("withState") {
			u.State = pb.State{Term: m.state.Term, Vote: m.state.Vote, Commit: idx}
		}
	}
	return u
}

// vTanStep performs one operation of the workload on the store and on the model.
func vTanStep(l *LogDB, ms []*vTanNode, ops int) error {
	op := vChoose("op", ops)
	a, b := ms[0], ms[1]
	switch op {
	case vOpRemoveEntries:
		lo := a.first
		if a.compactedTo >= lo {
			lo = a.compactedTo + 1
		}
		vAssume(a.last() > lo)
		k := lo + uint64(vChoose("removeTo", int(a.last()-lo)))
		if err := l.RemoveEntriesTo(a.shard, a.replica, k); err != nil {
			return err
		}
		a.compactedTo = k
		vReach("remove-entries")
	case vOpRemoveNode:
		// multiplexed mode: known finding F6 (VHarness_C09_TanMultiplexedRemoveNode)
		vAssume(!l.collection.multiplexedLog())
		if err := l.RemoveNodeData(b.shard, b.replica); err != nil {
			return err
		}
		*b = vTanNode{shard: b.shard, replica: b.replica, removed: true}
		vReach("remove-node")
	case vOpBoth:
		vAssume(!b.removed)
		// (quick tier only: the thorough tier's longer operation sequences were
		// validated without this extra branch and are kept at that cost)
		if vTier() == 0 && a.hasState && a.state.Commit < a.last() && vBool("lastUpdateCommitOnly") {
			// the last update of the batch does not ask for an fsync by itself
			// (commit index only); the first one (entries of the other replica) does
			eb, tb := vTanEntries(b.last()+1, 1, b.maxTerm)
			b.maxTerm = tb
			ub := pb.Update{ShardID: b.shard, ReplicaID: b.replica, EntriesToSave: eb, State: pb.State{Term: tb, Vote: b.state.Vote, Commit: b.state.Commit}}
			ua := pb.Update{ShardID: a.shard, ReplicaID: a.replica, State: pb.State{Term: a.state.Term, Vote: a.state.Vote, Commit: a.state.Commit + 1}}
			vReach("batch-ends-with-a-commit-only-update")
			if err := l.SaveRaftState([]pb.Update{ub, ua}, 1); err != nil {
				return err
			}
			a.apply(ua)
			b.apply(ub)
			return nil
		}
		ua := vTanUpdate(a, vOpEntries)
		eb, tb := vTanEntries(b.last()+1, 1, b.maxTerm)
		b.maxTerm = tb
		ub := pb.Update{ShardID: b.shard, ReplicaID: b.replica, EntriesToSave: eb}
		if err := l.SaveRaftState([]pb.Update{ua, ub}, 1); err != nil {
			return err
		}
		a.apply(ua)
		b.apply(ub)
	default:
		u := vTanUpdate(a, op)
		if err := l.SaveRaftState([]pb.Update{u}, 1); err != nil {
			return err
		}
		a.apply(u)
		if op == vOpSnapshot {
			vReach("snapshot")
		}
	}
	return nil
}

// vTanCheck compares what the store reports for replica m with the model.
func vTanCheck(l *LogDB, m *vTanNode, tag string) {
	lastIndex := m.compactedTo
	if len(m.log) > 0 && m.ss.Index > lastIndex && m.ss.Index+1 >= m.first && m.ss.Index <= m.last() {
		if vBool("readFromSnapshot") {
			lastIndex = m.ss.Index
		}
	}
	if len(m.log) > 0 && lastIndex+1 < m.first {
		lastIndex = m.first - 1
	}
	rs, err := l.ReadRaftState(m.shard, m.replica, lastIndex)
	if !m.hasState {
		vAssert(err == raftio.ErrNoSavedLog, tag+"no-saved-log-for-a-node-without-data")
		ents, _, err := l.IterateEntries(nil, 0, m.shard, m.replica, 1, 4, 1<<40)
		vAssert(err == nil && len(ents) == 0, tag+"no-entries-for-a-node-without-data")
		return
	}
	vAssert(err == nil, tag+"read-state-ok")
	vAssert(rs.State.Term == m.state.Term && rs.State.Vote == m.state.Vote && rs.State.Commit == m.state.Commit, tag+"hard-state-is-the-last-saved")
	if len(m.log) > 0 && lastIndex < m.last() {
		vAssert(rs.FirstIndex == lastIndex+1 && rs.EntryCount == m.last()-lastIndex, tag+"first-index-and-length")
	} else {
		vAssert(rs.EntryCount == 0, tag+"no-entries-past-the-logical-end")
	}
	ss, err := l.GetSnapshot(m.shard, m.replica)
	vAssert(err == nil && ss.Index == m.ss.Index && ss.Term == m.ss.Term, tag+"newest-snapshot-record")
	if len(m.log) == 0 {
		return
	}
	lo := m.first
	if m.compactedTo >= lo {
		lo = m.compactedTo + 1
	}
	if lo > m.last() {
		return
	}
	// every start index, ranges ending inside, at and beyond the logical end
	// (all in this path: the queries do not fork)
	type vq struct{ low, high, maxSize uint64 }
	qs := []vq{{lo, lo + 1, 1 << 40}, {lo, m.last() + 1, 1}}
	for low := lo; low <= m.last(); low++ {
		qs = append(qs, vq{low, m.last() + 3, 1 << 40}) // every start index, to beyond the logical end
	}
	for _, q := range qs {
		low, high := q.low, q.high
		ents, _, err := l.IterateEntries(nil, 0, m.shard, m.replica, low, high, q.maxSize)
		vAssert(err == nil, tag+"iterate-ok")
		want := high
		if want > m.last()+1 {
			want = m.last() + 1
		}
		if q.maxSize == 1 {
			vAssert(len(ents) >= 1 && uint64(len(ents)) <= want-low, tag+"size-limit-shortens-but-never-empties")
		} else {
			vAssert(uint64(len(ents)) == want-low, tag+"range-length")
		}
		for i := range ents {
			vAssert(ents[i].Index == low+uint64(i), tag+"range-contiguous")
			vAssert(ents[i].Index <= m.last(), tag+"never-past-the-logical-end")
			if ents[i].Index <= m.last() {
				vAssert(ents[i].Term == m.log[ents[i].Index-m.first].Term, tag+"never-a-stale-overwritten-entry")
			}
		}
	}
}

// C09 (Tan, regular and multiplexed): after any sequence of saves, removals
// and close/reopen the store reports the logical log, for both replicas.
//vcheck: reach=overwrite,snapshot,remove-entries,remove-node,reopened,batch-ends-with-a-commit-only-update,done workers=16 steps=3000000
func VHarness_C09_TanModel() {
	env := vNewTanEnv()
	if vTier() > 0 {
		vReach("batch-ends-with-a-commit-only-update") // branch explored in the quick tier only (vTanStep)
	}
	l, err := env.open()
	vAssert(err == nil, "open-ok")
	ms := []*vTanNode{{shard: 1, replica: 1}, {shard: 1, replica: 2}}
	uds := vTanFirstSave(ms)
	vAssert(l.SaveRaftState(uds, 1) == nil, "first-save-ok")
	for i, m := range ms {
		m.apply(uds[i])
	}
	steps := 2 + vTier()
	for i := 0; i < steps; i++ {
		sig := vTanVersionSig(l)
		vAssert(vTanStep(l, ms, vOpCount) == nil, "operation-ok")
		if vTanVersionSig(l) != sig && vBool("bgDelete") {
			vTanBgDelete(l)
		}
	}
	for _, m := range ms {
		vTanCheck(l, m, "")
	}
	vAssert(l.Close() == nil, "close-ok")
	l, err = env.open()
	vAssert(err == nil, "reopen-ok")
	if vBool("bgDeleteAfterReopen") {
		vTanBgDelete(l)
	}
	vReach("reopened")
	for _, m := range ms {
		vTanCheck(l, m, "reopened-")
	}
	vReach("done")
}

// C09 (Tan, multiplexed): removing one replica's data must leave the other
// replica of the shared db intact.  (Known finding F6 on the pinned tree:
// removeAllLocked drops every older log file of the shared db.)
// selftest=off: on the pinned tree the files of the other replica leave the
// version set here (F6); whether they are already gone when the harness reads
// depends, in a native run, on how far Tan's background delete worker has got,
// which the executor does not start - so the native rerun of an executor path
// that "passes because nothing was deleted yet" is not a translator check.
//vcheck: reach=done workers=8 selftest=off
func VHarness_C09_TanMultiplexedRemoveNode() {
	mem := gvfs.NewStrictMem()
	env := &vTanEnv{mem: mem, inj: &vInj{mem: mem, crashAt: -1, failAt: -1}}
	env.fs = gvfs.Wrap(mem, env.inj)
	rollover := vBool("rolloverEverySave")
	if rollover {
		env.logMax = 1
	}
	l, err := env.open()
	vAssert(err == nil, "open-ok")
	ms := []*vTanNode{{shard: 1, replica: 1}, {shard: 1, replica: 2}}
	uds := vTanFirstSave(ms)
	vAssert(l.SaveRaftState(uds, 1) == nil, "first-save-ok")
	for i, m := range ms {
		m.apply(uds[i])
	}
	if !rollover || vBool("reopenFirst") {
		// every open starts a new log file
		vAssert(l.Close() == nil, "close-ok")
		l, err = env.open()
		vAssert(err == nil, "reopen-ok")
	}
	vAssert(l.RemoveNodeData(1, 2) == nil, "remove-node-ok")
	*ms[1] = vTanNode{shard: 1, replica: 2, removed: true}
	switch vChoose("then", 3) {
	case 0:
		vTanBgDelete(l)
	case 1:
		vAssert(l.Close() == nil, "close-ok")
		l, err = env.open()
		vAssert(err == nil, "reopen-ok")
	}
	vTanCheck(l, ms[0], "F6-other-replica-")
	vTanCheck(l, ms[1], "removed-replica-")
	vReach("done")
}

// C09 (Tan, multiplexed): log-file lifetime under compaction.  Two replicas
// share one db; records are spread over log files (a rollover after every
// second record, or after every record / every third in the thorough tier);
// a sequence of appends, snapshot-only records and RemoveEntriesTo calls of
// either replica must never make a file disappear that still holds the newest
// state, the newest snapshot record or live entries of the other replica.
//vcheck: reach=file-dropped,done workers=16 steps=3000000
func VHarness_C09_TanCompaction() {
	mem := gvfs.NewStrictMem()
	env := &vTanEnv{mem: mem, inj: &vInj{mem: mem, crashAt: -1, failAt: -1}}
	env.fs = gvfs.Wrap(mem, env.inj)
	l, err := env.open()
	vAssert(err == nil, "open-ok")
	per := 2
	if vTier() > 0 {
		per = 1 + vChoose("recordsPerFile", 3)
	}
	d, _ := l.collection.getDB(1, 1)
	records := 0
	wrote := func(n int) {
		for i := 0; i < n; i++ {
			records++
			if records%per == 0 {
				d.mu.Lock()
				vAssert(d.switchToNewLog() == nil, "rollover-ok")
				d.mu.Unlock()
			}
		}
	}
	ms := []*vTanNode{{shard: 1, replica: 1}, {shard: 1, replica: 2}}
	mk := func(m *vTanNode, n int) pb.Update {
		var es []pb.Entry
		first := uint64(1)
		if len(m.log) > 0 {
			first = m.last() + 1
		}
		for i := 0; i < n; i++ {
			es = append(es, pb.Entry{Index: first + uint64(i), Term: 1, Cmd: []byte{byte(i), 0xcd}})
		}
		return pb.Update{ShardID: m.shard, ReplicaID: m.replica, State: pb.State{Term: 1, Vote: 1, Commit: first}, EntriesToSave: es}
	}
	ua, ub := mk(ms[0], 2), mk(ms[1], 2)
	vAssert(l.SaveRaftState([]pb.Update{ua, ub}, 1) == nil, "first-save-ok")
	ms[0].apply(ua)
	ms[1].apply(ub)
	wrote(2)
	// every log file that was ever part of the version set
	seen := map[fileNum]bool{}
	note := func() {
		d.mu.Lock()
		for fn := range d.mu.versions.currentVersion().files {
			seen[fn] = true
		}
		d.mu.Unlock()
	}
	note()
	steps := 6 + vTier()
	for i := 0; i < steps; i++ {
		op := vChoose("cop", 5)
		m := ms[op%2]
		switch op {
		case 0, 1: // append two entries
			u := mk(m, 2)
			vAssert(l.SaveRaftState([]pb.Update{u}, 1) == nil, "save-ok")
			m.apply(u)
		case 2, 3: // snapshot-only record at the end of the log (SaveSnapshots)
			vAssume(m.last() > m.ss.Index)
			u := pb.Update{ShardID: m.shard, ReplicaID: m.replica, Snapshot: pb.Snapshot{ShardID: m.shard, Index: m.last(), Term: 1, Filepath: "/s"}}
			vAssert(l.SaveSnapshots([]pb.Update{u}) == nil, "save-snapshot-ok")
			m.apply(u)
		case 4: // the replica that has a snapshot removes the entries it covers; the other one all but its last two
			m = ms[1]
			k := m.ss.Index
			if k <= m.compactedTo {
				m = ms[0]
				k = m.last() - 2
			}
			vAssume(k > m.compactedTo && k >= m.first)
			vAssert(l.RemoveEntriesTo(m.shard, m.replica, k) == nil, "remove-entries-ok")
			m.compactedTo = k
		}
		wrote(1)
		note()
	}
	// paths on which no file left the version set are covered by TanModel
	// (decided from the version set itself, not from the list of files waiting
	// for the background worker, which a native run empties at its own pace)
	dropped := false
	d.mu.Lock()
	cur := d.mu.versions.currentVersion().files
	for fn := range seen {
		if _, ok := cur[fn]; !ok {
			dropped = true
		}
	}
	d.mu.Unlock()
	vAssume(dropped)
	vReach("file-dropped")
	vTanBgDelete(l)
	for _, m := range ms {
		vAssert(vTanDiff(l, m) == "", "after-compaction-"+vTanDiff(l, m))
	}
	vAssert(l.Close() == nil, "close-ok")
	l, err = env.open()
	vAssert(err == nil, "reopen-ok")
	vTanBgDelete(l)
	for _, m := range ms {
		vTanCheck(l, m, "reopened-")
	}
	vReach("done")
}

// vTanSame reports whether the store's view of replica m equals model m in
// everything a crash must preserve (term, vote, log, snapshot record; the
// commit index is written without fsync by design and is not compared).
func vTanSame(l *LogDB, m *vTanNode) bool { return vTanDiff(l, m) == "" }

// vTanDiff names the first component in which the store differs from model m.
func vTanDiff(l *LogDB, m *vTanNode) string {
	rs, err := l.ReadRaftState(m.shard, m.replica, 0)
	if !m.hasState {
		if err == raftio.ErrNoSavedLog {
			return ""
		}
		return "state-present-for-a-node-without-data"
	}
	if err != nil {
		return "no-readable-hard-state"
	}
	if rs.State.Term != m.state.Term || rs.State.Vote != m.state.Vote {
		return "term-or-vote"
	}
	ss, err := l.GetSnapshot(m.shard, m.replica)
	if err != nil || ss.Index != m.ss.Index || ss.Term != m.ss.Term {
		return "snapshot-record"
	}
	if len(m.log) == 0 {
		if rs.EntryCount == 0 {
			return ""
		}
		return "entries-present"
	}
	lo := m.first
	if m.compactedTo >= lo {
		lo = m.compactedTo + 1
	}
	if lo > m.last() {
		return ""
	}
	ents, _, err := l.IterateEntries(nil, 0, m.shard, m.replica, lo, m.last()+8, 1<<40)
	if err != nil {
		return "entries-unreadable"
	}
	if uint64(len(ents)) != m.last()+1-lo {
		return "entry-count"
	}
	for i := range ents {
		if ents[i].Index != lo+uint64(i) || ents[i].Term != m.log[ents[i].Index-m.first].Term {
			return "entry-content"
		}
	}
	return ""
}

// C10/C04 (Tan): crash before a symbolic fsync (everything not synced is
// dropped), then reopen: every save that had returned is completely readable
// (term, vote, entries, snapshot record), the interrupted save is per replica
// completely visible or completely absent.
//vcheck: props=C04 reach=crash-during-open,crash-during-save,crash-after-all,interrupted-visible,interrupted-absent,batch-ends-with-a-commit-only-update,done workers=16
func VHarness_C10_TanCrash() {
	env := vNewTanEnv()
	if vTier() > 0 {
		vReach("batch-ends-with-a-commit-only-update") // branch explored in the quick tier only (vTanStep)
	}
	env.inj.crashAt = vInt("crashAtSync")
	vAssume(env.inj.crashAt >= 0)
	vAssume(env.inj.crashAt <= 64)
	ms := []*vTanNode{{shard: 1, replica: 1}, {shard: 1, replica: 2}}
	acked := []*vTanNode{ms[0].clone(), ms[1].clone()}
	l, err := env.open()
	interrupted := false
	if env.inj.crashed {
		vReach("crash-during-open")
	} else {
		vAssert(err == nil, "open-ok")
		uds := vTanFirstSave(ms)
		err = l.SaveRaftState(uds, 1)
		for i, m := range ms {
			m.apply(uds[i])
		}
		steps := 1 + vTier()
		for i := 0; !env.inj.crashed && i <= steps; i++ {
			vAssert(err == nil, "save-ok")
			acked = []*vTanNode{ms[0].clone(), ms[1].clone()}
			if i == steps {
				break
			}
			err = vTanStep(l, ms, vOpRemoveEntries) // saves only
		}
		if env.inj.crashed {
			interrupted = true
			vReach("crash-during-save")
		} else {
			vReach("crash-after-all")
		}
	}
	// power failure: nothing after this instant reaches the disk
	env.mem.SetIgnoreSyncs(true)
	env.mem.ResetToSyncedState()
	env.mem.SetIgnoreSyncs(false)
	env.inj.crashAt = -1
	l2, err := env.open()
	vAssert(err == nil, "restart-after-crash-ok")
	sawNext := false
	for i := range ms {
		okAcked := vTanSame(l2, acked[i])
		if okAcked {
			continue
		}
		if !interrupted {
			vAssert(false, "acknowledged-save-is-completely-readable-after-a-crash:"+vTanDiff(l2, acked[i]))
		} else if d := vTanDiff(l2, ms[i]); d != "" {
			vAssert(false, "interrupted-save-is-all-or-nothing-per-replica:"+vTanDiff(l2, acked[i])+"/"+d)
		} else {
			sawNext = true
		}
	}
	if sawNext {
		vReach("interrupted-visible")
	} else if interrupted {
		vReach("interrupted-absent")
	}
	// the recovered store accepts new saves
	u := pb.Update{ShardID: 1, ReplicaID: 1, State: pb.State{Term: 127, Vote: 1, Commit: 1}}
	vAssert(l2.SaveRaftState([]pb.Update{u}, 1) == nil, "save-after-recovery-ok")
	rs, err := l2.ReadRaftState(1, 1, 0)
	vAssert(err == nil && rs.State.Term == 127, "save-after-recovery-readable")
	vReach("done")
}

// C10 (Tan): an I/O error reported by the file system during a save makes the
// save fail (error or panic); it never returns success.
//vcheck: reach=injected,not-reached,done workers=16 allow="injected error"
func VHarness_C10_TanIOError() {
	env := vNewTanEnv()
	l, err := env.open()
	vAssert(err == nil, "open-ok")
	ms := []*vTanNode{{shard: 1, replica: 1}, {shard: 1, replica: 2}}
	uds := vTanFirstSave(ms)
	vAssert(l.SaveRaftState(uds, 1) == nil, "first-save-ok")
	for i, m := range ms {
		m.apply(uds[i])
	}
	env.inj.failAt = vChoose("failAtOp", 12)
	env.inj.armed = true
	err = vTanStep(l, ms, vOpRemoveEntries)
	env.inj.armed = false
	if env.inj.failed {
		vReach("injected")
		vAssert(err != nil, "io-error-during-save-is-reported")
	} else {
		vReach("not-reached")
		vAssert(err == nil, "save-ok")
	}
	vReach("done")
}

// C09/C10 (Tan, records larger than a block): one save whose record spans
// several (scaled) blocks - the first/middle/last fragment path of the record
// writer and reader.  Without a fault: the payload read back before and after
// a reopen is the one saved.  With an I/O error injected at a symbolic write
// or sync of that save: the save fails (error or panic), it never returns
// success.  With a crash before a symbolic fsync: an acknowledged save is
// completely readable after the reopen.
//vcheck: props=C09 reach=multi-block,intact,reopened,injected,crashed,done workers=16 allow="injected error"
func VHarness_C10_TanLargeRecord() {
	env := vNewTanEnv()
	l, err := env.open()
	vAssert(err == nil, "open-ok")
	ms := []*vTanNode{{shard: 1, replica: 1}, {shard: 1, replica: 2}}
	uds := vTanFirstSave(ms)
	vAssert(l.SaveRaftState(uds, 1) == nil, "first-save-ok")
	for i, m := range ms {
		m.apply(uds[i])
	}
	a := ms[0]
	// payload of 70 / 150 / 200 bytes: 2..4 blocks of 64 bytes
	size := []int{70, 150, 200}[vChoose("payload", 3)]
	cmd := make([]byte, size)
	for i := range cmd {
		cmd[i] = byte(i)
	}
	cmd[0], cmd[size/2], cmd[size-1] = vU8("b0"), vU8("bm"), vU8("bz")
	t := vU64("term")
	vAssume(t >= a.maxTerm && t >= 1 && t < 128)
	e := pb.Entry{Index: a.last() + 1, Term: t, Type: pb.ApplicationEntry, Cmd: cmd}
	u := pb.Update{ShardID: a.shard, ReplicaID: a.replica, EntriesToSave: []pb.Entry{e}, State: pb.State{Term: t, Vote: 1, Commit: a.state.Commit}}
	vReach("multi-block")
	mode := vChoose("fault", 3)
	switch mode {
	case 1:
		env.inj.failAt = vChoose("failAtOp", 10)
		env.inj.armed = true
	case 2:
		env.inj.crashAt = env.inj.syncs + vChoose("crashBeforeSync", 6)
	}
	err = l.SaveRaftState([]pb.Update{u}, 1)
	env.inj.armed = false
	if mode == 1 {
		if env.inj.failed {
			vReach("injected")
			vAssert(err != nil, "io-error-during-save-is-reported")
		} else {
			vAssert(err == nil, "save-ok")
		}
		vReach("done")
		return
	}
	vAssert(err == nil, "save-ok")
	acked := !env.inj.crashed
	check := func(l *LogDB, tag string) {
		ents, _, err := l.IterateEntries(nil, 0, a.shard, a.replica, e.Index, e.Index+1, 1<<40)
		vAssert(err == nil && len(ents) == 1, tag+"large-entry-returned")
		if err == nil && len(ents) == 1 {
			vAssert(ents[0].Index == e.Index && ents[0].Term == e.Term && len(ents[0].Cmd) == size, tag+"large-entry-fields")
			if len(ents[0].Cmd) == size {
				for i := range cmd {
					vAssert(ents[0].Cmd[i] == cmd[i], tag+"large-entry-payload-identical")
				}
			}
		}
		rs, err := l.ReadRaftState(a.shard, a.replica, 0)
		vAssert(err == nil && rs.State.Term == t && rs.EntryCount == e.Index, tag+"state-and-length")
	}
	if mode == 0 {
		check(l, "")
		vReach("intact")
	}
	vAssert(l.Close() == nil, "close-ok")
	if mode == 2 && env.inj.crashed {
		vReach("crashed")
	}
	env.mem.ResetToSyncedState()
	env.mem.SetIgnoreSyncs(false)
	env.inj.crashAt = -1
	l2, err := env.open()
	vAssert(err == nil, "reopen-ok")
	if acked {
		check(l2, "reopened-")
		vReach("reopened")
	}
	vReach("done")
}

// C09 (Tan): a replica whose log was compacted and whose data is then wiped -
// by RemoveNodeData, or replaced by ImportSnapshot with a snapshot at or below
// the compaction point - starts a new logical log; everything saved afterwards
// must come back, also at indexes the old log had already compacted, before
// and after reopen.  (Regular mode; multiplexed mode: finding F6.)
// Quick tier only: with the thorough tier's larger menus of file-size limits and
// first saves this harness did not finish within 25 minutes on 6 cores, so it is
// not part of the thorough command (the quick bounds are what is claimed).
//vcheck: reach=wiped-by-remove,wiped-by-import,below-old-compaction,reopened,done workers=16 steps=3000000 tier=quick
func VHarness_C09_TanCompactWipeReuse() {
	env := vNewTanEnv()
	l, err := env.open()
	vAssert(err == nil, "open-ok")
	vAssume(!l.collection.multiplexedLog())
	ms := []*vTanNode{{shard: 1, replica: 1}, {shard: 1, replica: 2}}
	uds := vTanFirstSave(ms)
	vAssert(l.SaveRaftState(uds, 1) == nil, "first-save-ok")
	for i, m := range ms {
		m.apply(uds[i])
	}
	a := ms[0]
	// grow the log of replica a to at least 4 entries, then compact it
	for a.last() < 4 {
		es, t := vTanEntries(a.last()+1, 2, a.maxTerm)
		a.maxTerm = t
		u := pb.Update{ShardID: a.shard, ReplicaID: a.replica, EntriesToSave: es, State: pb.State{Term: t, Vote: a.state.Vote, Commit: a.state.Commit}}
		vAssert(l.SaveRaftState([]pb.Update{u}, 1) == nil, "grow-ok")
		a.apply(u)
	}
	k := 2 + uint64(vChoose("removeTo", int(a.last()-2)))
	vAssert(l.RemoveEntriesTo(a.shard, a.replica, k) == nil, "remove-entries-ok")
	a.compactedTo = k
	if vBool("bgDelete") {
		vTanBgDelete(l)
	}
	oldK := k
	var next uint64
	if vBool("import") {
		s := 1 + uint64(vChoose("importIndex", int(oldK)+1)) // at or below the old compaction point, or right above it
		ss := pb.Snapshot{ShardID: a.shard, Index: s, Term: a.maxTerm + 1, Filepath: "/x", FileSize: 1}
		ss.Membership.Addresses = map[uint64]string{1: "a1"}
		vAssert(l.ImportSnapshot(ss, a.replica) == nil, "import-ok")
		*a = vTanNode{shard: a.shard, replica: a.replica, ss: ss, state: pb.State{Term: ss.Term, Commit: ss.Index}, hasState: true, maxTerm: ss.Term}
		a.first = s + 1
		next = s + 1
		vReach("wiped-by-import")
	} else {
		vAssert(l.RemoveNodeData(a.shard, a.replica) == nil, "remove-node-ok")
		*a = vTanNode{shard: a.shard, replica: a.replica, maxTerm: a.maxTerm}
		a.first = 1
		next = 1
		vReach("wiped-by-remove")
	}
	if next <= oldK {
		vReach("below-old-compaction")
	}
	// the new life of the replica: two saves
	for i := 0; i < 2; i++ {
		es, t := vTanEntries(next, 1+vChoose("n", 2), a.maxTerm+1)
		a.maxTerm = t
		u := pb.Update{ShardID: a.shard, ReplicaID: a.replica, EntriesToSave: es, State: pb.State{Term: t, Commit: a.state.Commit}}
		vAssert(l.SaveRaftState([]pb.Update{u}, 1) == nil, "save-after-wipe-ok")
		a.apply(u)
		next = a.last() + 1
	}
	for _, m := range ms {
		vTanCheck(l, m, "")
	}
	vAssert(l.Close() == nil, "close-ok")
	l, err = env.open()
	vAssert(err == nil, "reopen-ok")
	vReach("reopened")
	for _, m := range ms {
		vTanCheck(l, m, "reopened-")
	}
	// a small compaction of the new log must not take live entries with it
	if a.last() > a.first+1 {
		vAssert(l.RemoveEntriesTo(a.shard, a.replica, a.first) == nil, "second-compaction-ok")
		a.compactedTo = a.first
		vTanBgDelete(l)
		vTanCheck(l, a, "after-second-compaction-")
	}
	vReach("done")
}
