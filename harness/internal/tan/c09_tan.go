package tan

//vcheck:scale internal/tan/record.go blockSize 64
//vcheck:bounds tan: record block size scaled from 32 KiB to 64 bytes (records of this harness then straddle block boundaries); one or two replicas; <= 3 saves of <= 3 entries with symbolic terms (1..127), symbolic hard state; close/reopen and crash (all unsynced data dropped) at the points listed per harness
//vcheck:stub tan: file system = the real lni/vfs strict in-memory FS (SetIgnoreSyncs / ResetToSyncedState for crashes) executed symbolically; goroutines started by the code (the fsync helper of the regular mode) run to completion at the go statement

import (
	"github.com/lni/dragonboat/v4/config"
	"github.com/lni/dragonboat/v4/internal/vfs"
	pb "github.com/lni/dragonboat/v4/raftpb"
)

func vTanConfig(fs vfs.IFS) config.NodeHostConfig {
	cfg := config.NodeHostConfig{}
	cfg.Expert.FS = fs
	cfg.Expert.LogDB = config.GetTinyMemLogDBConfig()
	cfg.Expert.LogDB.KVWriteBufferSize = 256
	return cfg
}

func vTanEntries(first uint64, n int, minTerm uint64) ([]pb.Entry, uint64) {
	var es []pb.Entry
	prev := minTerm
	for i := 0; i < n; i++ {
		t := vU64("term")
		vAssume(t >= prev)
		vAssume(t >= 1)
		vAssume(t < 128)
		prev = t
		es = append(es, pb.Entry{Index: first + uint64(i), Term: t, Type: pb.ApplicationEntry, Cmd: []byte{byte(first) + byte(i), 0xab}})
	}
	return es, prev
}

//vcheck: reach=done workers=4 tier=thorough
func VHarness_C09_TanProbe() {
	fs := vfs.NewMemFS()
	cfg := vTanConfig(fs)
	db, err := CreateLogMultiplexedTan(cfg, nil, []string{"/tan"}, nil)
	vAssert(err == nil, "open-ok")
	es, _ := vTanEntries(1, 2, 1)
	st := pb.State{Term: 3, Vote: 2, Commit: 1}
	vAssert(db.SaveRaftState([]pb.Update{{ShardID: 1, ReplicaID: 1, State: st, EntriesToSave: es}}, 1) == nil, "save-ok")
	rs, err := db.ReadRaftState(1, 1, 0)
	vAssert(err == nil && rs.State.Term == 3 && rs.EntryCount == 2 && rs.FirstIndex == 1, "read-state")
	got, _, err := db.IterateEntries(nil, 0, 1, 1, 1, 3, 1<<40)
	vAssert(err == nil && len(got) == 2 && got[0].Term == es[0].Term && got[1].Term == es[1].Term, "read-entries")
	vAssert(db.Close() == nil, "close-ok")
	db2, err := CreateLogMultiplexedTan(cfg, nil, []string{"/tan"}, nil)
	vAssert(err == nil, "reopen-ok")
	rs, err = db2.ReadRaftState(1, 1, 0)
	if err != nil {
		vAssert(false, "E:"+err.Error())
	}
	vAssert(rs.State.Term == 3, "read-state-after-reopen-term")
	vAssert(rs.State.Vote == 2, "read-state-after-reopen-vote")
	vAssert(rs.EntryCount == 2, "read-state-after-reopen-count")
	got, _, err = db2.IterateEntries(nil, 0, 1, 1, 1, 3, 1<<40)
	vAssert(err == nil && len(got) == 2 && got[0].Term == es[0].Term && got[1].Term == es[1].Term, "read-entries-after-reopen")
	vReach("done")
}
