package tan

import (
	"bytes"
	"io"

	"github.com/lni/dragonboat/v4/internal/vfs"
)

//vcheck: reach=done tier=thorough
func VHarness_C09_Dbg() {
	fs := vfs.NewMemFS()
	vAssert(fs.MkdirAll("/tan/x", 0755) == nil, "mkdir")
	dir, _ := fs.OpenDir("/tan/x")
	vAssert(setCurrentFile("/tan/x", fs, 1) == nil, "setcurrent")
	dir.Sync()
	current, err := fs.Open("/tan/x/CURRENT")
	vAssert(err == nil, "open")
	sti, _ := current.Stat()
	vAssert(sti.Size() == 23, "size23:"+string(rune(48+sti.Size()/10))+string(rune(48+sti.Size()%10)))
	r := newReader(current, fileNum(0))
	cr, err := r.next()
	vAssert(err == nil, "next")
	var buf bytes.Buffer
	_, err = io.Copy(&buf, cr)
	vAssert(err == nil, "copy")
	b := buf.Bytes()
	vAssert(len(b) == 16, "len16:"+string(rune(48+len(b)/10))+string(rune(48+len(b)%10)))
	vAssert(b[len(b)-1] == '\n', "nl")
	b = bytes.TrimSpace(b)
	vAssert(string(b) == "MANIFEST-000001", "S:"+string(b))
	_, n, ok := parseFilename(fs, string(b))
	vAssert(ok && n == 1, "parse")
	vReach("done")
}
