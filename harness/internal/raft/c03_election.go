package raft

import (
	pb "github.com/lni/dragonboat/v4/raftpb"
)

func vQuickShapes() []int {
	if vTier() > 0 {
		return []int{vS1, vS3, vS3w, vS4, vS5}
	}
	return []int{vS3, vS3w, vS4}
}

func vStdLog() vLogOpts {
	if vTier() > 0 {
		return vLogOpts{maxPers: 1, maxWin: 2, ss: true}
	}
	return vLogOpts{maxPers: 1, maxWin: 1}
}

// vSender returns a symbolic sender id: any member id, or 9 for a replica that
// is not (or no longer) a member.  It is never the local replica.
// vLeaderSender is the sender of a leader message (Replicate, Heartbeat,
// InstallSnapshot): its identity only ends up in leaderID, so the quick tier
// uses one voting member; the thorough tier any member or non-member.
func vLeaderSender(c vCluster) uint64 {
	if vTier() > 0 {
		return vSender(c)
	}
	for _, id := range c.shape.voters {
		if id != c.self {
			return id
		}
	}
	return 9
}

func vSender(c vCluster) uint64 {
	from := vU64("from")
	vAssume(from != c.self)
	vAssume(vOr(vIn(from, c.shape.all()), from == 9))
	return from
}

// C03: RequestVote from an arbitrary state: one vote per term, a grant is
// recorded, election restriction (V1 V2 V3) + every frame lemma.
// vcheck: props=C04 reach=granted,rejected,state-changed,done workers=16
func VHarness_C03_RequestVote() {
	r, c := vRaft(vRaftOpts{shapes: vQuickShapes(), log: vStdLog(), flags: true, maxRead: vTier()})
	p := vRecord(r)
	m := pb.Message{Type: pb.RequestVote, To: c.self, From: vSender(c), Term: vU64("mterm"),
		LogTerm: vU64("mlogterm"), LogIndex: vU64("mlogindex"), Hint: vU64("hint")}
	vAssume(m.Term >= 1)
	vAssume(m.Term < vMaxIdx)
	// what the log store holds is what the previous Update carried
	peer := Peer{raft: r, prevState: pb.State{Term: p.term, Vote: p.vote, Commit: p.log.committed}}
	err := peer.Handle(m)
	vAssert(err == nil, "noerr")
	vFrame(p, r, c, "")
	li := p.log.last()
	lt := p.log.term(li)
	// V2 (second half): the vote and term reach the log store with the very
	// Update that carries the response, whenever they differ from what is stored
	if r.term != p.term || r.vote != p.vote {
		vAssert(peer.HasUpdate(true), "V2-changed-hard-state-makes-an-update")
		ud, uerr := peer.GetUpdate(true, r.applied)
		vAssert(uerr == nil, "noerr")
		vAssert(ud.State.Term == r.term && ud.State.Vote == r.vote, "V2-update-carries-the-changed-term-and-vote")
		vReach("state-changed")
	}
	for i := range r.msgs {
		out := &r.msgs[i]
		if out.Type == pb.RequestVoteResp && !out.Reject {
			vReach("granted")
			vAssert(out.To == m.From, "V2-grant-to-requester")
			vAssert(vOr(m.LogTerm > lt, vAnd(m.LogTerm == lt, m.LogIndex >= li)), "V3-election-restriction")
			vAssert(m.Term == r.term, "V2-grant-at-message-term")
		}
		if out.Type == pb.RequestVoteResp && out.Reject {
			vReach("rejected")
		}
	}
	vReach("done")
}

// C03/C02: a message carrying a term lower than the local term never changes
// term, vote, role or log (it is dropped, at most answered with NoOP).
// vcheck: props=C17 reach=noop,done workers=16
func VHarness_C03_StaleTerm() {
	r, c := vRaft(vRaftOpts{shapes: vQuickShapes(), log: vStdLog(), flags: true})
	p := vRecord(r)
	types := []pb.MessageType{pb.Replicate, pb.ReplicateResp, pb.RequestVote, pb.RequestVoteResp, pb.InstallSnapshot,
		pb.Heartbeat, pb.HeartbeatResp, pb.ReadIndexResp, pb.TimeoutNow, pb.RequestPreVote, pb.RequestPreVoteResp, pb.NoOP}
	m := pb.Message{Type: types[vChoose("mtype", len(types))], To: c.self, From: vSender(c), Term: vU64("mterm"),
		LogTerm: vU64("mlogterm"), LogIndex: vU64("mlogindex"), Commit: vU64("mcommit"), Reject: vBool("reject"), Hint: vU64("hint")}
	vAssume(m.Term >= 1)
	vAssume(m.Term < r.term)
	if isPreVoteMessage(m.Type) {
		vAssume(r.preVote)
	}
	peer := Peer{raft: r}
	err := peer.Handle(m)
	vAssert(err == nil, "noerr")
	vFrame(p, r, c, "")
	post := vSnapLog(r.log)
	vAssert(r.term == p.term && r.vote == p.vote && r.state == p.state, "stale-term-no-state-change")
	vAssert(post.last() == p.log.last() && post.committed == p.log.committed, "stale-term-no-log-change")
	for i := range r.msgs {
		vAssert(r.msgs[i].Type == pb.NoOP && r.msgs[i].To == m.From, "stale-term-only-noop-reply")
	}
	// C17/P4: with CheckQuorum or PreVote a lower-term leader (or pre-vote
	// candidate) is told about the higher term, otherwise it could never catch up
	if m.Type == pb.RequestPreVote || (isLeaderMessage(m.Type) && (r.checkQuorum || r.preVote)) {
		_, known := r.remotes[m.From]
		_, knownN := r.nonVotings[m.From]
		_, knownW := r.witnesses[m.From]
		if known || knownN || knownW || !isResponseMessageType(m.Type) {
			vAssert(len(r.msgs) == 1, "P4-noop-reply-to-lower-term-leader")
			vReach("noop")
		}
	}
	vReach("done")
}

func vSmallLog() vLogOpts {
	if vTier() > 0 {
		return vLogOpts{maxPers: 1, maxWin: 2, ss: true}
	}
	return vLogOpts{maxPers: 1, maxWin: 1, noAppliedTo: true, allSaved: true}
}

// vGranted counts, independently of raft.votes bookkeeping, how many voting
// members have granted their vote once the response m has been taken into
// account (first response of a member wins).
func vGranted(p *vPre, c vCluster, m pb.Message) uint64 {
	n := uint64(0)
	for _, id := range c.shape.voting() {
		g, seen := p.votes[id]
		yes := vOr(vAnd(seen, g), vAnd(!seen, vAnd(m.From == id, !m.Reject)))
		n += vIte(yes, 1, 0)
	}
	return n
}

// C03/V4 (+C18): a candidate becomes leader only with granted votes from a
// quorum of voting members; responses of non-voting or unknown replicas never count.
// vcheck: props=C18 reach=elected,notelected,done workers=16
func VHarness_C03_VoteResp() {
	shapes := []int{vS3, vS3w, vS4}
	if vTier() > 0 {
		shapes = []int{vS1, vS3, vS3w, vS4, vS5, vS5w}
	}
	r, c := vRaft(vRaftOpts{shapes: shapes, log: vSmallLog(), roles: []State{candidate}, votes: true, flags: true})
	p := vRecord(r)
	m := pb.Message{Type: pb.RequestVoteResp, To: c.self, From: vSender(c), Term: r.term, Reject: vBool("reject")}
	peer := Peer{raft: r}
	err := peer.Handle(m)
	vAssert(err == nil, "noerr")
	vFrame(p, r, c, "")
	q := uint64(len(c.shape.voting())/2 + 1)
	granted := vGranted(p, c, m)
	if r.state == leader {
		vReach("elected")
		vAssert(granted >= q, "V4-leader-needs-quorum-of-granted-votes")
		vAssert(vIn(c.self, c.shape.voters), "V4-leader-is-voter")
		// V6: the new leader appends an entry of its own term
		post := vSnapLog(r.log)
		vAssert(post.last() == p.log.last()+1, "V6-noop-appended")
		vAssert(post.term(post.last()) == r.term, "V6-noop-at-own-term")
	} else {
		vReach("notelected")
		vAssert(granted < q || p.state != candidate, "V4-quorum-elects")
	}
	vReach("done")
}

// C03: pre-vote traffic never changes term, vote or role of the receiver, and a
// pre-vote is only granted to a candidate with an up-to-date log at a higher term.
// vcheck: reach=granted,rejected,done workers=16
func VHarness_C03_RequestPreVote() {
	r, c := vRaft(vRaftOpts{shapes: vQuickShapes(), log: vSmallLog(), flags: true, preVote: true})
	p := vRecord(r)
	m := pb.Message{Type: pb.RequestPreVote, To: c.self, From: vSender(c), Term: vU64("mterm"),
		LogTerm: vU64("mlogterm"), LogIndex: vU64("mlogindex")}
	vAssume(m.Term >= r.term) // lower terms: VHarness_C03_StaleTerm
	vAssume(m.Term < vMaxIdx)
	peer := Peer{raft: r}
	err := peer.Handle(m)
	vAssert(err == nil, "noerr")
	vFrame(p, r, c, "")
	vAssert(r.term == p.term && r.vote == p.vote && r.state == p.state && r.leaderID == p.leaderID, "PV-no-state-change")
	li := p.log.last()
	lt := p.log.term(li)
	for i := range r.msgs {
		out := &r.msgs[i]
		if out.Type == pb.RequestPreVoteResp && !out.Reject {
			vReach("granted")
			vAssert(m.Term > p.term, "PV-grant-needs-higher-term")
			vAssert(vOr(m.LogTerm > lt, vAnd(m.LogTerm == lt, m.LogIndex >= li)), "PV-grant-needs-up-to-date-log")
		}
		if out.Type == pb.RequestPreVoteResp && out.Reject {
			vReach("rejected")
		}
	}
	vReach("done")
}

// C03: a pre-vote candidate starts the real campaign only with a quorum of
// pre-votes, and never becomes leader through pre-vote responses alone
// (except as the only voting member).
// vcheck: reach=campaign,waiting,done workers=16
func VHarness_C03_PreVoteResp() {
	shapes := []int{vS3, vS3w, vS4}
	r, c := vRaft(vRaftOpts{shapes: shapes, log: vSmallLog(), roles: []State{preVoteCandidate}, votes: true, flags: true, preVote: true})
	p := vRecord(r)
	m := pb.Message{Type: pb.RequestPreVoteResp, To: c.self, From: vSender(c), Term: vU64("mterm"), Reject: vBool("reject")}
	// Peer.Handle does not filter RequestPreVoteResp by membership (it does for
	// RequestVoteResp); a pre-vote response is only ever sent by a replica that was
	// asked, i.e. a voting member, so the sender is taken among the members.
	vAssume(m.From != 9)
	// a granted pre-vote carries the prospective term, a rejection the responder's term
	vAssume(vOr(vAnd(!m.Reject, m.Term == r.term+1), vAnd(m.Reject, m.Term == r.term)))
	peer := Peer{raft: r}
	err := peer.Handle(m)
	vAssert(err == nil, "noerr")
	vFrame(p, r, c, "")
	q := uint64(len(c.shape.voting())/2 + 1)
	granted := vGranted(p, c, m)
	vAssert(r.state != leader, "PV-never-leader-directly")
	if r.state == candidate {
		vReach("campaign")
		vAssert(granted >= q, "PV-campaign-needs-quorum")
		vAssert(r.term == p.term+1 && r.vote == c.self, "PV-campaign-bumps-term-and-votes-self")
	} else {
		vReach("waiting")
		vAssert(r.term == p.term && r.vote == p.vote, "PV-no-term-change-without-quorum")
	}
	vReach("done")
}

// C03/V5 (+C04/O3): a restarted replica comes back with the term, vote and
// commit index recorded in its log store.
// vcheck: props=C04 reach=done workers=4
func VHarness_C03_Restart() {
	db := &vDB{}
	n := vChoose("n", 3)
	prev := uint64(1)
	for i := 0; i < n; i++ {
		t := vU64("t")
		vAssume(t >= prev)
		vAssume(t < vMaxIdx)
		prev = t
		db.ents = append(db.ents, pb.Entry{Index: uint64(i + 1), Term: t})
	}
	db.state = pb.State{Term: vU64("term"), Vote: vU64("vote"), Commit: vU64("commit")}
	vAssume(db.state.Term >= prev)
	vAssume(db.state.Commit <= uint64(n))
	vAssume(db.state.Term >= 1)
	db.members.Addresses = map[uint64]string{1: "a1", 2: "a2", 3: "a3"}
	cfg := vConfig(1)
	p := Launch(cfg, db, nil, nil, false, false)
	r := p.raft
	vAssert(r.term == db.state.Term && r.vote == db.state.Vote, "V5-term-and-vote-reloaded")
	vAssert(r.log.committed == db.state.Commit, "V5-commit-reloaded")
	vAssert(r.state == follower, "V5-restarts-as-follower")
	vAssert(r.log.lastIndex() == uint64(n), "V5-log-reloaded")
	// and it still refuses a second vote in that term
	if db.state.Vote != 0 {
		m := pb.Message{Type: pb.RequestVote, To: 1, From: vU64("from"), Term: db.state.Term, LogTerm: vU64("lt"), LogIndex: vU64("li")}
		vAssume(m.From == 2 || m.From == 3)
		vAssume(m.From != db.state.Vote)
		err := p.Handle(m)
		vAssert(err == nil, "noerr")
		for i := range r.msgs {
			vAssert(r.msgs[i].Type != pb.RequestVoteResp || r.msgs[i].Reject, "V5-no-second-vote-after-restart")
		}
	}
	vReach("done")
}
