package raft

import (
	pb "github.com/lni/dragonboat/v4/raftpb"
)

func vQuickShapes() []int {
	if vTier() > 0 {
		return []int{vS1, vS3, vS3w, vS4, vS5}
	}
	return []int{vS3, vS3w, vS4}
}

func vStdLog() vLogOpts {
	if vTier() > 0 {
		return vLogOpts{maxPers: 1, maxWin: 2, ss: true}
	}
	return vLogOpts{maxPers: 1, maxWin: 1}
}

// vSender returns a symbolic sender id: any member id, or 9 for a replica that
// is not (or no longer) a member.  It is never the local replica.
// vLeaderSender is the sender of a leader message (Replicate, Heartbeat,
// InstallSnapshot): its identity only ends up in leaderID, so the quick tier
// uses one voting member; the thorough tier any member or non-member.
func vLeaderSender(c vCluster) uint64 {
	if vTier() > 0 {
		return vSender(c)
	}
	for _, id := range c.shape.voters {
		if id != c.self {
			return id
		}
	}
	return 9
}

func vSender(c vCluster) uint64 {
	from := vU64("from")
	vAssume(from != c.self)
	vAssume(vOr(vIn(from, c.shape.all()), from == 9))
	return from
}

// C03: RequestVote from an arbitrary state: one vote per term, a grant is
// recorded, election restriction (V1 V2 V3) + every frame lemma.
// vcheck: reach=granted,rejected,done workers=16
func VHarness_C03_RequestVote() {
	r, c := vRaft(vRaftOpts{shapes: vQuickShapes(), log: vStdLog(), flags: true, maxRead: vTier()})
	p := vRecord(r)
	m := pb.Message{Type: pb.RequestVote, To: c.self, From: vSender(c), Term: vU64("mterm"),
		LogTerm: vU64("mlogterm"), LogIndex: vU64("mlogindex"), Hint: vU64("hint")}
	vAssume(m.Term >= 1)
	vAssume(m.Term < vMaxIdx)
	peer := Peer{raft: r}
	err := peer.Handle(m)
	vAssert(err == nil, "noerr")
	vFrame(p, r, c, "")
	li := p.log.last()
	lt := p.log.term(li)
	for i := range r.msgs {
		out := &r.msgs[i]
		if out.Type == pb.RequestVoteResp && !out.Reject {
			vReach("granted")
			vAssert(out.To == m.From, "V2-grant-to-requester")
			vAssert(vOr(m.LogTerm > lt, vAnd(m.LogTerm == lt, m.LogIndex >= li)), "V3-election-restriction")
			vAssert(m.Term == r.term, "V2-grant-at-message-term")
		}
		if out.Type == pb.RequestVoteResp && out.Reject {
			vReach("rejected")
		}
	}
	vReach("done")
}

// C03/C02: a message carrying a term lower than the local term never changes
// term, vote, role or log (it is dropped, at most answered with NoOP).
// vcheck: reach=done workers=16
func VHarness_C03_StaleTerm() {
	r, c := vRaft(vRaftOpts{shapes: vQuickShapes(), log: vStdLog(), flags: true})
	p := vRecord(r)
	types := []pb.MessageType{pb.Replicate, pb.ReplicateResp, pb.RequestVote, pb.RequestVoteResp, pb.InstallSnapshot,
		pb.Heartbeat, pb.HeartbeatResp, pb.ReadIndexResp, pb.TimeoutNow, pb.RequestPreVote, pb.RequestPreVoteResp, pb.NoOP}
	m := pb.Message{Type: types[vChoose("mtype", len(types))], To: c.self, From: vSender(c), Term: vU64("mterm"),
		LogTerm: vU64("mlogterm"), LogIndex: vU64("mlogindex"), Commit: vU64("mcommit"), Reject: vBool("reject"), Hint: vU64("hint")}
	vAssume(m.Term >= 1)
	vAssume(m.Term < r.term)
	if isPreVoteMessage(m.Type) {
		vAssume(r.preVote)
	}
	peer := Peer{raft: r}
	err := peer.Handle(m)
	vAssert(err == nil, "noerr")
	vFrame(p, r, c, "")
	post := vSnapLog(r.log)
	vAssert(r.term == p.term && r.vote == p.vote && r.state == p.state, "stale-term-no-state-change")
	vAssert(post.last() == p.log.last() && post.committed == p.log.committed, "stale-term-no-log-change")
	for i := range r.msgs {
		vAssert(r.msgs[i].Type == pb.NoOP, "stale-term-only-noop-reply")
	}
	vReach("done")
}
