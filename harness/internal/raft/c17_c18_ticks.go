package raft

import (
	"github.com/lni/dragonboat/v4/internal/server"
	pb "github.com/lni/dragonboat/v4/raftpb"
)

// vCampaignMsgs checks the vote requests of a fresh campaign: sent to exactly
// the other voting members, carrying the last index/term of the logical log.
func vCampaignMsgs(r *raft, c vCluster, p *vPre, typ pb.MessageType, term uint64, tag string) {
	n := 0
	for i := range r.msgs {
		m := &r.msgs[i]
		if m.Type != typ {
			continue
		}
		n++
		_, isR := r.remotes[m.To]
		_, isW := r.witnesses[m.To]
		vAssert(isR || isW, tag+"vote-request-only-to-voting-members")
		vAssert(m.To != c.self, tag+"vote-request-not-to-self")
		vAssert(m.Term == term, tag+"vote-request-term")
		vAssert(m.LogIndex == p.log.last() && m.LogTerm == p.log.term(p.log.last()), tag+"vote-request-carries-last-entry")
	}
	vAssert(n == len(r.remotes)+len(r.witnesses)-1, tag+"vote-request-to-every-other-voting-member")
}

// C17/P1, C18, C03: driven by ticks only, a voting member that is still a
// member and has no unapplied committed entries campaigns within
// 2*electionTimeout ticks; a non-voting member, a witness or a removed replica
// never does.
// vcheck: props=C18,C03 reach=campaigned,never,leader,done workers=16
func VHarness_C17_TickCampaign() {
	o := vRaftOpts{pairs: [][2]uint64{{vS1, 1}, {vS3, 1}, {vS3w, 3}, {vS4, 4}, {vS3, 9}}, log: vLogOpts{maxWin: 1, noAppliedTo: true, allSaved: true},
		roles: []State{follower, preVoteCandidate}, flags: true}
	if vTier() > 0 {
		o = vRaftOpts{shapes: []int{vS1, vS3, vS3w, vS4}, log: vSmallLog(), roles: []State{follower, candidate, preVoteCandidate}, flags: true, removed: true}
	}
	r, c := vRaft(o)
	vAssume(r.applied == r.log.committed) // P1's premise; the blocked case is VHarness_C07_ElectionBlocked
	p := vRecord(r)
	peer := Peer{raft: r}
	mayCampaign := c.member && vIn(c.self, c.shape.voters)
	campaigned := false
	for k := 0; k < int(2*r.electionTimeout); k++ {
		before := vRecord(r)
		r.msgs = r.msgs[:0]
		err := peer.Tick()
		vAssert(err == nil, "noerr")
		vFrame(before, r, c, "")
		started := r.state == leader
		for i := range r.msgs {
			if r.msgs[i].Type == pb.RequestVote || r.msgs[i].Type == pb.RequestPreVote {
				started = true
			}
		}
		if started {
			campaigned = true
			vAssert(mayCampaign, "R18-only-voting-members-campaign")
			if r.state == candidate {
				vAssert(r.term == before.term+1 && r.vote == c.self && r.leaderID == NoLeader, "V-campaign-bumps-term-votes-self")
				vCampaignMsgs(r, c, before, pb.RequestVote, r.term, "")
			} else if r.state == preVoteCandidate {
				vAssert(r.term == before.term && r.vote == before.vote, "PV-campaign-keeps-term-and-vote")
				vCampaignMsgs(r, c, before, pb.RequestPreVote, r.term+1, "pv-")
			} else if r.state == leader {
				vReach("leader")
				vAssert(len(c.shape.voting()) == 1, "V4-instant-leader-only-when-single-voter")
			}
			break
		}
	}
	if mayCampaign {
		vAssert(campaigned, "P1-campaign-within-two-election-timeouts")
		vReach("campaigned")
	} else {
		vAssert(!campaigned, "R18-never-campaigns")
		vAssert(r.term == p.term && r.state == p.state, "R18-ticks-change-nothing")
		vReach("never")
	}
	vReach("done")
}

// C18/C17: TimeoutNow (leader transfer) makes a follower campaign at once,
// skipping pre-vote, but never a removed replica.
// vcheck: props=C17 reach=campaigned,refused,done workers=8
func VHarness_C18_TimeoutNow() {
	r, c := vRaft(vRaftOpts{shapes: []int{vS3, vS3w, vS4}, log: vSmallLog(), roles: []State{follower}, flags: true, removed: true})
	p := vRecord(r)
	m := pb.Message{Type: pb.TimeoutNow, To: c.self, From: vLeaderSender(c), Term: r.term}
	peer := Peer{raft: r}
	err := peer.Handle(m)
	vAssert(err == nil, "noerr")
	vFrame(p, r, c, "")
	isVoter := c.member && vIn(c.self, c.shape.voters)
	if r.state == candidate {
		vReach("campaigned")
		vAssert(isVoter, "R18-removed-or-nonvoter-never-campaigns-on-TimeoutNow")
		vAssert(p.log.committed == r.applied, "C03-no-campaign-with-unapplied-entries")
		vAssert(r.term == p.term+1 && r.vote == c.self, "TN-campaign")
		for i := range r.msgs {
			if r.msgs[i].Type == pb.RequestVote {
				vAssert(r.msgs[i].Hint == c.self, "TN-transfer-hint")
			}
		}
	} else {
		vReach("refused")
		vAssert(r.term == p.term && r.vote == p.vote, "TN-refused-no-change")
		if isVoter && p.state == follower {
			vAssert(p.log.committed > r.applied, "P-TimeoutNow-campaigns-unless-blocked")
		}
	}
	vAssert(!r.isLeaderTransferTarget, "TN-flag-cleared")
	vReach("done")
}

// C18: CheckQuorum counts active voting members only (never non-voting ones);
// a leader without a quorum of recently active voting members steps down.
// vcheck: reach=stays,stepsdown,done workers=8
func VHarness_C18_CheckQuorum() {
	o := vRaftOpts{pairs: [][2]uint64{{vS3, 1}, {vS3w, 1}, {vS4, 1}, {vS5, 1}}, log: vSmallLog(), roles: []State{leader}, maxRead: 1}
	r, c := vRaft(o)
	r.checkQuorum = true
	active := uint64(0)
	for _, id := range c.shape.all() {
		var rm *remote
		if x, ok := r.remotes[id]; ok {
			rm = x
		} else if x, ok := r.nonVotings[id]; ok {
			rm = x
		} else {
			rm = r.witnesses[id]
		}
		rm.active = vBool("active")
		if vIn(id, c.shape.voting()) {
			active += vIte(vOr(id == c.self, rm.active), 1, 0)
		}
	}
	p := vRecord(r)
	err := r.Handle(pb.Message{Type: pb.CheckQuorum, From: c.self})
	vAssert(err == nil, "noerr")
	vFrame(p, r, c, "")
	q := uint64(len(c.shape.voting())/2 + 1)
	if r.state == leader {
		vReach("stays")
		vAssert(active >= q, "R18-leader-needs-active-quorum-of-voting-members")
	} else {
		vReach("stepsdown")
		vAssert(active < q, "R18-steps-down-only-without-quorum")
		vAssert(r.state == follower && r.term == p.term && r.leaderID == NoLeader, "R18-stepdown-to-follower")
	}
	vReach("done")
}

// C17/P2: a pending leadership transfer is abandoned within electionTimeout
// ticks, after which proposals are accepted again.
// vcheck: reach=aborted,done workers=8
func VHarness_C17_TransferAbort() {
	r, c := vRaft(vRaftOpts{pairs: [][2]uint64{{vS3, 1}}, log: vLogOpts{maxWin: 1, noAppliedTo: true, allSaved: true}, roles: []State{leader}, transfer: true})
	r.checkQuorum = vBool("checkQuorum")
	vAssume(r.leaderTransferTarget != NoNode)
	peer := Peer{raft: r}
	for k := 0; k < int(r.electionTimeout); k++ {
		before := vRecord(r)
		r.msgs = r.msgs[:0]
		err := peer.Tick()
		vAssert(err == nil, "noerr")
		vFrame(before, r, c, "")
	}
	vAssert(!r.leaderTransfering(), "P2-transfer-aborted-within-election-timeout")
	vReach("aborted")
	if r.state == leader {
		last := r.log.lastIndex()
		err := peer.ProposeEntries([]pb.Entry{{Type: pb.ApplicationEntry, Cmd: []byte{1}}})
		vAssert(err == nil, "noerr")
		vAssert(r.log.lastIndex() == last+1 && len(r.droppedEntries) == 0, "P2-proposals-accepted-again")
	}
	vReach("done")
}

// C17/P3: replication flow control cannot stay parked: a heartbeat response
// un-pauses a waiting remote and triggers replication when it lags; a rejected
// replication strictly lowers next unless the rejection is stale; a snapshot
// status report moves a remote out of the snapshot state.
// vcheck: props=C02 reach=unpaused,resent,snapshot-done,backoff,rate-limited-leader,done workers=16
func VHarness_C17_FlowControl() {
	o := vRaftOpts{pairs: [][2]uint64{{vS3, 1}, {vS4, 1}}, log: vLogOpts{maxPers: 1, maxWin: 2, noAppliedTo: true, allSaved: true}, roles: []State{leader}, remotes: true}
	r, c := vRaft(o)
	var rm *remote
	if x, ok := r.remotes[c.focus]; ok {
		rm = x
	} else {
		rm = r.nonVotings[c.focus]
	}
	vAssume(vImplies(rm.state == remoteSnapshot, rm.snapshotIndex >= 1))
	// flow control must not depend on the in-memory log rate limiter: a leader
	// that is rate limited because of entries it cannot commit yet only gets out
	// of that state by replicating them
	if vBool("leaderRateLimited") {
		rl := server.NewInMemRateLimiter(1000)
		r.rl, r.log.inmem.rl = rl, rl
		rl.Set(2000)
		for i := 0; i < 3; i++ {
			rl.Tick()
		}
		vAssert(rl.RateLimited(), "setup-limited")
		vReach("rate-limited-leader")
	}
	p := vRecord(r)
	pre := *rm
	last := p.log.last()
	peer := Peer{raft: r}
	switch vChoose("kind", 3) {
	case 0: // HeartbeatResp
		err := peer.Handle(pb.Message{Type: pb.HeartbeatResp, To: c.self, From: c.focus, Term: r.term})
		vAssert(err == nil, "noerr")
		vFrame(p, r, c, "")
		vAssert(rm.active, "P3-heartbeat-marks-active")
		if pre.state == remoteWait {
			vReach("unpaused")
			vAssert(rm.state != remoteWait || len(r.msgs) > 0, "P3-wait-is-left-on-heartbeat-resp")
		}
		if pre.state != remoteSnapshot && pre.match < last {
			sent := false
			for i := range r.msgs {
				if r.msgs[i].To == c.focus && (r.msgs[i].Type == pb.Replicate || r.msgs[i].Type == pb.InstallSnapshot) {
					sent = true
				}
			}
			vAssert(sent, "P3-lagging-remote-gets-replication-after-heartbeat-resp")
			vReach("resent")
		}
	case 1: // SnapshotStatus (immediate)
		vAssume(pre.state == remoteSnapshot)
		err := peer.ReportSnapshotStatus(c.focus, vBool("ssrejected"))
		vAssert(err == nil, "noerr")
		vFrame(p, r, c, "")
		vAssert(rm.state == remoteWait, "P3-snapshot-status-ends-snapshot-state")
		vAssert(rm.next >= rm.match+1, "P3-next-after-snapshot")
		vReach("snapshot-done")
	case 2: // rejected ReplicateResp
		m := pb.Message{Type: pb.ReplicateResp, To: c.self, From: c.focus, Term: r.term, Reject: true, LogIndex: vU64("rejidx"), Hint: vU64("rejhint")}
		vAssume(m.Hint <= vMaxIdx)
		// a follower never rejects an index it acknowledged earlier, and its last
		// index (the hint) is at least what it acknowledged
		vAssume(m.LogIndex > pre.match)
		vAssume(m.Hint >= pre.match)
		err := peer.Handle(m)
		vAssert(err == nil, "noerr")
		vFrame(p, r, c, "")
		vAssert(rm.next >= 1 && rm.next > rm.match, "P3-next-stays-above-match")
		if pre.state != remoteSnapshot {
			vAssert(rm.next <= pre.next, "P3-reject-never-raises-next")
			if rm.next < pre.next {
				vReach("backoff")
			}
		}
	}
	vReach("done")
}

// C17/P4 (+C03): any message of a higher term other than a (pre-)vote request
// turns a voting replica into a follower of that term; together with the NoOP
// reply of VHarness_C03_StaleTerm this frees a stuck higher-term replica.
// vcheck: reach=stepdown,done workers=8
func VHarness_C17_HigherTerm() {
	r, c := vRaft(vRaftOpts{shapes: []int{vS3, vS4}, log: vSmallLog(), flags: true})
	p := vRecord(r)
	types := []pb.MessageType{pb.NoOP, pb.Heartbeat, pb.HeartbeatResp, pb.ReplicateResp, pb.RequestVoteResp, pb.ReadIndexResp}
	m := pb.Message{Type: types[vChoose("mtype", len(types))], To: c.self, From: vLeaderSender(c), Term: vU64("mterm"), Reject: true}
	vAssume(m.Term > r.term)
	vAssume(m.Term < vMaxIdx)
	vAssume(m.Commit <= p.log.committed)
	peer := Peer{raft: r}
	err := peer.Handle(m)
	vAssert(err == nil, "noerr")
	vFrame(p, r, c, "")
	vAssert(r.term == m.Term, "P4-adopts-higher-term")
	if p.state == leader || p.state == candidate || p.state == preVoteCandidate || p.state == follower {
		vAssert(r.state == follower, "P4-steps-down-on-higher-term")
		vReach("stepdown")
	}
	vAssert(r.vote == NoNode, "P4-vote-cleared-with-new-term")
	vReach("done")
}

// C17 ("... including after rate limiting ... requests complete"): a replica
// of any non-leader kind whose in-memory log once exceeded MaxInMemLogSize and
// has drained since leaves the rate-limited state within a bounded number of
// ticks, and tells the leader it knows about that its in-memory log is empty -
// full members, non-voting members and witnesses alike (a replica that stays
// rate limited refuses every proposal made through it).
// vcheck: reach=follower,nonvoting,witness,recovered,feedback,done workers=8 steps=2000000
func VHarness_C17_RateLimitRecovers() {
	r, c := vRaft(vRaftOpts{pairs: [][2]uint64{{vS3, 1}, {vS4, 4}, {vS3w, 3}}, log: vLogOpts{maxWin: 1, noAppliedTo: true, allSaved: true},
		roles: []State{follower}, noReached: true})
	switch r.state {
	case follower:
		vReach("follower")
	case nonVoting:
		vReach("nonvoting")
	case witness:
		vReach("witness")
	}
	// rate limiter enabled, currently limited, nothing left in memory
	rl := server.NewInMemRateLimiter(1000)
	r.rl, r.log.inmem.rl = rl, rl
	rl.Set(2000)
	for i := 0; i < 3; i++ {
		rl.Tick()
	}
	vAssert(rl.RateLimited(), "setup-limited")
	rl.Set(0)
	// a known leader, and elections far away (this lemma is about the limiter)
	leaderID := uint64(2)
	r.leaderID = leaderID
	r.randomizedElectionTimeout = 1000
	r.electionTimeout = 3
	r.tickCount = uint64(vChoose("tickPhase", 3)) // phase of the rate-limit check (every electionTimeout ticks)
	r.electionTick = 0
	peer := Peer{raft: r}
	feedback := false
	n := int((server.ChangeTickThreashold + 2) * r.electionTimeout)
	before := vRecord(r)
	for i := 0; i < n; i++ {
		r.msgs = r.msgs[:0]
		vAssert(peer.Tick() == nil, "noerr")
		for j := range r.msgs {
			if r.msgs[j].Type == pb.RateLimit && r.msgs[j].To == leaderID {
				feedback = true
			}
		}
	}
	vFrame(before, r, c, "")
	vAssert(!rl.RateLimited(), "P5-drained-replica-leaves-the-rate-limited-state")
	vReach("recovered")
	vAssert(feedback, "P5-leader-is-told-about-the-in-memory-log-size")
	vReach("feedback")
	vReach("done")
}

// C17 (a connected quorum elects a leader also when it needs a witness or has
// to get past the leader lease): with CheckQuorum a replica drops vote
// requests of a higher term while it has heard from a leader within the last
// electionTimeout ticks.  That lease must run out: after 2*electionTimeout
// ticks without any message (the leader is gone), a RequestVote / RequestPreVote
// of a higher term from a member with an up-to-date log is not dropped by any
// kind of replica - voting, non-voting or witness, whatever its randomized
// timeout - and the witness / voter grants it.
// vcheck: props=C18 reach=witness,nonvoting,voter,granted,done workers=16
func VHarness_C17_LeaseRunsOut() {
	o := vRaftOpts{pairs: [][2]uint64{{vS3w, 3}, {vS3, 1}, {vS4, 4}}, log: vLogOpts{noAppliedTo: true, allSaved: true},
		roles: []State{follower}, flags: true}
	r, c := vRaft(o)
	vAssume(r.checkQuorum)
	vAssume(r.applied == r.log.committed)
	vAssume(r.leaderID != NoLeader && r.leaderID != c.self)
	peer := Peer{raft: r}
	for k := 0; k < int(2*r.electionTimeout); k++ {
		r.msgs = r.msgs[:0]
		vAssert(peer.Tick() == nil, "noerr")
	}
	switch r.state {
	case witness:
		vReach("witness")
	case nonVoting:
		vReach("nonvoting")
	default:
		vReach("voter")
	}
	// a candidate of a higher term whose log is at least as good as ours
	var from uint64
	for _, v := range c.shape.voters {
		if v != c.self && from == 0 {
			from = v
		}
	}
	pre := vBool("prevote")
	vAssume(vImplies(pre, r.preVote))
	m := pb.Message{Type: pb.RequestVote, To: c.self, From: from, Term: r.term + 1, LogIndex: r.log.lastIndex() + 1, LogTerm: r.term + 1}
	if pre {
		m.Type = pb.RequestPreVote
	}
	termBefore, stateBefore := r.term, r.state
	r.msgs = r.msgs[:0]
	vAssert(peer.Handle(m) == nil, "noerr")
	answered := false
	granted := false
	for i := range r.msgs {
		if r.msgs[i].To == from && (r.msgs[i].Type == pb.RequestVoteResp || r.msgs[i].Type == pb.RequestPreVoteResp) {
			answered = true
			if !r.msgs[i].Reject {
				granted = true
			}
		}
	}
	if stateBefore == nonVoting {
		// a non-voting member has no vote to give, but it follows the new term
		vAssert(pre || r.term == termBefore+1, "P6-expired-lease-nonvoting-follows-the-higher-term")
	} else {
		vAssert(answered, "P6-expired-lease-vote-request-of-a-higher-term-is-answered")
		if !pre {
			vAssert(r.term == termBefore+1, "P6-expired-lease-vote-request-moves-the-term")
		}
		if stateBefore == witness || stateBefore == follower {
			vAssert(granted, "P6-expired-lease-up-to-date-candidate-gets-the-vote")
			vReach("granted")
		}
	}
	vReach("done")
}
