package raft

import (
	pb "github.com/lni/dragonboat/v4/raftpb"
)

// vFollowerRoles are the roles that accept leader messages.
func vFollowerOpts() vRaftOpts {
	o := vRaftOpts{log: vLogOpts{maxPers: 1, maxWin: 2, noAppliedTo: true, allSaved: true}, roles: []State{follower, candidate}, flags: true,
		pairs: [][2]uint64{{vS3, 1}, {vS3w, 3}, {vS4, 4}}}
	if vTier() > 0 {
		o = vRaftOpts{shapes: vQuickShapes(), log: vLogOpts{maxPers: 1, maxWin: 3, ss: true, shadow: true},
			roles: []State{follower, candidate, preVoteCandidate}, flags: true}
	}
	return o
}

// vReplicateMsg builds a well-formed Replicate message: entries contiguous
// from LogIndex+1, terms non-decreasing between LogTerm and Term.
func vReplicateMsg(c vCluster, maxEnts int) pb.Message {
	m := pb.Message{Type: pb.Replicate, To: c.self, From: vLeaderSender(c), Term: vU64("mterm"),
		LogTerm: vU64("mlogterm"), LogIndex: vU64("mlogindex"), Commit: vU64("mcommit")}
	vAssume(m.Term >= 1)
	vAssume(m.Term < vMaxIdx)
	vAssume(m.LogIndex < vMaxIdx)
	vAssume(m.LogTerm <= m.Term)
	vAssume((m.LogTerm == 0) == (m.LogIndex == 0))
	k := vChoose("nents", maxEnts+1)
	prev := m.LogTerm
	for i := 0; i < k; i++ {
		t := vU64("met")
		vAssume(t >= prev)
		vAssume(t >= 1)
		vAssume(t <= m.Term)
		prev = t
		m.Entries = append(m.Entries, pb.Entry{Index: m.LogIndex + uint64(i) + 1, Term: t})
	}
	// the leader never advertises a commit index beyond what it has sent
	vAssume(m.Commit <= m.LogIndex+uint64(k))
	return m
}

// C02: Replicate on any replica that accepts it. L1 (frame), L2 follower
// append is the AppendEntries rule, L3 commit bounds.
// vcheck: reach=accepted,rejected,conflict,done workers=16
func VHarness_C02_Replicate() {
	r, c := vRaft(vFollowerOpts())
	p := vRecord(r)
	m := vReplicateMsg(c, 2)
	vAssume(m.Term >= r.term) // lower-term messages: VHarness_C03_StaleTerm
	k := len(m.Entries)
	peer := Peer{raft: r}
	err := peer.Handle(m)
	vAssert(err == nil, "noerr")
	vFrame(p, r, c, "")
	post := vSnapLog(r.log)
	for i := range r.msgs {
		out := &r.msgs[i]
		if out.Type != pb.ReplicateResp {
			continue
		}
		if out.Reject {
			vReach("rejected")
			// a rejection changes nothing in the log
			vAssert(post.last() == p.log.last(), "L2-reject-keeps-log")
			continue
		}
		if m.LogIndex < p.log.committed {
			// stale message below the commit index: acknowledged with the commit index only
			vAssert(out.LogIndex == p.log.committed, "L2-stale-acks-commit")
			vAssert(post.last() == p.log.last(), "L2-stale-keeps-log")
			continue
		}
		vReach("accepted")
		// the previous entry matched in the pre-state
		vAssert(p.log.term(m.LogIndex) == m.LogTerm, "L2-prev-matched")
		vAssert(out.LogIndex == m.LogIndex+uint64(k), "L2-ack-index")
		// every entry of the message is in the log afterwards
		for j := 0; j < k; j++ {
			t, _, ok := post.at(m.Entries[j].Index)
			vAssert(ok, "L2-entries-present")
			vAssert(t == m.Entries[j].Term, "L2-entries-term")
		}
		// nothing at or below LogIndex changed
		q := vU64("probe2")
		t0, _, ok0 := p.log.at(q)
		t1, _, ok1 := post.at(q)
		vAssert(vImplies(vAnd(ok0, vAnd(q <= m.LogIndex, q > post.base())), vAnd(ok1, t1 == t0)), "L2-prefix-unchanged")
		// without a conflict nothing beyond the message is removed
		conflict := false
		for j := 0; j < k; j++ {
			t, _, ok := p.log.at(m.Entries[j].Index)
			conflict = vOr(conflict, vAnd(ok, t != m.Entries[j].Term))
		}
		vAssert(vImplies(!conflict, post.last() >= p.log.last()), "L2-no-truncation-without-conflict")
		vAssert(vImplies(vAnd(!conflict, vAnd(ok0, q > post.base())), vAnd(ok1, t1 == t0)), "L2-no-change-without-conflict")
		if conflict {
			vReach("conflict")
		}
		// L3 follower commit rule
		lastNew := m.LogIndex + uint64(k)
		lim := vIte(lastNew < m.Commit, lastNew, m.Commit)
		lim = vIte(lim < p.log.committed, p.log.committed, lim)
		vAssert(post.committed == lim, "L3-follower-commit")
	}
	vReach("done")
}

// C02: Heartbeat only moves the commit index forward, to the advertised value.
// vcheck: reach=done workers=8
func VHarness_C02_Heartbeat() {
	r, c := vRaft(vFollowerOpts())
	p := vRecord(r)
	m := pb.Message{Type: pb.Heartbeat, To: c.self, From: vLeaderSender(c), Term: vU64("mterm"), Commit: vU64("mcommit"),
		Hint: vU64("hint"), HintHigh: vU64("hinthigh")}
	vAssume(m.Term >= 1)
	vAssume(m.Term < vMaxIdx)
	vAssume(m.Term >= r.term) // lower-term messages: VHarness_C03_StaleTerm
	peer := Peer{raft: r}
	err := peer.Handle(m)
	vAssert(err == nil, "noerr")
	vFrame(p, r, c, "")
	post := vSnapLog(r.log)
	vAssert(post.last() == p.log.last(), "HB-log-unchanged")
	vAssert(vOr(post.committed == p.log.committed, post.committed == m.Commit), "HB-commit-to-advertised")
	for i := range r.msgs {
		out := &r.msgs[i]
		if out.Type == pb.HeartbeatResp {
			// the confirmation echoes exactly the context it was asked to confirm
			vAssert(out.Hint == m.Hint && out.HintHigh == m.HintHigh && out.To == m.From, "HB-echo-ctx")
		}
	}
	vReach("done")
}

// C02/C08: InstallSnapshot: never moves commit backwards, installs index/term
// of the snapshot, keeps a matching log.
// vcheck: reach=restored,matched,stale,done workers=16
func VHarness_C02_InstallSnapshot() {
	o := vFollowerOpts()
	o.roles = []State{follower, candidate}
	r, c := vRaft(o)
	p := vRecord(r)
	ss := pb.Snapshot{Index: vU64("ssindex"), Term: vU64("ssterm")}
	vAssume(ss.Index >= 1)
	vAssume(ss.Index < vMaxIdx)
	vAssume(ss.Term >= 1)
	ss.Membership.Addresses = map[uint64]string{}
	for _, id := range c.shape.voters {
		ss.Membership.Addresses[id] = "a"
	}
	m := pb.Message{Type: pb.InstallSnapshot, To: c.self, From: vLeaderSender(c), Term: vU64("mterm"), Snapshot: ss}
	vAssume(m.Term >= ss.Term)
	vAssume(m.Term < vMaxIdx)
	vAssume(m.Term >= r.term) // lower-term messages: VHarness_C03_StaleTerm
	peer := Peer{raft: r}
	err := peer.Handle(m)
	vAssert(err == nil, "noerr")
	vFrame(p, r, c, "")
	post := vSnapLog(r.log)
	if ss.Index <= p.log.committed {
		vReach("stale")
		vAssert(post.last() == p.log.last() && post.committed == p.log.committed, "IS-stale-ignored")
	} else if p.log.term(ss.Index) == ss.Term {
		vReach("matched")
		// the log already holds the snapshot's last entry: keep it, commit up to it
		vAssert(post.last() == p.log.last(), "IS-matched-keeps-log")
		vAssert(post.committed == ss.Index, "IS-matched-commits")
	} else {
		vReach("restored")
		vAssert(post.hasSS && post.ssIndex == ss.Index && post.ssTerm == ss.Term, "IS-restored-base")
		vAssert(post.last() == ss.Index && post.committed == ss.Index && post.processed == ss.Index, "IS-restored-counters")
		vAssert(post.savedTo == ss.Index, "IS-restored-savedTo")
	}
	vReach("done")
}

// C02/L4 (+C18 quorums): the leader commit rule on ReplicateResp, checked
// against a quorum count made independently of raft.matched.
// vcheck: props=C18 reach=advanced,notadvanced,done workers=16
func VHarness_C02_LeaderCommit() {
	o := vRaftOpts{pairs: [][2]uint64{{vS3, 1}, {vS3w, 1}, {vS4, 1}, {vS5w, 1}}, log: vLogOpts{maxPers: 1, maxWin: 2, noAppliedTo: true, allSaved: true},
		roles: []State{leader}}
	if vTier() > 0 {
		o = vRaftOpts{shapes: []int{vS1, vS3, vS3w, vS4, vS5, vS5w}, log: vLogOpts{maxPers: 1, maxWin: 3}, roles: []State{leader}, flags: true}
	}
	r, c := vRaft(o)
	p := vRecord(r)
	m := pb.Message{Type: pb.ReplicateResp, To: c.self, From: vSender(c), Term: r.term, LogIndex: vU64("ackindex"),
		Reject: vBool("reject"), Hint: vU64("hint")}
	// an acknowledgement never claims more than the leader has
	vAssume(m.LogIndex <= p.log.last())
	if !m.Reject {
		p.ackFrom, p.ackIndex = m.From, m.LogIndex
	}
	peer := Peer{raft: r}
	err := peer.Handle(m)
	vAssert(err == nil, "noerr")
	vFrame(p, r, c, "")
	post := vSnapLog(r.log)
	if post.committed > p.log.committed {
		vReach("advanced")
		vAssert(post.term(post.committed) == r.term, "L4-commit-current-term-only")
		n := uint64(0)
		for _, id := range c.shape.voting() {
			var rm *remote
			if x, ok := r.remotes[id]; ok {
				rm = x
			} else {
				rm = r.witnesses[id]
			}
			n += vIte(rm.match >= post.committed, 1, 0)
		}
		vAssert(n >= uint64(len(c.shape.voting())/2+1), "L4-commit-needs-quorum-of-voting-members")
	} else {
		vReach("notadvanced")
	}
	vAssert(post.last() == p.log.last(), "L4-log-unchanged")
	vReach("done")
}
