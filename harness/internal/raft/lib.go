package raft

// Shared builders and oracles for the raft-package harnesses (C02 C03 C04 C06
// C07 C08 C17 C18 C19).  Everything here is ordinary in-package Go that the
// symbolic executor runs like the code under test.

//vcheck:init github.com/lni/dragonboat/v4/internal/settings,github.com/lni/dragonboat/v4/raftpb,github.com/lni/dragonboat/v4/internal/raft
//vcheck:bounds raft: cluster shapes S1={1}, S3={1,2,3}, S3w={1,2}+witness 3, S4={1,2,3}+non-voting 4, S5={1,2,3}+witness 4+non-voting 5, S5w={1,2,3}+witnesses 4,5; local replica = one representative per kind (quick) / every member (thorough); senders = every other member or a non-member id
//vcheck:bounds raft: log = persisted prefix of <= 1 (quick) / 2 (thorough) entries below a symbolic marker (index/term < 2^40) + in-memory window of <= 2 (quick) / 3 (thorough) entries, optional pending snapshot; terms non-decreasing, symbolic; one API step per harness unless stated
//vcheck:bounds raft: electionTimeout = 3 ticks, heartbeatTimeout = 1 tick (concrete); rate limiter disabled
//vcheck:assume raft: the pre-state satisfies the representation invariant written in vLog/vRaft (Appendix B/C of DESIGN.md): contiguous indexes, monotone terms <= current term, marker-1 <= savedTo <= last, applied <= processed <= committed <= last, leader remotes match < next <= last+1 and match(self) = last, readIndex queue/pending consistent
//vcheck:assume raft: incoming messages are not fabricated: Replicate entries are contiguous from LogIndex+1 with non-decreasing terms between LogTerm and Term; responses carry the term they answer
//vcheck:stub raft.ILogDB = in-memory model (marker index/term + contiguous entries + snapshot record) written in the harness; logger = no-op with Panicf as Go panic; random election jitter = fresh symbolic value

import (
	"github.com/lni/dragonboat/v4/config"
	"github.com/lni/dragonboat/v4/internal/server"
	pb "github.com/lni/dragonboat/v4/raftpb"
)

const vMaxIdx = uint64(1) << 40

// ---------------------------------------------------------------------------
// ILogDB model

type vDB struct {
	marker     uint64
	markerTerm uint64
	ents       []pb.Entry
	state      pb.State
	ss         pb.Snapshot
	members    pb.Membership
}

func (l *vDB) GetRange() (uint64, uint64) {
	return l.marker + 1, l.marker + uint64(len(l.ents))
}
func (l *vDB) SetRange(index uint64, length uint64) {}
func (l *vDB) NodeState() (pb.State, pb.Membership) { return l.state, l.members }
func (l *vDB) SetState(ps pb.State)                 { l.state = ps }
func (l *vDB) CreateSnapshot(ss pb.Snapshot) error  { l.ss = ss; return nil }
func (l *vDB) Snapshot() pb.Snapshot                { return l.ss }

// ApplySnapshot, Append and Compact follow logdb.LogReader: the node calls them
// after the corresponding record was saved and before Peer.Commit.
func (l *vDB) ApplySnapshot(ss pb.Snapshot) error {
	l.ss = ss
	l.marker, l.markerTerm = ss.Index, ss.Term
	l.ents = nil
	return nil
}
func (l *vDB) Append(entries []pb.Entry) error {
	if len(entries) == 0 {
		return nil
	}
	first := entries[0].Index
	last := l.marker + uint64(len(l.ents))
	if first > last+1 {
		panic("vDB: gap in persisted log")
	}
	if first <= l.marker {
		panic("vDB: append below marker")
	}
	l.ents = append(append([]pb.Entry(nil), l.ents[:first-l.marker-1]...), entries...)
	return nil
}
func (l *vDB) Compact(index uint64) error {
	if index <= l.marker {
		return ErrCompacted
	}
	if index > l.marker+uint64(len(l.ents)) {
		return ErrUnavailable
	}
	t := l.ents[index-l.marker-1].Term
	l.ents = append([]pb.Entry(nil), l.ents[index-l.marker:]...)
	l.marker, l.markerTerm = index, t
	return nil
}
func (l *vDB) Term(index uint64) (uint64, error) {
	if index == l.marker {
		return l.markerTerm, nil
	}
	if index < l.marker {
		return 0, ErrCompacted
	}
	if index > l.marker+uint64(len(l.ents)) {
		return 0, ErrUnavailable
	}
	return l.ents[index-l.marker-1].Term, nil
}
func (l *vDB) Entries(low uint64, high uint64, maxSize uint64) ([]pb.Entry, error) {
	if low <= l.marker {
		return nil, ErrCompacted
	}
	if high > l.marker+uint64(len(l.ents))+1 {
		return nil, ErrUnavailable
	}
	return l.ents[low-l.marker-1 : high-l.marker-1], nil
}

// ---------------------------------------------------------------------------
// snapshot of the log representation = the logical log (abstraction alpha)

type vLogSnap struct {
	hasSS           bool
	ssIndex, ssTerm uint64
	marker, mterm   uint64 // persisted marker
	pers            []pb.Entry
	mi              uint64 // inmem.markerIndex
	win             []pb.Entry
	committed       uint64
	processed       uint64
	savedTo         uint64
	appliedTo       uint64
	appliedTerm     uint64
}

func vSnapLog(l *entryLog) *vLogSnap {
	db := l.logdb.(*vDB)
	s := &vLogSnap{marker: db.marker, mterm: db.markerTerm, mi: l.inmem.markerIndex,
		committed: l.committed, processed: l.processed, savedTo: l.inmem.savedTo,
		appliedTo: l.inmem.appliedToIndex, appliedTerm: l.inmem.appliedToTerm}
	s.pers = append(s.pers, db.ents...)
	s.win = append(s.win, l.inmem.entries...)
	if l.inmem.snapshot != nil {
		s.hasSS = true
		s.ssIndex, s.ssTerm = l.inmem.snapshot.Index, l.inmem.snapshot.Term
	}
	return s
}

// base is the index just below the first available entry.
func (s *vLogSnap) base() uint64 {
	if s.hasSS {
		return s.ssIndex
	}
	return s.marker
}

func (s *vLogSnap) baseTerm() uint64 {
	if s.hasSS {
		return s.ssTerm
	}
	return s.mterm
}

func (s *vLogSnap) last() uint64 {
	if n := len(s.win); n > 0 {
		return s.win[n-1].Index
	}
	if s.hasSS {
		return s.ssIndex
	}
	return s.marker + uint64(len(s.pers))
}

// at returns (term, type, present) of the logical log at index i, built as an
// ite chain so that a symbolic probe index does not fork.  The base index
// reports the base term with present=false.
func (s *vLogSnap) at(i uint64) (uint64, uint64, bool) {
	t, ty := uint64(0), uint64(0)
	ok := false
	if !s.hasSS {
		for k := range s.pers {
			hit := vAnd(i == s.pers[k].Index, vOr(len(s.win) == 0, s.pers[k].Index < s.mi))
			t = vIte(hit, s.pers[k].Term, t)
			ty = vIte(hit, uint64(s.pers[k].Type), ty)
			ok = vOr(ok, hit)
		}
	}
	for k := range s.win {
		hit := i == s.win[k].Index
		t = vIte(hit, s.win[k].Term, t)
		ty = vIte(hit, uint64(s.win[k].Type), ty)
		ok = vOr(ok, hit)
	}
	return t, ty, ok
}

// term is what entryLog.term must answer for index i: the entry's term, the
// base term at the base index, 0 outside [base,last].
func (s *vLogSnap) term(i uint64) uint64 {
	t, _, ok := s.at(i)
	return vIte(ok, t, vIte(i == s.base(), s.baseTerm(), 0))
}

// ---------------------------------------------------------------------------
// log builder

type vLogOpts struct {
	maxPers     int  // persisted entries below the window
	maxWin      int  // in-memory window
	ss          bool // allow a pending (not yet saved) snapshot
	types       bool // symbolic entry types (application / config change)
	cmd         bool // entries carry a one-byte payload (witness stripping)
	shadow      bool // the store may still hold (stale) entries at or above the window start
	noAppliedTo bool // do not vary the applied-index shortcut
	allSaved    bool // the whole window has been persisted (savedTo = last)
}

func vEntry(index, term uint64, o vLogOpts) pb.Entry {
	e := pb.Entry{Index: index, Term: term}
	if o.types {
		if vBool("isCC") {
			e.Type = pb.ConfigChangeEntry
		}
	}
	if o.cmd {
		e.Cmd = []byte{0x5a}
	}
	return e
}

// vLog builds an arbitrary entryLog satisfying the representation invariant.
func vLog(o vLogOpts) *entryLog {
	db := &vDB{}
	pm := vU64("pm")
	vAssume(pm < vMaxIdx)
	pt := vU64("pt")
	vAssume(pt < vMaxIdx)
	vAssume((pm == 0) == (pt == 0))
	db.marker, db.markerTerm = pm, pt
	// compaction only ever follows a snapshot: the store knows a snapshot at
	// its marker whenever the marker is not zero (index 0 = empty snapshot)
	db.ss = pb.Snapshot{Index: pm, Term: pt}
	prev := pt
	np := vChoose("np", o.maxPers+1)
	for i := 0; i < np; i++ {
		t := vU64("pterm")
		vAssume(t >= prev)
		vAssume(t >= 1)
		vAssume(t < vMaxIdx)
		prev = t
		db.ents = append(db.ents, vEntry(pm+uint64(i)+1, t, o))
	}
	rl := server.NewInMemRateLimiter(0)
	l := &entryLog{logdb: db, inmem: inMemory{rl: rl}}
	base := pm
	mi := pm + uint64(np) + 1

	if o.ss && vBool("ssPending") {
		// restore() happened and the snapshot has not been saved yet; whatever the
		// store holds is unreachable behind it.
		si := vU64("ssIndex")
		vAssume(si >= 1)
		vAssume(si < vMaxIdx)
		st := vU64("ssTerm")
		vAssume(st >= 1)
		vAssume(st < vMaxIdx)
		l.inmem.snapshot = &pb.Snapshot{Index: si, Term: st}
		base = si
		mi = si + 1
		prev = st
		l.inmem.appliedToIndex = si
		l.inmem.appliedToTerm = st
	}
	l.inmem.markerIndex = mi
	nm := vChoose("nm", o.maxWin+1)
	var ents []pb.Entry
	for i := 0; i < nm; i++ {
		t := vU64("wterm")
		vAssume(t >= prev)
		vAssume(t >= 1)
		vAssume(t < vMaxIdx)
		prev = t
		ents = append(ents, vEntry(mi+uint64(i), t, o))
	}
	l.inmem.entries = ents
	last := mi + uint64(nm) - 1
	// savedTo: a prefix of the window has been persisted, and what was persisted
	// is in the store (the node appends to the LogReader before Peer.Commit).
	// While a snapshot is pending nothing after it has been saved yet.
	nsaved := 0
	if l.inmem.snapshot == nil {
		nsaved = nm
		if !o.allSaved {
			nsaved = vChoose("nsaved", nm+1)
		}
		keep := np // persisted entries below the window
		db.ents = append(append([]pb.Entry(nil), db.ents[:keep]...), ents[:nsaved]...)
		if o.shadow && nsaved < nm && vBool("staleTail") {
			// a stale entry left behind by a conflict truncation that was not saved yet
			t := vU64("staleterm")
			vAssume(t >= 1)
			vAssume(t < vMaxIdx)
			db.ents = append(db.ents, vEntry(mi+uint64(nsaved), t, o))
		}
	}
	l.inmem.savedTo = mi - 1 + uint64(nsaved)
	l.committed = vU64("committed")
	vAssume(l.committed >= base)
	vAssume(l.committed <= last)
	l.processed = vU64("processed")
	vAssume(l.processed >= base)
	vAssume(l.processed <= l.committed)
	if l.inmem.snapshot == nil && !o.noAppliedTo && vBool("hasAppliedTo") {
		// the applied-index shortcut left behind by appliedLogTo
		ai := vU64("appliedTo")
		vAssume(ai >= 1)
		vAssume(ai >= pm)
		vAssume(ai < mi)
		vAssume(ai <= l.processed)
		s := vSnapLog(l)
		at := s.term(ai)
		vAssume(at >= 1)
		l.inmem.appliedToIndex = ai
		l.inmem.appliedToTerm = at
	}
	return l
}

// vLogInvAssert asserts the representation invariant on the post-state.
func vLogInvAssert(l *entryLog, tag string) {
	s := vSnapLog(l)
	for k := range s.win {
		vAssert(s.win[k].Index == s.mi+uint64(k), tag+"inv-window-contiguous")
	}
	last := s.last()
	vAssert(s.savedTo+1 >= s.mi, tag+"inv-savedTo-ge-marker")
	vAssert(s.savedTo <= last, tag+"inv-savedTo-le-last")
	vAssert(s.committed <= last, tag+"inv-committed-le-last")
	vAssert(s.processed <= s.committed, tag+"inv-processed-le-committed")
	vAssert(s.committed >= s.base(), tag+"inv-committed-ge-base")
	if s.hasSS {
		vAssert(s.mi == s.ssIndex+1, tag+"inv-snapshot-marker")
	}
	vAssert(s.appliedTo < s.mi, tag+"inv-appliedTo-below-window")
}

// ---------------------------------------------------------------------------
// cluster shapes

type vShape struct {
	voters, nonVotings, witnesses []uint64
}

var vShapes = []vShape{
	{voters: []uint64{1}},
	{voters: []uint64{1, 2, 3}},
	{voters: []uint64{1, 2}, witnesses: []uint64{3}},
	{voters: []uint64{1, 2, 3}, nonVotings: []uint64{4}},
	{voters: []uint64{1, 2, 3}, witnesses: []uint64{4}, nonVotings: []uint64{5}},
	{voters: []uint64{1, 2, 3}, witnesses: []uint64{4, 5}},
}

const (
	vS1 = iota
	vS3
	vS3w
	vS4
	vS5
	vS5w
)

func (s vShape) all() []uint64 {
	var r []uint64
	r = append(r, s.voters...)
	r = append(r, s.nonVotings...)
	r = append(r, s.witnesses...)
	return r
}

func (s vShape) voting() []uint64 {
	var r []uint64
	r = append(r, s.voters...)
	r = append(r, s.witnesses...)
	return r
}

func vIn(id uint64, l []uint64) bool {
	r := false
	for _, x := range l {
		r = vOr(r, id == x)
	}
	return r
}

// ---------------------------------------------------------------------------
// raft builder

type vRaftOpts struct {
	shapes    []int
	log       vLogOpts
	roles     []State     // allowed roles for a voting self; nil = all four
	maxRead   int         // pending ReadIndex contexts on a leader
	votes     bool        // symbolic vote tally on candidates
	removed   bool        // also allow "self is not a member any more"
	flags     bool        // symbolic checkQuorum / preVote (else both false)
	preVote   bool        // force preVote on
	remotes   bool        // symbolic flow-control state of ONE remote (the first non-self member) on a leader; the others are in Replicate state and active
	transfer  bool        // symbolic leader transfer target on a leader
	noReached bool        // do not add the pre-states reached by the real code (vReachedRaft)
	allSelves bool        // every member id as the local replica even in the quick tier
	pairs     [][2]uint64 // explicit (shape, local replica id) choices; overrides shapes
}

type vCluster struct {
	shape  vShape
	self   uint64
	member bool
	focus  uint64 // the remote whose flow-control state is symbolic (leader only)
}

func vRemote(last uint64, self bool, focus bool, o vRaftOpts) *remote {
	// only the focus remote has a symbolic next index (every remote with a
	// symbolic next multiplies the paths of broadcastReplicateMessage)
	rm := &remote{match: vU64("match"), next: last + 1}
	vAssume(rm.match <= last)
	if focus {
		rm.next = vU64("next")
		vAssume(rm.match < rm.next)
		vAssume(rm.next <= last+1)
	}
	if self {
		vAssume(rm.match == last)
	}
	if o.remotes && focus {
		rm.state = remoteStateType(vU64("rstate"))
		vAssume(uint64(rm.state) < 4)
		rm.active = vBool("ractive")
		rm.snapshotIndex = vU64("rsnapidx")
		vAssume(rm.snapshotIndex < vMaxIdx)
		rm.delayed.ctick = vU64("rdelay")
		vAssume(rm.delayed.ctick < 3)
		rm.delayed.rejected = vBool("rdelayrej")
	} else {
		rm.state = remoteReplicate
		rm.active = true
	}
	return rm
}

// vRaft builds an arbitrary raft state satisfying RaftInv for one of the
// allowed cluster shapes.
func vRaft(o vRaftOpts) (*raft, vCluster) {
	var sh vShape
	var ids []uint64
	if len(o.pairs) > 0 {
		pr := o.pairs[vChoose("shapeself", len(o.pairs))]
		sh = vShapes[pr[0]]
		ids = []uint64{pr[1]}
		o.allSelves = true
	} else {
		sh = vShapes[o.shapes[vChoose("shape", len(o.shapes))]]
		ids = sh.all()
	}
	if vTier() == 0 && !o.allSelves && len(o.pairs) == 0 {
		// quick tier: one representative per kind (replica ids of the same kind
		// are interchangeable: the code never orders or hashes replica ids)
		ids = []uint64{sh.voters[0]}
		if len(sh.nonVotings) > 0 {
			ids = append(ids, sh.nonVotings[0])
		}
		if len(sh.witnesses) > 0 {
			ids = append(ids, sh.witnesses[0])
		}
	}
	n := len(ids)
	if o.removed {
		n++
	}
	pick := vChoose("self", n)
	c := vCluster{shape: sh, member: pick < len(ids)}
	if c.member {
		c.self = ids[pick]
		c.member = false
		for _, id := range sh.all() {
			if id == c.self {
				c.member = true
			}
		}
	} else {
		c.self = 9
	}
	if !o.noReached && !o.preVote && c.member && c.self == 1 && len(sh.voters) == 3 && len(sh.nonVotings) == 0 && len(sh.witnesses) == 0 {
		if vBool("reachedState") {
			return vReachedRaft(o, &c), c
		}
	}
	l := vLog(o.log)
	s := vSnapLog(l)
	last := s.last()
	lastTerm := s.term(last)
	r := &raft{
		replicaID:        c.self,
		shardID:          1,
		log:              l,
		rl:               l.inmem.rl,
		remotes:          make(map[uint64]*remote),
		nonVotings:       make(map[uint64]*remote),
		witnesses:        make(map[uint64]*remote),
		votes:            make(map[uint64]bool),
		readIndex:        newReadIndex(),
		electionTimeout:  3,
		heartbeatTimeout: 1,
		msgs:             make([]pb.Message, 0),
		droppedEntries:   make([]pb.Entry, 0),
	}
	if o.flags {
		r.checkQuorum = vBool("checkQuorum")
		r.preVote = vBool("preVote")
	}
	if o.preVote {
		r.preVote = true
	}
	r.term = vU64("term")
	vAssume(r.term >= lastTerm)
	vAssume(r.term < vMaxIdx)
	r.vote = vU64("vote")
	vAssume(vOr(r.vote == 0, vIn(r.vote, sh.voters)))
	r.leaderID = vU64("leaderID")
	vAssume(vOr(r.leaderID == 0, vIn(r.leaderID, sh.voters)))
	r.applied = vU64("applied")
	vAssume(r.applied <= l.processed)
	vAssume(r.applied >= s.base())
	r.randomizedElectionTimeout = vU64("ret")
	vAssume(r.randomizedElectionTimeout >= r.electionTimeout)
	vAssume(r.randomizedElectionTimeout < 2*r.electionTimeout)
	r.electionTick = vU64("etick")
	vAssume(r.electionTick < 2*r.electionTimeout)
	r.heartbeatTick = 0
	r.tickCount = vU64("tickCount")
	vAssume(r.tickCount < 1000)
	// role
	isVoter := false
	for _, id := range sh.voters {
		if id == c.self {
			isVoter = true
		}
	}
	isNV := false
	for _, id := range sh.nonVotings {
		if id == c.self {
			isNV = true
		}
	}
	switch {
	case isNV:
		r.state = nonVoting
	case c.member && !isVoter:
		r.state = witness
	default:
		roles := o.roles
		if roles == nil {
			roles = []State{follower, candidate, preVoteCandidate, leader}
		}
		r.state = roles[vChoose("role", len(roles))]
		if r.state == preVoteCandidate {
			vAssume(r.preVote)
		}
		if !c.member {
			// a removed replica was a follower or candidate when its removal was
			// applied (a removed leader steps down in removeNode)
			vAssume(r.state != leader)
		}
	}
	for _, id := range sh.voters {
		r.remotes[id] = &remote{next: 1}
	}
	for _, id := range sh.nonVotings {
		r.nonVotings[id] = &remote{next: 1}
	}
	for _, id := range sh.witnesses {
		r.witnesses[id] = &remote{next: 1}
	}
	switch r.state {
	case leader:
		vAssume(r.term >= 1)
		vAssume(r.leaderID == c.self)
		vAssume(r.vote == c.self)
		vAssume(lastTerm == r.term) // a leader's last entry is always of its own term
		vAssume(r.electionTick < r.electionTimeout)
		focus := uint64(0)
		for _, id := range sh.all() {
			if id != c.self && focus == 0 {
				focus = id
			}
		}
		c.focus = focus
		for _, id := range sh.voters {
			r.remotes[id] = vRemote(last, id == c.self, id == focus, o)
		}
		for _, id := range sh.nonVotings {
			r.nonVotings[id] = vRemote(last, false, id == focus, o)
		}
		for _, id := range sh.witnesses {
			r.witnesses[id] = vRemote(last, false, id == focus, o)
		}
		if o.transfer && vBool("transferring") {
			r.leaderTransferTarget = vU64("transferTarget")
			vAssume(vIn(r.leaderTransferTarget, sh.voters))
			vAssume(r.leaderTransferTarget != c.self)
		}
		r.snapshotting = vBool("snapshotting")
		r.pendingConfigChange = vBool("pendingCC")
		nctx := vChoose("nctx", o.maxRead+1)
		prevIdx := uint64(0)
		for i := 0; i < nctx; i++ {
			ctx := pb.SystemCtx{Low: vU64("ctxlow"), High: vU64("ctxhigh")}
			vAssume(ctx.Low != 0)
			for _, q := range r.readIndex.queue {
				vAssume(q.Low != ctx.Low)
			}
			idx := vU64("ctxidx")
			vAssume(idx >= prevIdx)
			vAssume(idx <= l.committed)
			prevIdx = idx
			from := vU64("ctxfrom")
			vAssume(vOr(from == 0, vIn(from, ids)))
			rs := &readStatus{index: idx, from: from, ctx: ctx, confirmed: make(map[uint64]struct{})}
			for _, id := range sh.voting() {
				if id != c.self && vBool("confirmed") {
					rs.confirmed[id] = struct{}{}
				}
			}
			r.readIndex.queue = append(r.readIndex.queue, ctx)
			r.readIndex.pending[ctx] = rs
		}
	case candidate, preVoteCandidate:
		vAssume(r.term >= 1)
		vAssume(r.leaderID == 0)
		if r.state == candidate {
			vAssume(r.vote == c.self)
		}
		r.votes[c.self] = true
		if o.votes {
			yes, no := 1, 0
			for _, id := range sh.voting() {
				if id != c.self {
					switch vChoose("voted", 3) {
					case 1:
						r.votes[id] = true
						yes++
					case 2:
						r.votes[id] = false
						no++
					}
				}
			}
			// a candidate that already had a quorum of grants (or rejections) is not
			// a candidate any more
			q := len(sh.voting())/2 + 1
			vAssume(yes < q && no < q)
		}
	}
	r.resetMatchValueArray()
	if r.state == leader {
		// r.matched is scratch space reused by every tryCommit: whatever an earlier
		// call left in it must not matter
		for i := range r.matched {
			r.matched[i] = vU64("scratch")
		}
	}
	r.initializeHandlerMap()
	r.handle = defaultHandle
	return r, c
}

// ---------------------------------------------------------------------------
// pre-state record and the lemmas that must hold across every step

type vPre struct {
	term, vote, leaderID uint64
	state                State
	log                  *vLogSnap
	votes                map[uint64]bool
	nctx                 int
	selfVoter            bool
	// leader's match index per member, and the only acknowledgement (sender,
	// index) delivered in this step, if any
	match            map[uint64]uint64
	ackFrom, ackIndex uint64
}

func vRecord(r *raft) *vPre {
	p := &vPre{term: r.term, vote: r.vote, leaderID: r.leaderID, state: r.state, log: vSnapLog(r.log),
		votes: make(map[uint64]bool), nctx: len(r.readIndex.queue)}
	for k, v := range r.votes {
		p.votes[k] = v
	}
	_, p.selfVoter = r.remotes[r.replicaID]
	p.match = map[uint64]uint64{}
	for _, m := range []map[uint64]*remote{r.remotes, r.nonVotings, r.witnesses} {
		for id, rm := range m {
			p.match[id] = rm.match
		}
	}
	return p
}

// vFrame asserts the lemmas that hold for every step of every message type.
func vFrame(p *vPre, r *raft, c vCluster, tag string) {
	// C03/V1 one vote per term
	vAssert(r.term >= p.term, tag+"V1-term-monotone")
	vAssert(vImplies(vAnd(r.term == p.term, p.vote != 0), r.vote == p.vote), tag+"V1-vote-once")
	// C02/L1 committed prefix immutable, L3 commit within the log
	post := vSnapLog(r.log)
	vAssert(post.committed >= p.log.committed, tag+"L1-commit-monotone")
	vAssert(post.committed <= post.last(), tag+"L3-commit-le-last")
	q := vU64("probe")
	t0, ty0, ok0 := p.log.at(q)
	t1, ty1, ok1 := post.at(q)
	covered := vAnd(vAnd(ok0, q <= p.log.committed), q > post.base())
	vAssert(vImplies(covered, vAnd(ok1, vAnd(t1 == t0, ty1 == ty0))), tag+"L1-committed-prefix-immutable")
	// C18 only voting members campaign or lead; C03 leader only from candidate
	if r.state == leader && p.state != leader {
		// (the only voting member of a shard elects itself within the campaign step)
		vAssert(p.state == candidate || len(c.shape.voting()) == 1, tag+"V4-leader-only-from-candidate")
		vAssert(p.state != candidate || r.term == p.term, tag+"V4-leader-same-term")
	}
	if r.state == candidate || r.state == preVoteCandidate || r.state == leader {
		vAssert(p.state != nonVoting && p.state != witness, tag+"R18-nonvoter-never-campaigns")
	}
	if p.state == witness {
		vAssert(r.state == witness, tag+"R18-witness-stays-witness")
	}
	// C06/R4 pending read confirmations never survive a term or role change
	changed := vOr(r.term != p.term, r.state != p.state)
	vAssert(vImplies(changed, len(r.readIndex.queue) == 0 && len(r.readIndex.pending) == 0), tag+"R4-readindex-cleared")
	if r.state != leader {
		vAssert(len(r.readIndex.queue) == 0, tag+"R4-readindex-only-on-leader")
	}
	// C06/R5 released read indexes never exceed the commit index
	for _, rr := range r.readyToRead {
		vAssert(rr.Index <= post.committed, tag+"R5-ready-le-committed")
	}
	// C02 (truthful match): while a replica stays leader of a term, its match
	// index for another member only ever moves forward, and only to an index
	// that member acknowledged in this step
	if p.state == leader && r.state == leader && r.term == p.term {
		for id, was := range p.match {
			rm := vRemoteOf(r, id)
			if rm == nil || id == r.replicaID {
				continue
			}
			vAssert(rm.match >= was, tag+"L4-match-never-decreases")
			if id == p.ackFrom {
				vAssert(vOr(rm.match == was, rm.match == p.ackIndex), tag+"L4-match-moves-only-to-the-acknowledged-index")
			} else {
				vAssert(rm.match == was, tag+"L4-match-moves-only-through-an-acknowledgement")
			}
		}
	}
	// outgoing messages
	for i := range r.msgs {
		m := &r.msgs[i]
		if m.Type == pb.RequestVoteResp && !m.Reject {
			// C03/V2 a grant is recorded before it can be persisted or sent
			vAssert(r.vote == m.To, tag+"V2-grant-recorded-vote")
			vAssert(m.Term == r.term, tag+"V2-grant-recorded-term")
		}
		if m.Type != pb.RequestPreVote && m.Type != pb.RequestPreVoteResp {
			vAssert(m.Term <= r.term, tag+"O2-msg-term-le-term")
		}
		if m.Type == pb.Heartbeat {
			// C06/R3, C18: read-confirmation hints go to voting members only
			_, isR := r.remotes[m.To]
			_, isW := r.witnesses[m.To]
			vAssert(vImplies(vOr(m.Hint != 0, m.HintHigh != 0), isR || isW), tag+"R3-hint-only-to-voting")
		}
		if m.Type == pb.ReadIndexResp {
			vAssert(m.LogIndex <= post.committed, tag+"R5-readindexresp-le-committed")
		}
		vSenderTruthful(m, r, post, tag)
		if _, isW := r.witnesses[m.To]; isW {
			// C18 witnesses never receive user payloads
			if m.Type == pb.Replicate {
				for j := range m.Entries {
					e := &m.Entries[j]
					vAssert(e.Type == pb.MetadataEntry || e.Type == pb.ConfigChangeEntry, tag+"R18-witness-metadata-only")
					if e.Type == pb.MetadataEntry {
						vAssert(len(e.Cmd) == 0, tag+"R18-witness-no-payload")
					}
				}
			}
			if m.Type == pb.InstallSnapshot {
				vAssert(m.Snapshot.Witness && m.Snapshot.Filepath == "" && len(m.Snapshot.Files) == 0, tag+"R18-witness-dummy-snapshot")
			}
		}
	}
	// C07 raft-side membership kinds stay disjoint
	for id := range r.remotes {
		_, a := r.nonVotings[id]
		_, b := r.witnesses[id]
		vAssert(!a && !b, tag+"M-kinds-disjoint")
	}
	for id := range r.nonVotings {
		_, b := r.witnesses[id]
		vAssert(!b, tag+"M-kinds-disjoint")
	}
	vLogInvAssert(r.log, tag)
}

func vConfig(self uint64) config.Config {
	return config.Config{ShardID: 1, ReplicaID: self, ElectionRTT: 3, HeartbeatRTT: 1}
}

// vRemoteOf returns the leader's progress record of a member of any kind.
func vRemoteOf(r *raft, id uint64) *remote {
	if x, ok := r.remotes[id]; ok {
		return x
	}
	if x, ok := r.witnesses[id]; ok {
		return x
	}
	if x, ok := r.nonVotings[id]; ok {
		return x
	}
	return nil
}

// vSenderTruthful is the guarantee side of the receivers' "messages are not
// fabricated" assumption: what a replica puts into an outgoing message is what
// its own log says.  Checked on every outgoing message of every step.
func vSenderTruthful(m *pb.Message, r *raft, post *vLogSnap, tag string) {
	switch m.Type {
	case pb.Replicate:
		// (a leader never truncates its log, so a message built earlier in the
		// same step is still a truthful excerpt of the post-state log)
		if r.state == leader {
			vAssert(m.Term == r.term, tag+"G-replicate-carries-own-term")
		}
		vAssert(m.LogIndex >= post.base(), tag+"G-replicate-prev-index-available")
		vAssert(m.LogTerm == post.term(m.LogIndex), tag+"G-replicate-prev-term-is-own-log")
		_, toWitness := r.witnesses[m.To]
		for j := range m.Entries {
			e := &m.Entries[j]
			vAssert(e.Index == m.LogIndex+1+uint64(j), tag+"G-replicate-entries-contiguous")
			t, ty, ok := post.at(e.Index)
			vAssert(vAnd(ok, t == e.Term), tag+"G-replicate-entries-are-own-log")
			if !toWitness {
				vAssert(ty == uint64(e.Type), tag+"G-replicate-entry-type-is-own-log")
			} else {
				vAssert(vOr(ty == uint64(e.Type), e.Type == pb.MetadataEntry), tag+"G-replicate-entry-type-is-own-log")
			}
		}
		vAssert(m.Commit <= post.committed, tag+"G-replicate-commit-le-own-commit")
	case pb.Heartbeat:
		vAssert(m.Commit <= post.committed, tag+"G-heartbeat-commit-le-own-commit")
		if rm := vRemoteOf(r, m.To); rm != nil && r.state == leader {
			// never tells a follower to commit what it has not acknowledged
			vAssert(m.Commit <= rm.match, tag+"G-heartbeat-commit-le-acknowledged")
		}
	case pb.InstallSnapshot:
		vAssert(m.Snapshot.Index <= post.committed, tag+"G-snapshot-le-own-commit")
		vAssert(vImplies(m.Snapshot.Index >= post.base(), post.term(m.Snapshot.Index) == m.Snapshot.Term), tag+"G-snapshot-term-is-own-log")
	case pb.RequestVote:
		vAssert(m.Term == r.term, tag+"G-requestvote-carries-own-term")
		vAssert(m.LogIndex == post.last(), tag+"G-requestvote-last-index")
		vAssert(m.LogTerm == post.term(post.last()), tag+"G-requestvote-last-term")
	case pb.RequestPreVote:
		vAssert(m.Term == r.term+1, tag+"G-prevote-carries-next-term")
		vAssert(m.LogIndex == post.last(), tag+"G-requestvote-last-index")
		vAssert(m.LogTerm == post.term(post.last()), tag+"G-requestvote-last-term")
	case pb.ReplicateResp:
		if !m.Reject {
			// an acknowledgement never claims more than the replica holds
			vAssert(m.LogIndex <= post.last(), tag+"G-ack-le-last")
		}
	}
}

// ---------------------------------------------------------------------------
// pre-states reached by the real code
//
// A constructed pre-state (vRaft) fixes the fields the representation invariant
// talks about.  Implementation state the invariant does not mention - a cache,
// a flag carried from an earlier term - is at its zero value there.  So every
// lemma is also checked from states the real code itself reached: replica 1 of
// {1,2,3}, created by newRaft over the model store and driven through one of
// the skeleton histories below with symbolic acknowledgements and term jumps;
// every Update goes through GetUpdate / save / Commit / apply as the node does.
//
//   0 launched follower; 1 candidate; 2 leader, own-term entry not committed;
//   3 leader after (optional proposal and) an acknowledgement from replica 2;
//   4 deposed by a higher-term heartbeat; 5 candidate again; 6 re-elected,
//   new own-term entry not committed; 7 re-elected and acknowledged.
func vReachedRaft(o vRaftOpts, c *vCluster) *raft {
	db := &vDB{}
	db.members.Addresses = map[uint64]string{1: "a1", 2: "a2", 3: "a3"}
	cfg := vConfig(1)
	if o.flags {
		cfg.CheckQuorum = vBool("checkQuorum")
	}
	r := newRaft(cfg, db)
	p := Peer{raft: r}
	p.prevState = r.raftState()
	applied := uint64(0)
	cycle := func() {
		if !p.HasUpdate(true) {
			return
		}
		ud, err := p.GetUpdate(true, applied)
		vAssert(err == nil, "reached-get-update-ok")
		if err := db.Append(ud.EntriesToSave); err != nil {
			panic(err)
		}
		if !pb.IsEmptyState(ud.State) {
			db.SetState(ud.State)
		}
		p.Commit(ud)
		if n := len(ud.CommittedEntries); n > 0 {
			applied = ud.CommittedEntries[n-1].Index
			p.NotifyRaftLastApplied(applied)
		}
	}
	step := func(m pb.Message) {
		m.To = 1
		if err := r.Handle(m); err != nil {
			panic(err)
		}
		cycle()
	}
	h := vChoose("history", 8)
	if h >= 1 {
		step(pb.Message{Type: pb.Election, From: 1})
	}
	if h >= 2 {
		step(pb.Message{Type: pb.RequestVoteResp, From: 2, Term: r.term})
	}
	if h >= 3 {
		if vBool("proposed") {
			step(pb.Message{Type: pb.Propose, From: 1, Entries: []pb.Entry{{Cmd: []byte{0x5a}}}})
		}
		ack := vU64("ack")
		vAssume(ack >= 1 && ack <= r.log.lastIndex())
		step(pb.Message{Type: pb.ReplicateResp, From: 2, Term: r.term, LogIndex: ack})
	}
	if h >= 4 {
		bump := vU64("termjump")
		vAssume(bump < 3)
		step(pb.Message{Type: pb.Heartbeat, From: 3, Term: r.term + 1 + bump})
	}
	if h >= 5 {
		step(pb.Message{Type: pb.Election, From: 1})
	}
	if h >= 6 {
		step(pb.Message{Type: pb.RequestVoteResp, From: 2, Term: r.term})
	}
	if h >= 7 {
		step(pb.Message{Type: pb.ReplicateResp, From: 3, Term: r.term, LogIndex: r.log.lastIndex()})
	}
	ok := o.roles == nil
	for _, s := range o.roles {
		if s == r.state {
			ok = true
		}
	}
	vAssume(ok)
	if r.state == leader {
		c.focus = 2
	}
	r.msgs = make([]pb.Message, 0)
	r.droppedEntries = make([]pb.Entry, 0)
	r.readyToRead = nil
	r.droppedReadIndexes = nil
	return r
}
