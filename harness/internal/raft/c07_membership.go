package raft

import (
	pb "github.com/lni/dragonboat/v4/raftpb"
)

// vUncommittedCC counts config-change entries above the commit index.
func vUncommittedCC(s *vLogSnap) uint64 {
	n := uint64(0)
	for k := range s.win {
		n += vIte(vAnd(s.win[k].Index > s.committed, s.win[k].Type == pb.ConfigChangeEntry), 1, 0)
	}
	// persisted entries not shadowed by the in-memory window (after a restart the
	// whole uncommitted tail may live in the log store only)
	if !s.hasSS {
		for k := range s.pers {
			visible := vOr(len(s.win) == 0, s.pers[k].Index < s.mi)
			n += vIte(vAnd(visible, vAnd(s.pers[k].Index > s.committed, s.pers[k].Type == pb.ConfigChangeEntry)), 1, 0)
		}
	}
	return n
}

// C07: the leader admits one config-change entry at a time; further ones are
// replaced by empty application entries and reported dropped.
//vcheck: reach=admitted,replaced,done workers=16
func VHarness_C07_ProposeConfigChange() {
	o := vRaftOpts{pairs: [][2]uint64{{vS3, 1}}, log: vLogOpts{maxWin: 2, types: true, noAppliedTo: true, allSaved: true}, roles: []State{leader}, transfer: true}
	r, c := vRaft(o)
	pre := vSnapLog(r.log)
	// RaftInv: an uncommitted config change in the leader's log implies the pending flag, and there is at most one
	ncc := vUncommittedCC(pre)
	vAssume(ncc <= 1)
	vAssume(vImplies(ncc == 1, r.pendingConfigChange))
	p := vRecord(r)
	k := vChoose("nprop", 2) + 1
	var ents []pb.Entry
	nccProp := 0
	for i := 0; i < k; i++ {
		e := pb.Entry{Type: pb.ApplicationEntry, Key: uint64(100 + i), Cmd: []byte{7}}
		if vBool("propIsCC") {
			e.Type = pb.ConfigChangeEntry
			nccProp++
		}
		ents = append(ents, e)
	}
	pend0 := r.pendingConfigChange
	transferring := r.leaderTransfering()
	peer := Peer{raft: r}
	err := peer.ProposeEntries(ents)
	vAssert(err == nil, "noerr")
	vFrame(p, r, c, "")
	post := vSnapLog(r.log)
	if transferring {
		vAssert(post.last() == pre.last() && len(r.droppedEntries) == k, "CC-all-dropped-while-transferring")
		vReach("done")
		return
	}
	vAssert(post.last() == pre.last()+uint64(k), "CC-every-proposed-slot-appended")
	vAssert(vUncommittedCC(post) <= 1, "CC-at-most-one-uncommitted-config-change")
	admitted := 0
	for i := 0; i < k; i++ {
		_, ty, ok := post.at(pre.last() + 1 + uint64(i))
		vAssert(ok, "CC-entry-present")
		if ents[i].Type == pb.ConfigChangeEntry || ty == uint64(pb.ConfigChangeEntry) {
			if ty == uint64(pb.ConfigChangeEntry) {
				admitted++
			}
		}
	}
	wantAdmitted := 0
	if !pend0 && nccProp > 0 {
		wantAdmitted = 1
	}
	vAssert(admitted == wantAdmitted, "CC-admits-exactly-one-when-none-pending")
	vAssert(len(r.droppedEntries) == nccProp-wantAdmitted, "CC-extra-changes-reported-dropped")
	vAssert(r.pendingConfigChange == (pend0 || nccProp > 0), "CC-pending-flag")
	if wantAdmitted == 1 {
		vReach("admitted")
	}
	if nccProp-wantAdmitted > 0 {
		vReach("replaced")
	}
	vReach("done")
}

// C07 (+C18): an applied membership change updates the raft-side member sets
// exactly: kinds stay disjoint, promotion keeps progress, a removed leader
// steps down, a promoted non-voting replica becomes a follower.
//vcheck: reach=added,promoted,removed,selfremoved,done workers=16
func VHarness_C07_ApplyConfigChange() {
	o := vRaftOpts{shapes: []int{vS3, vS3w, vS4}, log: vSmallLog(), flags: true, allSelves: true}
	r, c := vRaft(o)
	p := vRecord(r)
	cc := pb.ConfigChange{Type: pb.ConfigChangeType(vChoose("cctype", 4)), ReplicaID: uint64(vChoose("ccid", 6)) + 1}
	// what rsm.membership accepts (the change was applied there first): see VHarness_C07_Membership
	_, isV := r.remotes[cc.ReplicaID]
	_, isN := r.nonVotings[cc.ReplicaID]
	_, isW := r.witnesses[cc.ReplicaID]
	switch cc.Type {
	case pb.AddNode:
		vAssume(!isW)
	case pb.AddNonVoting:
		vAssume(!isV && !isW)
		vAssume(cc.ReplicaID != c.self || r.state == nonVoting)
	case pb.AddWitness:
		vAssume(!isV && !isN)
		vAssume(cc.ReplicaID != c.self || r.state == witness)
	case pb.RemoveNode:
		vAssume(len(r.remotes) > 1 || !isV)
	}
	r.pendingConfigChange = vBool("pendingCC2")
	peer := Peer{raft: r}
	err := peer.ApplyConfigChange(cc)
	vAssert(err == nil, "noerr")
	vFrame(p, r, c, "")
	_, isV2 := r.remotes[cc.ReplicaID]
	_, isN2 := r.nonVotings[cc.ReplicaID]
	_, isW2 := r.witnesses[cc.ReplicaID]
	vAssert(!r.pendingConfigChange, "CC-applied-clears-pending-flag")
	switch cc.Type {
	case pb.AddNode:
		vAssert(isV2 && !isN2 && !isW2, "M-addnode-is-voter")
		if isN {
			vReach("promoted")
			if cc.ReplicaID == c.self {
				vAssert(r.state == follower, "M-promoted-self-becomes-follower")
			}
		} else if !isV {
			vReach("added")
		}
	case pb.AddNonVoting:
		vAssert(isN2 && !isV2 && !isW2, "M-addnonvoting")
	case pb.AddWitness:
		vAssert(isW2 && !isV2 && !isN2, "M-addwitness")
	case pb.RemoveNode:
		vReach("removed")
		vAssert(!isV2 && !isN2 && !isW2, "M-removed-from-every-set")
		if cc.ReplicaID == c.self {
			vReach("selfremoved")
			vAssert(r.state != leader, "R18-removed-leader-steps-down")
		}
	}
	// nobody else changes kind
	for _, id := range c.shape.all() {
		if id == cc.ReplicaID {
			continue
		}
		_, a := r.remotes[id]
		_, b := r.nonVotings[id]
		_, w := r.witnesses[id]
		vAssert(a == vInC(id, c.shape.voters) && b == vInC(id, c.shape.nonVotings) && w == vInC(id, c.shape.witnesses), "M-others-unchanged")
	}
	vReach("done")
}

func vInC(id uint64, l []uint64) bool {
	for _, x := range l {
		if x == id {
			return true
		}
	}
	return false
}

// C07/C03: no campaign while a committed entry (possibly a membership change)
// is not applied yet - neither on election timeout nor as a transfer target.
//vcheck: props=C03 reach=blocked,done workers=8
func VHarness_C07_ElectionBlocked() {
	r, c := vRaft(vRaftOpts{pairs: [][2]uint64{{vS3, 1}}, log: vSmallLog(), roles: []State{follower, candidate, preVoteCandidate}, flags: true})
	vAssume(r.log.committed > r.applied)
	p := vRecord(r)
	peer := Peer{raft: r}
	if vBool("viaTimeoutNow") {
		vAssume(r.state == follower)
		err := peer.Handle(pb.Message{Type: pb.TimeoutNow, To: c.self, From: 2, Term: r.term})
		vAssert(err == nil, "noerr")
	} else {
		for k := 0; k < int(2*r.electionTimeout); k++ {
			err := peer.Tick()
			vAssert(err == nil, "noerr")
		}
	}
	vFrame(p, r, c, "")
	vAssert(r.term == p.term && r.state == p.state, "C07-no-campaign-with-unapplied-committed-entries")
	for i := range r.msgs {
		vAssert(r.msgs[i].Type != pb.RequestVote && r.msgs[i].Type != pb.RequestPreVote, "C07-no-vote-requests-while-blocked")
	}
	vReach("blocked")
	vReach("done")
}

// C07: a new leader whose log holds an uncommitted membership change starts
// with the pending flag set (so it admits no second one).
//vcheck: reach=elected,withcc,done workers=8
func VHarness_C07_NewLeaderPendingFlag() {
	o := vRaftOpts{pairs: [][2]uint64{{vS3, 1}}, log: vLogOpts{maxPers: 2, maxWin: 2, types: true, noAppliedTo: true, allSaved: true}, roles: []State{candidate}}
	r, c := vRaft(o)
	pre := vSnapLog(r.log)
	ncc := vUncommittedCC(pre)
	vAssume(ncc <= 1) // Inv: never two uncommitted membership changes in a log
	p := vRecord(r)
	peer := Peer{raft: r}
	err := peer.Handle(pb.Message{Type: pb.RequestVoteResp, To: c.self, From: 2, Term: r.term})
	vAssert(err == nil, "noerr")
	vFrame(p, r, c, "")
	if r.state == leader {
		vReach("elected")
		vAssert(r.pendingConfigChange == (ncc == 1), "CC-new-leader-inherits-pending-change")
		if r.pendingConfigChange {
			vReach("withcc")
		}
	}
	vReach("done")
}
