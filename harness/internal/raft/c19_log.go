package raft

import (
	"github.com/cockroachdb/errors"

	pb "github.com/lni/dragonboat/v4/raftpb"
)

func vC19Log() vLogOpts {
	return vLogOpts{maxPers: 2, maxWin: 2 + vTier(), ss: true, shadow: true}
}

// C19: every read-only query of entryLog answers what the logical log says.
// vcheck: reach=in-range,out-of-range,done workers=16
func VHarness_C19_LogQueries() {
	l := vLog(vC19Log())
	a := vSnapLog(l)
	vAssert(l.lastIndex() == a.last(), "lastIndex")
	vAssert(l.firstIndex() == a.base()+1, "firstIndex")
	i := vU64("i")
	t, err := l.term(i)
	vAssert(err == nil, "term-noerr")
	vAssert(t == a.term(i), "term-equals-alpha")
	_, _, ok := a.at(i)
	if ok {
		vReach("in-range")
	} else {
		vReach("out-of-range")
	}
	lt, err := l.lastTerm()
	vAssert(err == nil && lt == a.term(a.last()), "lastTerm")
	// upToDate / matchTerm are defined through the last entry / the entry at i
	qi, qt := vU64("qindex"), vU64("qterm")
	utd, err := l.upToDate(qi, qt)
	vAssert(err == nil, "upToDate-noerr")
	want := vOr(qt > lt, vAnd(qt == lt, qi >= a.last()))
	vAssert(utd == want, "upToDate-is-election-restriction")
	mt, err := l.matchTerm(i, qt)
	vAssert(err == nil && mt == (a.term(i) == qt), "matchTerm")
	vReach("done")
}

// C19: range reads return exactly the contiguous entries of the logical log.
// vcheck: reach=range,compacted,save,apply,done workers=16
func VHarness_C19_LogRanges() {
	l := vLog(vC19Log())
	a := vSnapLog(l)
	lo, hi := vU64("lo"), vU64("hi")
	vAssume(lo <= hi)
	vAssume(hi <= a.last()+1)
	ents, err := l.getEntries(lo, hi, 1<<40)
	emptyLog := a.hasSS && len(a.win) == 0
	if lo <= a.base() || emptyLog {
		vReach("compacted")
		vAssert(errors.Is(err, ErrCompacted), "range-below-first-is-compacted")
	} else {
		vReach("range")
		vAssert(err == nil, "range-noerr")
		vAssert(uint64(len(ents)) == hi-lo, "range-length")
		for k := range ents {
			t, ty, ok := a.at(lo + uint64(k))
			vAssert(ok, "range-entry-exists")
			vAssert(ents[k].Index == lo+uint64(k), "range-entry-index")
			vAssert(ents[k].Term == t && uint64(ents[k].Type) == ty, "range-entry-term")
		}
	}
	// entries still to be persisted: exactly those above savedTo
	ts := l.entriesToSave()
	vReach("save")
	vAssert(uint64(len(ts)) == a.last()-a.savedTo, "toSave-count")
	for k := range ts {
		vAssert(ts[k].Index == a.savedTo+1+uint64(k), "toSave-index")
		t, _, ok := a.at(ts[k].Index)
		vAssert(ok && ts[k].Term == t, "toSave-term")
	}
	// entries ready to apply: (max(processed, base), committed]
	ta, err := l.entriesToApply()
	vAssert(err == nil, "toApply-noerr")
	vReach("apply")
	from := vIte(a.processed > a.base(), a.processed, a.base())
	vAssert(uint64(len(ta)) == a.committed-from, "toApply-count")
	for k := range ta {
		vAssert(ta[k].Index == from+1+uint64(k), "toApply-index")
		t, _, ok := a.at(ta[k].Index)
		vAssert(ok && ta[k].Term == t, "toApply-term")
	}
	vReach("done")
}

// vNewEntries builds k new entries starting at first with non-decreasing terms >= prev.
func vNewEntries(first uint64, k int, prev uint64) []pb.Entry {
	var es []pb.Entry
	for j := 0; j < k; j++ {
		t := vU64("nterm")
		vAssume(t >= prev)
		vAssume(t >= 1)
		vAssume(t < vMaxIdx)
		prev = t
		es = append(es, pb.Entry{Index: first + uint64(j), Term: t})
	}
	return es
}

// C19: append (truncate at the first new index, then extend) commutes with the
// logical log, re-appended entries have to be persisted again.
// vcheck: reach=truncating,extending,done workers=16
func VHarness_C19_LogAppend() {
	l := vLog(vC19Log())
	a := vSnapLog(l)
	k := vChoose("k", 2) + 1
	first := vU64("first")
	vAssume(first > a.committed)
	vAssume(first <= a.last()+1)
	es := vNewEntries(first, k, a.term(first-1))
	l.append(es)
	b := vSnapLog(l)
	vLogInvAssert(l, "append-")
	vAssert(b.last() == first+uint64(k)-1, "append-last")
	vAssert(b.committed == a.committed && b.processed == a.processed, "append-counters-unchanged")
	q := vU64("q")
	t1, _, ok1 := b.at(q)
	t0, _, ok0 := a.at(q)
	for j := 0; j < k; j++ {
		vAssert(vImplies(q == first+uint64(j), vAnd(ok1, t1 == es[j].Term)), "append-new-entries-present")
	}
	vAssert(vImplies(vAnd(q < first, vAnd(ok0, q > b.base())), vAnd(ok1, t1 == t0)), "append-prefix-kept")
	vAssert(vImplies(q >= first+uint64(k), !ok1), "append-nothing-beyond")
	// (iii) truncated and re-appended entries are handed out for persistence again
	vAssert(b.savedTo < first, "append-savedTo-below-new-entries")
	vAssert(b.savedTo <= a.savedTo, "append-savedTo-never-grows")
	if first <= a.last() {
		vReach("truncating")
	} else {
		vReach("extending")
		vAssert(b.savedTo == a.savedTo, "append-extend-keeps-savedTo")
	}
	// the raft-level view agrees
	vAssert(l.lastIndex() == b.last(), "append-lastIndex")
	tt, err := l.term(q)
	vAssert(err == nil && tt == b.term(q), "append-term-view")
	vReach("done")
}

// vPersist does what node.processRaftUpdate does between GetUpdate and Commit:
// the snapshot record and the entries of the Update become visible in the store.
func vPersist(l *entryLog, ud pb.Update) {
	db := l.logdb.(*vDB)
	if !pb.IsEmptySnapshot(ud.Snapshot) {
		if err := db.ApplySnapshot(ud.Snapshot); err != nil {
			panic(err)
		}
	}
	if err := db.Append(ud.EntriesToSave); err != nil {
		panic(err)
	}
}

// C19/C04: one GetUpdate -> persist -> Commit cycle with arbitrary apply lag.
// (iv) an entry is never handed out for apply unless committed and saved or in
// the same EntriesToSave; the acknowledgements never change the logical log;
// nothing is handed out for apply twice; what was saved is not saved again.
// vcheck: props=C04,C02 reach=tosave,toapply,snapshot,trimmed,done workers=16
func VHarness_C19_UpdateCycle() {
	o := vLogOpts{maxPers: 1, maxWin: 2, ss: true, noAppliedTo: true}
	roles := []State{follower}
	if vTier() > 0 {
		o = vLogOpts{maxPers: 2, maxWin: 3, ss: true, shadow: true}
		roles = []State{follower, leader}
	}
	r, _ := vRaft(vRaftOpts{shapes: []int{vS3}, log: o, roles: roles})
	l := r.log
	a := vSnapLog(l)
	p := Peer{raft: r}
	p.prevState = pb.State{Term: vU64("prevTerm"), Vote: vU64("prevVote"), Commit: vU64("prevCommit")}
	vAssume(p.prevState.Term <= r.term)
	vAssume(p.prevState.Commit <= a.committed)
	lastApplied := vU64("lastApplied")
	vAssume(lastApplied <= a.processed)
	vAssume(lastApplied >= r.applied)
	if a.hasSS {
		vAssume(lastApplied <= a.ssIndex) // nothing beyond a pending snapshot has been applied yet
	}
	ud, err := p.GetUpdate(vBool("moreToApply"), lastApplied)
	vAssert(err == nil, "getupdate-noerr")
	// hard state is carried whenever it differs from what was last handed out (C04/O2)
	cur := pb.State{Term: r.term, Vote: r.vote, Commit: a.committed}
	if cur.Term != p.prevState.Term || cur.Vote != p.prevState.Vote || cur.Commit != p.prevState.Commit {
		vAssert(ud.State.Term == cur.Term && ud.State.Vote == cur.Vote && ud.State.Commit == cur.Commit, "O2-state-carried")
	}
	// entries to save: exactly everything above savedTo
	vAssert(uint64(len(ud.EntriesToSave)) == a.last()-a.savedTo, "O2-entries-to-save-complete")
	if len(ud.EntriesToSave) > 0 {
		vReach("tosave")
		vAssert(ud.EntriesToSave[0].Index == a.savedTo+1, "O2-entries-to-save-from-savedTo")
	}
	if a.hasSS {
		vReach("snapshot")
		vAssert(ud.Snapshot.Index == a.ssIndex, "O2-snapshot-carried")
	}
	// entries to apply
	for k := range ud.CommittedEntries {
		e := &ud.CommittedEntries[k]
		vAssert(e.Index <= a.committed, "iv-apply-only-committed")
		vAssert(e.Index > a.processed, "iv-apply-not-twice")
		vAssert(e.Index <= a.last(), "iv-apply-within-log")
		t, _, ok := a.at(e.Index)
		vAssert(ok && t == e.Term, "iv-apply-entry-is-alpha")
	}
	if n := len(ud.CommittedEntries); n > 0 {
		vReach("toapply")
		vAssert(ud.CommittedEntries[0].Index == vIte(a.processed > a.base(), a.processed, a.base())+1, "iv-apply-contiguous-from-processed")
		lastApply := ud.CommittedEntries[n-1].Index
		if len(ud.EntriesToSave) > 0 {
			firstSave := ud.EntriesToSave[0].Index
			vAssert(vImplies(lastApply >= firstSave, !ud.FastApply), "iv-fastapply-false-when-apply-overlaps-save")
		}
		vAssert(vImplies(lastApply > a.savedTo, len(ud.EntriesToSave) > 0), "iv-apply-saved-or-in-same-update")
	}
	vAssert(vImplies(!pb.IsEmptySnapshot(ud.Snapshot), !ud.FastApply), "iv-no-fastapply-with-snapshot")
	// persist, then acknowledge
	vPersist(l, ud)
	p.Commit(ud)
	b := vSnapLog(l)
	vLogInvAssert(l, "cycle-")
	vAssert(b.last() == a.last() && b.committed == a.committed, "cycle-log-extent-unchanged")
	vAssert(b.savedTo == a.last(), "cycle-everything-saved")
	q := vU64("q")
	t0, _, ok0 := a.at(q)
	t1, _, ok1 := b.at(q)
	vAssert(vImplies(vAnd(ok0, q > b.base()), vAnd(ok1, t1 == t0)), "cycle-alpha-unchanged")
	tt, err := l.term(q)
	vAssert(err == nil && vImplies(vAnd(q >= b.base(), q <= b.last()), tt == a.term(q)), "cycle-term-view-unchanged")
	if n := len(ud.CommittedEntries); n > 0 {
		vAssert(b.processed == ud.CommittedEntries[n-1].Index, "cycle-processed-advances")
	} else if a.hasSS {
		vAssert(b.processed == vIte(a.processed > a.ssIndex, a.processed, a.ssIndex), "cycle-processed-snapshot")
	} else {
		vAssert(b.processed == a.processed, "cycle-processed-unchanged")
	}
	vAssert(b.processed >= a.processed, "cycle-processed-monotone")
	if b.mi > a.mi {
		vReach("trimmed")
		vAssert(b.mi <= lastApplied+1, "cycle-window-trimmed-only-below-applied")
	}
	// a second GetUpdate hands out nothing that was already handed out
	ud2, err := p.GetUpdate(true, lastApplied)
	vAssert(err == nil, "getupdate2-noerr")
	vAssert(len(ud2.EntriesToSave) == 0, "cycle-nothing-saved-twice")
	for k := range ud2.CommittedEntries {
		vAssert(ud2.CommittedEntries[k].Index > b.processed, "cycle-nothing-applied-twice")
	}
	vAssert(pb.IsEmptySnapshot(ud2.Snapshot), "cycle-snapshot-not-handed-out-twice")
	vAssert(pb.IsEmptyState(ud2.State), "cycle-state-not-handed-out-twice")
	vReach("done")
}

// C19: restore replaces the log by the snapshot.
// vcheck: reach=done workers=8
func VHarness_C19_Restore() {
	l := vLog(vC19Log())
	a := vSnapLog(l)
	ss := pb.Snapshot{Index: vU64("ssi"), Term: vU64("sst")}
	vAssume(ss.Index > a.committed)
	vAssume(ss.Index < vMaxIdx)
	vAssume(ss.Term >= 1)
	l.restore(ss)
	b := vSnapLog(l)
	vLogInvAssert(l, "restore-")
	vAssert(b.hasSS && b.ssIndex == ss.Index && b.ssTerm == ss.Term, "restore-base")
	vAssert(b.last() == ss.Index && b.committed == ss.Index && b.processed == ss.Index && b.savedTo == ss.Index, "restore-counters")
	vAssert(l.lastIndex() == ss.Index && l.firstIndex() == ss.Index+1, "restore-view")
	t, err := l.term(ss.Index)
	vAssert(err == nil && t == ss.Term, "restore-term")
	vAssert(len(l.entriesToSave()) == 0, "restore-nothing-to-save")
	vReach("done")
}
