package raft

import (
	pb "github.com/lni/dragonboat/v4/raftpb"
)

// C18 + C02 + C19: a proposal handed to a replica of any kind and role.  Only
// a leader that is not transferring leadership appends it (own term, next
// indexes, payload intact) and replicates it - with the payload to full and
// non-voting members, stripped to metadata for witnesses (frame lemma R18 on
// every outgoing message); followers and non-voting members forward it to the
// leader they know or report it dropped; candidates report it dropped; a
// witness never serves it.  Nobody but the leader changes its log.
//vcheck: props=C02,C19 reach=appended,dropped-transfer,forwarded,dropped,witness,to-witness,done workers=16
func VHarness_C18_Propose() {
	o := vRaftOpts{pairs: [][2]uint64{{vS3, 1}, {vS3w, 1}, {vS3w, 3}, {vS4, 4}, {vS5w, 1}},
		log: vLogOpts{maxPers: 1, maxWin: 2, noAppliedTo: true, allSaved: true, cmd: true}, transfer: true}
	if vTier() > 0 {
		o = vRaftOpts{shapes: []int{vS1, vS3, vS3w, vS4, vS5, vS5w}, log: vLogOpts{maxPers: 1, maxWin: 2, cmd: true, types: true}, transfer: true, flags: true}
	}
	r, c := vRaft(o)
	p := vRecord(r)
	n := 1 + vChoose("nprop", 2)
	var ents []pb.Entry
	for i := 0; i < n; i++ {
		ents = append(ents, pb.Entry{Type: pb.ApplicationEntry, Key: uint64(100 + i), Cmd: []byte{0x77, byte(i)}})
	}
	err := r.Handle(pb.Message{Type: pb.Propose, From: c.self, Entries: ents})
	vAssert(err == nil, "noerr")
	vFrame(p, r, c, "")
	post := vSnapLog(r.log)
	appended := post.last() != p.log.last()
	if p.state != leader {
		vAssert(!appended, "R18-only-the-leader-appends-proposals")
	}
	switch p.state {
	case leader:
		if r.leaderTransfering() {
			vReach("dropped-transfer")
			vAssert(!appended && len(r.droppedEntries) == n, "P-transferring-leader-drops-and-reports")
			break
		}
		vReach("appended")
		vAssert(post.last() == p.log.last()+uint64(n), "P-leader-appends-every-entry")
		for i := 0; i < n; i++ {
			idx := p.log.last() + 1 + uint64(i)
			t, ty, ok := post.at(idx)
			vAssert(ok && t == r.term && ty == uint64(pb.ApplicationEntry), "P-appended-with-own-term")
		}
		vAssert(vRemoteOf(r, c.self).match == post.last(), "P-leader-match-is-its-last")
		for i := range r.msgs {
			m := &r.msgs[i]
			if m.Type != pb.Replicate {
				continue
			}
			_, toWitness := r.witnesses[m.To]
			if toWitness {
				vReach("to-witness")
			}
			for j := range m.Entries {
				e := &m.Entries[j]
				if e.Index > p.log.last() && !toWitness {
					k := int(e.Index - p.log.last() - 1)
					vAssert(e.Key == uint64(100+k) && len(e.Cmd) == 2 && e.Cmd[0] == 0x77 && e.Cmd[1] == byte(k), "P-replicated-with-its-payload")
				}
			}
		}
	case follower, nonVoting:
		if p.leaderID != NoLeader {
			vReach("forwarded")
			cnt := 0
			for i := range r.msgs {
				m := &r.msgs[i]
				if m.Type == pb.Propose {
					cnt++
					vAssert(m.To == p.leaderID && len(m.Entries) == n, "P-forwarded-to-the-known-leader")
					for j := range m.Entries {
						vAssert(len(m.Entries[j].Cmd) == 2 && m.Entries[j].Cmd[1] == byte(j) && m.Entries[j].Key == uint64(100+j), "P-forwarded-intact")
					}
				}
			}
			vAssert(cnt == 1 && len(r.droppedEntries) == 0, "P-forwarded-once")
		} else {
			vReach("dropped")
			vAssert(len(r.droppedEntries) == n, "P-no-leader-reported-dropped")
		}
	case candidate, preVoteCandidate:
		vReach("dropped")
		vAssert(len(r.droppedEntries) == n, "P-candidate-reports-dropped")
	case witness:
		vReach("witness")
		for i := range r.msgs {
			vAssert(r.msgs[i].Type != pb.Propose && r.msgs[i].Type != pb.Replicate, "R18-witness-never-serves-proposals")
		}
	}
	vReach("done")
}
