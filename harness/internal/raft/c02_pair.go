package raft

import (
	pb "github.com/lni/dragonboat/v4/raftpb"
)

// Pair lemmas: a real leader L and another real replica F of the same shard in
// one harness.  The messages F receives are the ones L's code built, the
// responses L receives are the ones F's code built - nothing about the message
// contents is assumed.  The pre-state is an arbitrary pair satisfying the pair
// invariant below (consequences of the Raft invariants: Log Matching, Leader
// Completeness, truthful match index); the post-state must satisfy it again,
// so the composition sender -> receiver -> sender is decided for one round
// trip from every such pair, not for scripted histories.

//vcheck:bounds pair: leader = replica 1 of S3 (quick) / S3, S3w, S4 (thorough); other replica = 2 (quick) / 2 or the witness / non-voting member (thorough); each log: leader log persisted <= 1 + window <= 1 (quick) / 2 (thorough), other log persisted <= 1 + window <= 2; one round trip: L sends (Replicate to F | Propose + broadcast | heartbeat broadcast | ReadIndex + hinted heartbeat), F handles what is addressed to it (optionally twice = duplication), L handles F's responses; messages to third replicas are dropped
//vcheck:assume pair: the pre-state pair satisfies PairInv = Log Matching between the two logs (incl. their compaction bases), Leader Completeness instance (term(L) >= term(F) => every entry F knows to be committed is in L's log with the same term, last(L) >= committed(F)), entries of L's term held by F are L's entries, truthful match (match > 0 => term(F) >= term(L); term(F) = term(L) => F's log agrees with L's up to L's match index for F and is at least that long), and for ReadIndex: L has committed an entry of its term and term(F) <= term(L) => committed(F) <= committed(L)

type vEnt struct {
	index, term uint64
	valid       bool
}

// ents lists the logical entries of a log snapshot, the compaction base
// included (it is an entry that was folded into a snapshot).
func (s *vLogSnap) ents() []vEnt {
	var r []vEnt
	r = append(r, vEnt{s.base(), s.baseTerm(), s.base() >= 1})
	if !s.hasSS {
		for k := range s.pers {
			r = append(r, vEnt{s.pers[k].Index, s.pers[k].Term, vOr(len(s.win) == 0, s.pers[k].Index < s.mi)})
		}
	}
	for k := range s.win {
		r = append(r, vEnt{s.win[k].Index, s.win[k].Term, true})
	}
	return r
}

// vLogMatching: two entries with the same index and term => the logs agree on
// every lower index both hold.  Indexes are contiguous in both logs, so it is
// stated one step back per entry (the full prefix follows by induction):
// an entry of a above a's base that b holds with the same term => the
// predecessor index, if b covers it, has the same term in both.
func vLogMatchingOneWay(a, b *vLogSnap) bool {
	ok := true
	for _, x := range a.ents() {
		hit := vAnd(vAnd(x.valid, x.index > a.base()), vAnd(x.index <= b.last(), x.index-1 >= b.base()))
		hit = vAnd(hit, b.term(x.index) == x.term)
		ok = vAnd(ok, vImplies(hit, b.term(x.index-1) == a.term(x.index-1)))
	}
	return ok
}

func vLogMatching(a, b *vLogSnap) bool {
	return vAnd(vLogMatchingOneWay(a, b), vLogMatchingOneWay(b, a))
}

// vOwnTermEntries: only the leader of a term creates entries of that term, so
// an entry of L's term held by F above L's base is in L's log.
func vOwnTermEntries(ls, fs *vLogSnap, lterm uint64) bool {
	ok := true
	for _, y := range fs.ents() {
		c := vAnd(y.valid, vAnd(y.term == lterm, y.index >= ls.base()))
		ok = vAnd(ok, vImplies(c, ls.term(y.index) == y.term))
	}
	return ok
}

// vLeaderComplete: what F knows to be committed is in L's log.
func vLeaderComplete(ls, fs *vLogSnap, lterm, fterm uint64) bool {
	ok := ls.last() >= fs.committed
	for _, y := range fs.ents() {
		c := vAnd(y.valid, vAnd(y.index <= fs.committed, y.index >= ls.base()))
		ok = vAnd(ok, vImplies(c, ls.term(y.index) == y.term))
	}
	return vImplies(lterm >= fterm, ok)
}

// vTruthfulMatch: L's match index for F is backed by F's log.
func vTruthfulMatch(ls, fs *vLogSnap, lterm, fterm, match uint64) bool {
	ok := fs.last() >= match
	for _, x := range ls.ents() {
		c := vAnd(x.valid, vAnd(x.index <= match, x.index >= fs.base()))
		ok = vAnd(ok, vImplies(c, fs.term(x.index) == x.term))
	}
	// match is only ever set from an acknowledgement F sent in L's term
	return vAnd(vImplies(match > 0, fterm >= lterm), vImplies(lterm == fterm, ok))
}

// vCommitDominance: a leader that committed an entry of its own term knows a
// commit index at least as high as any replica of the same or a lower term.
func vCommitDominance(ls, fs *vLogSnap, lterm, fterm uint64) bool {
	return vImplies(vAnd(fterm <= lterm, ls.term(ls.committed) == lterm), fs.committed <= ls.committed)
}

type vPair struct {
	L, F   *raft
	cL, cF vCluster
	pL, pF *vPre
}

func vPairBuild(maxRead int) *vPair {
	shapes := [][2]uint64{{vS3, 2}}
	if vTier() > 0 {
		shapes = [][2]uint64{{vS3, 2}, {vS3w, 3}, {vS4, 4}, {vS3w, 2}}
	}
	sf := shapes[vChoose("pairshape", len(shapes))]
	lo := vLogOpts{maxPers: 1, maxWin: 1, noAppliedTo: true, allSaved: true}
	fo := vLogOpts{maxPers: 1, maxWin: 2, noAppliedTo: true, allSaved: true}
	if vTier() > 0 {
		lo.maxWin = 2
	}
	L, cL := vRaft(vRaftOpts{pairs: [][2]uint64{{sf[0], 1}}, log: lo, roles: []State{leader}, maxRead: maxRead})
	F, cF := vRaft(vRaftOpts{pairs: [][2]uint64{{sf[0], sf[1]}}, log: fo, roles: []State{follower, candidate}})
	// the remote whose progress is symbolic on L is F
	if cL.focus != cF.self {
		rm := vRemoteOf(L, cF.self)
		fr := vRemoteOf(L, cL.focus)
		rm.match, rm.next, fr.match, fr.next = fr.match, fr.next, rm.match, rm.next
	}
	p := &vPair{L: L, F: F, cL: cL, cF: cF}
	ls, fs := vSnapLog(L.log), vSnapLog(F.log)
	vAssume(vLogMatching(ls, fs))
	vAssume(vLeaderComplete(ls, fs, L.term, F.term))
	vAssume(vOwnTermEntries(ls, fs, L.term))
	vAssume(vTruthfulMatch(ls, fs, L.term, F.term, vRemoteOf(L, F.replicaID).match))
	// a replica of the leader's term knows who the leader is, or nobody yet
	vAssume(vImplies(F.term == L.term, vAnd(vOr(F.leaderID == 0, F.leaderID == L.replicaID), vAnd(F.vote != F.replicaID, F.state == follower))))
	p.pL, p.pF = vRecord(L), vRecord(F)
	return p
}

// exchange delivers L's outgoing messages addressed to F, then F's responses
// addressed to L.  Everything else is dropped (loss is always allowed).
func (p *vPair) exchange(dup bool) (toF, toL int) {
	out := p.L.msgs
	p.L.msgs = make([]pb.Message, 0)
	fp := Peer{raft: p.F}
	for i := range out {
		if out[i].To != p.F.replicaID {
			continue
		}
		toF++
		vAssert(fp.Handle(out[i]) == nil, "pair-noerr-F")
		if dup {
			vAssert(fp.Handle(out[i]) == nil, "pair-noerr-F")
		}
	}
	back := p.F.msgs
	p.F.msgs = make([]pb.Message, 0)
	lp := Peer{raft: p.L}
	for i := range back {
		if back[i].To != p.L.replicaID {
			continue
		}
		toL++
		if back[i].Type == pb.ReplicateResp && !back[i].Reject {
			p.pL.ackFrom, p.pL.ackIndex = back[i].From, back[i].LogIndex
		}
		vAssert(lp.Handle(back[i]) == nil, "pair-noerr-L")
	}
	return
}

func (p *vPair) check() {
	// (the frame lemmas look at r.msgs: put the traffic of the round trip back)
	vFrame(p.pL, p.L, p.cL, "L-")
	vFrame(p.pF, p.F, p.cF, "F-")
	ls, fs := vSnapLog(p.L.log), vSnapLog(p.F.log)
	vAssert(vLogMatching(ls, fs), "P-log-matching-preserved")
	vAssert(vLeaderComplete(ls, fs, p.L.term, p.F.term), "P-committed-on-F-is-in-leader-log")
	if p.L.state == leader {
		vAssert(vOwnTermEntries(ls, fs, p.L.term), "P-entries-of-leader-term-are-leader-entries")
	}
	if p.L.state == leader {
		vAssert(vTruthfulMatch(ls, fs, p.L.term, p.F.term, vRemoteOf(p.L, p.F.replicaID).match), "P-match-index-backed-by-follower-log")
	}
	// state machine safety for the pair: below both commit indexes the logs agree
	q := vU64("pprobe")
	t0, _, ok0 := ls.at(q)
	t1, _, ok1 := fs.at(q)
	both := vAnd(vAnd(ok0, ok1), vAnd(q <= ls.committed, q <= fs.committed))
	vAssert(vImplies(vAnd(both, p.L.term >= p.F.term), t0 == t1), "P-committed-entries-agree")
}

// C02/L5: one replication round trip between a real leader and a real follower.
//vcheck: reach=replicate,propose,heartbeat,acked,rejected,done workers=16 tier=dev
func VHarness_C02_PairReplicate() {
	p := vPairBuild(0)
	L, F := p.L, p.F
	preMatch := vRemoteOf(L, F.replicaID).match
	switch vChoose("pstep", 3) {
	case 0:
		vReach("replicate")
		L.sendReplicateMessage(F.replicaID)
	case 1:
		vReach("propose")
		vAssert(L.Handle(pb.Message{Type: pb.Propose, From: L.replicaID, Entries: []pb.Entry{{Cmd: []byte{0x5a}}}}) == nil, "pair-noerr-L")
	case 2:
		vReach("heartbeat")
		vAssert(L.Handle(pb.Message{Type: pb.LeaderHeartbeat, From: L.replicaID}) == nil, "pair-noerr-L")
	}
	dup := false
	if vTier() > 0 {
		dup = vBool("dup")
	}
	fterm := F.term
	p.exchange(dup)
	p.check()
	if L.state == leader {
		m := vRemoteOf(L, F.replicaID).match
		if m > preMatch {
			vReach("acked")
		}
	}
	if fterm > L.term {
		vReach("rejected")
	}
	vReach("done")
}

// C06 pair: ReadIndex on a real leader confirmed by a real voting follower
// through the real hinted heartbeat and its real response.
//vcheck: props=C06 reach=released,dropped,unconfirmed,done workers=16 tier=dev
func VHarness_C06_PairReadIndex() {
	p := vPairBuild(1)
	L, F := p.L, p.F
	ls, fs := vSnapLog(L.log), vSnapLog(F.log)
	vAssume(vCommitDominance(ls, fs, L.term, F.term))
	fCommitted := fs.committed
	lCommitted := ls.committed
	ownTerm := ls.term(ls.committed) == L.term
	ctx := pb.SystemCtx{Low: vU64("rctxlow"), High: vU64("rctxhigh")}
	vAssume(ctx.Low != 0)
	for _, q := range L.readIndex.queue {
		vAssume(q.Low != ctx.Low)
	}
	nready := len(L.readyToRead)
	vAssert(L.Handle(pb.Message{Type: pb.ReadIndex, From: L.replicaID, Hint: ctx.Low, HintHigh: ctx.High}) == nil, "pair-noerr-L")
	if !ownTerm {
		vReach("dropped")
		vAssert(len(L.readIndex.queue) == p.pL.nctx, "R1-not-queued-before-own-term-commit")
	}
	fterm := F.term
	p.exchange(false)
	p.check()
	released := false
	for i := nready; i < len(L.readyToRead); i++ {
		rr := L.readyToRead[i]
		if rr.SystemCtx == ctx {
			released = true
			vReach("released")
			vAssert(ownTerm, "R1-released-only-after-own-term-commit")
			vAssert(rr.Index >= lCommitted, "R1-index-ge-leader-commit-at-request")
			// the confirming follower's commit index at the time is covered too
			vAssert(rr.Index >= fCommitted, "R1-index-ge-confirming-follower-commit")
			vAssert(fterm <= p.pL.term, "R2-confirmed-only-by-a-replica-of-no-higher-term")
		}
	}
	if !released && ownTerm {
		vReach("unconfirmed")
	}
	vReach("done")
}
