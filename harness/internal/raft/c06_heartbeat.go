package raft

import (
	pb "github.com/lni/dragonboat/v4/raftpb"
)

// C06/R3 + C18 + C02: the periodic leader heartbeat. Voting members get the
// most recently queued read context as hint, non-voting members never get a
// hint, and the advertised commit index never exceeds what the receiver has
// acknowledged.
//vcheck: props=C18,C02 reach=hinted,plain,done workers=16
func VHarness_C06_LeaderHeartbeat() {
	o := vRaftOpts{pairs: [][2]uint64{{vS3, 1}, {vS4, 1}, {vS5, 1}}, log: vLogOpts{maxPers: 1, maxWin: 2, noAppliedTo: true, allSaved: true},
		roles: []State{leader}, maxRead: 2}
	r, c := vRaft(o)
	p := vRecord(r)
	nq := len(r.readIndex.queue)
	var latest pb.SystemCtx
	if nq > 0 {
		latest = r.readIndex.queue[nq-1]
	}
	err := r.Handle(pb.Message{Type: pb.LeaderHeartbeat, From: c.self})
	vAssert(err == nil, "noerr")
	vFrame(p, r, c, "")
	vAssert(len(r.readIndex.queue) == nq, "HB-read-queue-untouched")
	got := map[uint64]bool{}
	for i := range r.msgs {
		m := &r.msgs[i]
		vAssert(m.Type == pb.Heartbeat, "HB-only-heartbeats")
		vAssert(!got[m.To] && m.To != c.self, "HB-one-per-member")
		got[m.To] = true
		var rm *remote
		voting := true
		if x, ok := r.remotes[m.To]; ok {
			rm = x
		} else if x, ok := r.witnesses[m.To]; ok {
			rm = x
		} else {
			rm = r.nonVotings[m.To]
			voting = false
		}
		vAssert(rm != nil, "HB-only-to-members")
		vAssert(m.Commit <= rm.match && m.Commit <= p.log.committed, "HB-commit-le-acknowledged")
		if voting && nq > 0 {
			vReach("hinted")
			vAssert(m.Hint == latest.Low && m.HintHigh == latest.High, "R3-voting-members-get-latest-ctx")
		} else if voting {
			vReach("plain")
			vAssert(m.Hint == 0 && m.HintHigh == 0, "HB-no-hint-without-pending-read")
		} else {
			vAssert(m.Hint == 0 && m.HintHigh == 0, "R3-nonvoting-never-gets-a-hint")
		}
	}
	vAssert(len(got) == len(c.shape.all())-1 || nq > 0, "HB-every-member-gets-a-heartbeat")
	vReach("done")
}
