package raft

import (
	pb "github.com/lni/dragonboat/v4/raftpb"
)

func vLeaderOpts(maxRead int) vRaftOpts {
	o := vRaftOpts{pairs: [][2]uint64{{vS3, 1}, {vS3w, 1}, {vS4, 1}, {vS1, 1}}, log: vLogOpts{maxPers: 1, maxWin: 2, noAppliedTo: true, allSaved: true},
		roles: []State{leader}, maxRead: maxRead}
	if vTier() > 0 {
		o = vRaftOpts{shapes: []int{vS1, vS3, vS3w, vS4, vS5}, log: vLogOpts{maxPers: 1, maxWin: 2, ss: true}, roles: []State{leader}, maxRead: maxRead, flags: true}
	}
	return o
}

// C06/R1 (+C18): a ReadIndex request is queued only by a leader that has
// committed an entry of its own term, with the commit index of that moment; a
// witness's request is never served; otherwise it is reported dropped.
//vcheck: reach=queued,dropped,single,witness,done workers=16
func VHarness_C06_LeaderReadIndex() {
	r, c := vRaft(vLeaderOpts(1))
	p := vRecord(r)
	ctx := pb.SystemCtx{Low: vU64("low"), High: vU64("high")}
	vAssume(ctx.Low != 0)
	for _, q := range r.readIndex.queue {
		vAssume(q.Low != ctx.Low) // request contexts are random 128-bit values
	}
	from := vU64("reqfrom")
	vAssume(vOr(from == c.self, vIn(from, c.shape.all())))
	m := pb.Message{Type: pb.ReadIndex, To: c.self, From: from, Hint: ctx.Low, HintHigh: ctx.High}
	if vBool("forwarded") {
		m.Term = 0
	}
	nq := len(r.readIndex.queue)
	err := r.Handle(m)
	vAssert(err == nil, "noerr")
	vFrame(p, r, c, "")
	committedOwnTerm := p.log.term(p.log.committed) == p.term
	_, fromWitness := r.witnesses[m.From]
	single := len(c.shape.voting()) == 1
	if rs, ok := r.readIndex.pending[ctx]; ok && len(r.readIndex.queue) == nq+1 {
		vReach("queued")
		vAssert(committedOwnTerm, "R1-needs-committed-entry-of-own-term")
		vAssert(!fromWitness, "R18-witness-read-never-served")
		vAssert(rs.index == p.log.committed, "R1-records-commit-index-at-request-time")
		vAssert(rs.from == m.From, "R1-records-requester")
		vAssert(len(rs.confirmed) == 0, "R1-starts-unconfirmed")
		vAssert(!single, "R1-single-voter-does-not-queue")
		// the confirmation round is started at once: hinted heartbeats to every other voting member
		n := 0
		for i := range r.msgs {
			if r.msgs[i].Type == pb.Heartbeat && r.msgs[i].Hint == ctx.Low && r.msgs[i].HintHigh == ctx.High {
				n++
			}
		}
		vAssert(n == len(c.shape.voting())-1, "R2-confirmation-round-started")
	} else if len(r.readyToRead) > 0 {
		vReach("single")
		vAssert(single && !fromWitness, "R1-immediate-only-for-single-voter")
		vAssert(r.readyToRead[0].Index == p.log.committed && r.readyToRead[0].SystemCtx == ctx, "R1-single-index")
	} else {
		if fromWitness {
			vReach("witness")
		} else {
			vReach("dropped")
			vAssert(!committedOwnTerm || single, "R1-only-dropped-when-not-ready")
			vAssert(len(r.droppedReadIndexes) == 1 && r.droppedReadIndexes[0] == ctx, "R1-drop-is-reported")
		}
		vAssert(len(r.readIndex.queue) == nq, "R1-nothing-queued")
	}
	vReach("done")
}

// C06/R2 (+C18): a heartbeat response releases a pending read only when the
// responders that confirmed its context (distinct ids) plus the leader form a
// quorum of voting members; everything released was queued no later and gets an
// index >= its own recorded index and <= the commit index.
//vcheck: reach=released,pending,done workers=16
func VHarness_C06_Confirm() {
	r, c := vRaft(vLeaderOpts(2))
	vAssume(len(r.readIndex.queue) >= 1)
	p := vRecord(r)
	// remember the queue
	type qe struct {
		ctx       pb.SystemCtx
		index     uint64
		from      uint64
		confirmed map[uint64]struct{}
	}
	var queue []qe
	for _, cx := range r.readIndex.queue {
		rs := r.readIndex.pending[cx]
		e := qe{ctx: cx, index: rs.index, from: rs.from, confirmed: map[uint64]struct{}{}}
		for k := range rs.confirmed {
			e.confirmed[k] = struct{}{}
		}
		queue = append(queue, e)
	}
	which := vChoose("which", len(queue)+1)
	m := pb.Message{Type: pb.HeartbeatResp, To: c.self, From: vSender(c), Term: r.term}
	if which < len(queue) {
		m.Hint, m.HintHigh = queue[which].ctx.Low, queue[which].ctx.High
		// no fabricated messages: a confirmation for a pending context comes from a
		// replica the hinted heartbeat was sent to, i.e. a voting member (lemma R3)
		vAssume(vIn(m.From, c.shape.voting()))
	} else {
		m.Hint, m.HintHigh = vU64("otherlow"), vU64("otherhigh")
		for _, e := range queue {
			vAssume(m.Hint != e.ctx.Low)
		}
	}
	peer := Peer{raft: r}
	err := peer.Handle(m)
	vAssert(err == nil, "noerr")
	vFrame(p, r, c, "")
	released := len(queue) - len(r.readIndex.queue)
	quorum := uint64(len(c.shape.voting())/2 + 1)
	if released > 0 {
		vReach("released")
		vAssert(which < len(queue), "R2-unknown-context-releases-nothing")
		// distinct confirmations of the confirmed context, counted independently
		n := uint64(1) // the leader itself
		for _, id := range c.shape.voting() {
			if id == c.self {
				continue
			}
			_, had := queue[which].confirmed[id]
			n += vIte(vOr(had, m.From == id), 1, 0)
		}
		vAssert(n >= quorum, "R2-release-needs-quorum-of-distinct-voting-confirmations")
		vAssert(released == which+1, "R2-releases-exactly-the-requests-queued-no-later")
		// every released request is answered with an index >= its own and <= commit
		for k := 0; k <= which; k++ {
			want := queue[k]
			found := false
			if want.from == NoNode || want.from == c.self {
				for _, rr := range r.readyToRead {
					if rr.SystemCtx == want.ctx {
						found = true
						vAssert(rr.Index >= want.index, "R2-index-not-older-than-recorded")
						vAssert(rr.Index <= p.log.committed, "R5-index-le-commit")
					}
				}
			} else {
				for i := range r.msgs {
					o := &r.msgs[i]
					if o.Type == pb.ReadIndexResp && o.To == want.from {
						found = true
						vAssert(o.LogIndex >= want.index, "R2-resp-index-not-older-than-recorded")
						vAssert(o.LogIndex <= p.log.committed, "R5-resp-index-le-commit")
					}
				}
			}
			vAssert(found, "R2-released-request-is-answered")
		}
	} else {
		vReach("pending")
		vAssert(len(r.readyToRead) == 0, "R2-nothing-ready-without-release")
		for i := range r.msgs {
			vAssert(r.msgs[i].Type != pb.ReadIndexResp, "R2-no-resp-without-release")
		}
	}
	vReach("done")
}

// C06: a follower / non-voting replica forwards a ReadIndex to the leader it
// knows or reports it dropped; a ReadIndexResp is accepted only from the leader
// of the current term (frame: term check) and its index is passed through.
//vcheck: reach=forwarded,dropped,resp,done workers=8
func VHarness_C06_FollowerReadIndex() {
	r, c := vRaft(vRaftOpts{pairs: [][2]uint64{{vS3, 1}, {vS4, 4}, {vS3w, 3}}, log: vSmallLog(), roles: []State{follower, candidate}, flags: true})
	p := vRecord(r)
	ctx := pb.SystemCtx{Low: vU64("low"), High: vU64("high")}
	vAssume(ctx.Low != 0)
	peer := Peer{raft: r}
	if vBool("isResp") {
		m := pb.Message{Type: pb.ReadIndexResp, To: c.self, From: vLeaderSender(c), Term: r.term, LogIndex: vU64("respidx"), Hint: ctx.Low, HintHigh: ctx.High}
		err := peer.Handle(m)
		vAssert(err == nil, "noerr")
		if len(r.readyToRead) > 0 {
			vReach("resp")
			vAssert(p.state == follower || p.state == nonVoting, "R-resp-only-on-follower")
			vAssert(r.readyToRead[0].Index == m.LogIndex && r.readyToRead[0].SystemCtx == ctx, "R-resp-index-passed-through")
		}
	} else {
		err := peer.ReadIndex(ctx)
		vAssert(err == nil, "noerr")
		vFrame(p, r, c, "")
		fwd := false
		for i := range r.msgs {
			if r.msgs[i].Type == pb.ReadIndex {
				fwd = true
				vAssert(r.msgs[i].To == p.leaderID && p.leaderID != NoLeader, "R-forwarded-to-known-leader")
				vAssert(r.msgs[i].Hint == ctx.Low && r.msgs[i].HintHigh == ctx.High, "R-forwarded-ctx")
			}
		}
		if fwd {
			vReach("forwarded")
			vAssert(p.state == follower || p.state == nonVoting, "R18-only-follower-or-nonvoting-forward-reads")
		} else {
			vReach("dropped")
			vAssert(len(r.readyToRead) == 0, "R-no-local-answer-on-non-leader")
			if p.state != witness {
				// (a candidate reports the same context twice; the duplicate is harmless:
				// pendingReadIndex.dropped finds nothing the second time, see C12)
				vAssert(len(r.droppedReadIndexes) >= 1, "R-drop-is-reported")
				for _, d := range r.droppedReadIndexes {
					vAssert(d == ctx, "R-drop-reports-the-request")
				}
			}
		}
	}
	vReach("done")
}
