package client

//vcheck:bounds client.Session codec: the four fields fully symbolic (64-bit), all at once

// C13 (client sessions): decoding the encoding of a session yields an equal
// session and the encoding has exactly the advertised size.
//vcheck: reach=done workers=8
func VHarness_C13_ClientSession() {
	s := Session{ShardID: vU64("shard"), ClientID: vU64("client"), SeriesID: vU64("series"), RespondedTo: vU64("responded")}
	sz := s.Size()
	buf := make([]byte, sz)
	n, err := s.MarshalTo(buf)
	vAssert(err == nil, "marshal-ok")
	vAssert(n == sz, "size-exact")
	var d Session
	vAssert(d.Unmarshal(buf[:n]) == nil, "unmarshal-ok")
	vAssert(d.ShardID == s.ShardID && d.ClientID == s.ClientID && d.SeriesID == s.SeriesID && d.RespondedTo == s.RespondedTo, "roundtrip")
	b2, err := s.Marshal()
	vAssert(err == nil && len(b2) == sz, "marshal-size")
	vReach("done")
}
